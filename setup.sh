#!/bin/sh
# Run once after a fresh restore, offline: compiles every harness binary once so the
# Go build cache is warm (plain and -race). Builds nothing that ./check cannot rebuild.
cd "$(dirname "$0")" || exit 1
export GOFLAGS=-mod=mod GOPROXY=off GOSUMDB=off GOTOOLCHAIN=local
exec ./check --build-all
