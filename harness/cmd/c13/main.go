// C13: the feeder only ever asks the witness for a justified step.
package main

import (
	"bytes"
	"context"
	"crypto/sha256"
	"errors"
	"fmt"
	"github.com/transparency-dev/witness/internal/persistence"
	"github.com/transparency-dev/witness/internal/verif/kit/seams"
	"math/rand/v2"
	"os"
	"strings"
	"sync"
	"time"

	"github.com/transparency-dev/formats/log"
	f_note "github.com/transparency-dev/formats/note"
	"github.com/transparency-dev/witness/internal/feeder"
	"github.com/transparency-dev/witness/internal/verif/kit/asmunits"
	"github.com/transparency-dev/witness/internal/verif/kit/ev"
	"github.com/transparency-dev/witness/internal/verif/kit/gen"
	"github.com/transparency-dev/witness/internal/verif/kit/refnote"
	"github.com/transparency-dev/witness/internal/verif/kit/reftree"
	"github.com/transparency-dev/witness/internal/verif/kit/wit"
	"github.com/transparency-dev/witness/omniwitness"
)

// event is one call observed at the stub witness or at the log closures.
type event struct {
	Kind        string // get | proof | update | fetchcp
	Attempt     int
	Old         uint64
	CP          []byte
	Proof       [][]byte
	From        log.Checkpoint
	To          log.Checkpoint
	Ret         []byte
	Err         string
	AfterCancel bool
}

// script decides, per attempt (attempts are delimited by get-latest calls), what the witness holds and what fails.
type script struct {
	mu        sync.Mutex
	l         *gen.Log
	branch    int      // branch the witness's checkpoints are on
	witSizes  []int64  // witness size per attempt (-1 = none); last entry repeats
	failAt    []string // per attempt: "", "get", "proof", "update"; beyond the list: no failure
	persist   string   // fail this point forever (context test)
	attempt   int
	events    []event
	cancelled func() bool
	cur       []byte
	onAttempt func(n int)
	// timeoutClass: the injected transient failures are timeouts of ONE request (errors that wrap
	// context.DeadlineExceeded, as http.Client.Timeout and net deadlines produce) while the cycle's context is alive
	timeoutClass bool
}

func (s *script) injected(what string) error {
	if s.timeoutClass {
		return fmt.Errorf("injected: %s: request timed out: %w", what, context.DeadlineExceeded)
	}
	return errors.New("injected: " + what)
}

func (s *script) witnessCP(at int) []byte {
	i := at
	if i >= len(s.witSizes) {
		i = len(s.witSizes) - 1
	}
	if s.witSizes[i] < 0 {
		return nil
	}
	size := uint64(s.witSizes[i])
	text := refnote.Body(s.l.Origin, size, s.l.Root(s.branch, size))
	return refnote.Assemble(text, s.l.Key.SigLine(text), "— witness.example AAAAAAAAAAAAAAAAAAAAAAAAAAAAAAAAAAAAAAAAAAAAAAAAAAAAAAAAAAAAAAAAAAAAAAAAAAAAAAAAAAAAAAAAAAAAAAAA")
}

func (s *script) fail(point string) bool {
	if s.persist == point {
		return true
	}
	a := s.attempt - 1
	return a >= 0 && a < len(s.failAt) && s.failAt[a] == point
}

func (s *script) GetLatestCheckpoint(ctx context.Context, id string) ([]byte, error) {
	s.mu.Lock()
	defer s.mu.Unlock()
	s.attempt++
	if s.onAttempt != nil {
		s.onAttempt(s.attempt)
	}
	e := event{Kind: "get", Attempt: s.attempt, AfterCancel: s.cancelled != nil && s.cancelled()}
	s.cur = s.witnessCP(s.attempt - 1)
	if s.fail("get") {
		e.Err = "injected"
		s.events = append(s.events, e)
		return nil, s.injected("witness unavailable")
	}
	e.Ret = s.cur
	s.events = append(s.events, e)
	if s.cur == nil {
		return nil, os.ErrNotExist
	}
	return s.cur, nil
}

func (s *script) Update(ctx context.Context, id string, old uint64, cp []byte, p [][]byte) ([]byte, error) {
	s.mu.Lock()
	defer s.mu.Unlock()
	e := event{Kind: "update", Attempt: s.attempt, Old: old, CP: cp, Proof: p}
	if s.fail("update") {
		e.Err = "injected"
		s.events = append(s.events, e)
		return nil, s.injected("update failed")
	}
	n, _ := refnote.Parse(cp)
	ret := refnote.Assemble(n.Text, n.Sigs[0].Line, fmt.Sprintf("— witness.example %s", "BBBBBBBBBBBBBBBBBBBBBBBBBBBBBBBBBBBBBBBBBBBBBBBBBBBBBBBBBBBBBBBBBBBBBBBBBBBBBBBBBBBBBBBBBBBBBBBB"))
	e.Ret = ret
	s.events = append(s.events, e)
	return ret, nil
}

func main() {
	wit.Quiet()
	wit.EnsureMetrics(nil)
	run := ev.Start("C13", "fault_enumeration")
	defer run.Finish()
	run.Rule("the real feeder.FeedOnce runs against a recording stub witness (its latest checkpoint may change between attempts) and instrumented FetchCheckpoint/FetchProof closures over a kit/reftree log. enumeration: all 121 sequences of 0-4 failing attempts, each failing at get-latest, fetch-proof or update, x {first use, growth, equality}, with real back-off sleeps, all run concurrently; all (witness size, log size) pairs in 0..K squared x {honest, forked} against the stub and against the real witness through the real adapter; context cancellation while the witness fails persistently, judged on attempts started after the cancel. evaluations = FeedOnce cycles; nontrivial = distinct (scenario, failure pattern / size relation, outcome)")
	run.Assume("size-0 first checkpoints are not used with the real witness (known finding F2)", "an attempt = one get-latest call and what follows it")
	run.Floor("fault_patterns", 250)
	run.Floor("attempts_judged", 1000)
	run.Floor("real_witness_cycles", 400)
	run.Floor("ahead_cycles", 50)
	run.Floor("cancel_cycles", 20)
	run.Exhaustive(false)

	// (B) fault enumeration
	var patterns [][]string
	var rec func(p []string)
	rec = func(p []string) {
		patterns = append(patterns, append([]string{}, p...))
		if len(p) == 4 {
			return
		}
		for _, f := range []string{"get", "proof", "update"} {
			rec(append(p, f))
		}
	}
	rec(nil)
	type job struct {
		scen string
		pat  []string
	}
	var jobs []job
	for _, sc := range []string{"first_use", "growth", "equality"} {
		for _, p := range patterns {
			jobs = append(jobs, job{sc, p})
		}
	}
	// the assembled service with two logs whose keys share a name: a checkpoint signed by the other log's key
	run.Floor("assembled_cross_signed_episodes", 5)
	run.Units("asm_cross_signed", run.Pick(6, 48), 6, func(unit int64, r *rand.Rand) { asmunits.CrossSigned(run, unit, r) })
	run.Units("faults", len(jobs), len(jobs), func(unit int64, r *rand.Rand) {
		j := jobs[unit]
		faults(run, unit, r, j.scen, j.pat)
	})
	// (A) size pairs against the stub
	K := run.Pick(14, 40)
	run.Units("pairs_stub", (K+1)*(K+1), 0, func(unit int64, r *rand.Rand) {
		ws, ls := int64(unit)/int64(K+1)-1, uint64(unit)%uint64(K+1)
		for _, forked := range []bool{false, true} {
			pairStub(run, unit, r, ws, ls, forked)
		}
	})
	// (D) size pairs against the real witness
	dir := run.Scratch()
	run.Units("pairs_real", (K+1)*(K+1), 64, func(unit int64, r *rand.Rand) {
		ws, ls := uint64(unit)/uint64(K+1), uint64(unit)%uint64(K+1)
		for _, forked := range []bool{false, true} {
			pairReal(run, unit, r, dir, ws, ls, forked)
		}
	})
	// (F) sizes near the top of the uint64 range (synthetic roots, accepting stub witness)
	huge := []uint64{3, 1 << 32, 1 << 62, 1<<63 - 1, 1 << 63, 1<<63 + 10, 1<<64 - 1}
	run.Floor("huge_pairs", int64(len(huge)*len(huge)))
	run.Units("pairs_huge", len(huge)*len(huge), 0, func(unit int64, r *rand.Rand) {
		hugePair(run, unit, r, huge[int(unit)/len(huge)], huge[int(unit)%len(huge)])
	})
	// (E) several cycles on one real witness that also advances through another entry point
	run.Floor("chain_cycles", 100)
	run.Units("chain_real", run.Pick(60, 600), 32, func(unit int64, r *rand.Rand) { chainReal(run, unit, r, dir) })
	// (C) context end
	run.Units("cancel", run.Pick(24, 96), 24, func(unit int64, r *rand.Rand) { cancelTest(run, unit, r) })
}

func newLog(r *rand.Rand) *gen.Log {
	u := gen.NewUniverse(r, gen.Opts{NLogs: 1, MaxSize: 64, Branches: 2})
	l := u.Logs[0]
	l.ReplaceBranch(1, &reftree.Tree{Seed: l.Branches[0].Seed, TagA: 1, TagB: 9, Fork: 0}) // branch 1 shares no leaf with branch 0
	return l
}

func opts(l *gen.Log, s *script, w feeder.Witness, logBranch int, logSize uint64, evs *[]event, mu *sync.Mutex) feeder.FeedOpts {
	decorate := (logSize+uint64(logBranch))%2 == 1 // half of the checkpoints carry extension lines
	v, _ := f_note.NewVerifier(l.Key.Vkey())
	return feeder.FeedOpts{
		LogID:          l.ID,
		LogOrigin:      l.Origin,
		LogSigVerifier: v,
		Witness:        w,
		FetchCheckpoint: func(ctx context.Context) ([]byte, error) {
			cp := l.Honest(logBranch, logSize)
			if decorate {
				// the log's checkpoint may carry extension lines and other parties' signature lines
				text := refnote.Body(l.Origin, logSize, l.Root(logBranch, logSize), "Timestamp: 1700000000", "other extension")
				cp = refnote.Assemble(text, l.Key.SigLine(text), "— someone.else AAAAAAAAAAAAAAAAAAAAAAAAAAAAAAAAAAAAAAAAAAAAAAAAAAAAAAAAAAAAAAAAAAAAAAAAAAAAAAAAAAAAAAAAAAAAAAAA")
			}
			mu.Lock()
			*evs = append(*evs, event{Kind: "fetchcp", Ret: cp})
			mu.Unlock()
			return cp, nil
		},
		FetchProof: func(ctx context.Context, from, to log.Checkpoint) ([][]byte, error) {
			e := event{Kind: "proof", From: from, To: to}
			if s != nil {
				s.mu.Lock()
				e.Attempt = s.attempt
				f := s.fail("proof")
				s.mu.Unlock()
				if f {
					e.Err = "injected"
					mu.Lock()
					*evs = append(*evs, e)
					mu.Unlock()
					return nil, s.injected("log unavailable")
				}
			}
			p := l.Branches[logBranch].Consistency(from.Size, to.Size)
			e.Proof = p
			mu.Lock()
			*evs = append(*evs, e)
			mu.Unlock()
			return p, nil
		},
	}
}

// judgeAttempts applies the per-attempt monitor to the merged event list.
func judgeAttempts(run *ev.Run, unit int64, l *gen.Log, s *script, logEvents []event, what string, detail map[string]any) {
	proofs := map[int][]event{}
	for _, e := range logEvents {
		if e.Kind == "proof" {
			proofs[e.Attempt] = append(proofs[e.Attempt], e)
		}
	}
	var got *event
	for i := range s.events {
		e := s.events[i]
		switch e.Kind {
		case "get":
			got = &s.events[i]
			run.Count("attempts_judged")
		case "update":
			if got == nil || got.Attempt != e.Attempt {
				run.Violate("update_without_get;"+what, "Update was called in an attempt that did not read the witness's latest checkpoint first", unit, detail)
				continue
			}
			if got.Err != "" {
				run.Violate("update_after_failed_get;"+what, "Update was called although get-latest failed in that attempt", unit, detail)
			}
			auth, body := l.Judge(e.CP)
			if !auth {
				run.Violate("submitted_unverified;"+what, "the submitted checkpoint does not verify under the log's key and origin", unit, detail)
				continue
			}
			var wsize uint64
			var wroot []byte
			if got.Ret != nil {
				n, _ := refnote.Parse(got.Ret)
				c, _ := refnote.ParseCheckpoint(n.Text)
				wsize, wroot = c.Size, c.Root
			}
			if e.Old != wsize {
				run.Violate(fmt.Sprintf("old_size_not_witness_size;%s", what), fmt.Sprintf("attempt %d: witness reported size %d in this attempt, feeder passed old size %d", e.Attempt, wsize, e.Old), unit, detail)
			}
			if wsize > body.Size {
				run.Violate("submitted_while_witness_ahead;"+what, fmt.Sprintf("witness at %d, submitted %d", wsize, body.Size), unit, detail)
			}
			same := got.Ret != nil && wsize == body.Size && bytes.Equal(wroot, body.Root)
			ps := proofs[e.Attempt]
			if same {
				if len(e.Proof) != 0 {
					run.Violate("nonempty_proof_for_equal_checkpoint;"+what, "sizes and roots equal but a non-empty proof was submitted", unit, detail)
				}
			} else {
				if len(ps) != 1 {
					run.Violate(fmt.Sprintf("proof_fetches=%d;%s", len(ps), what), fmt.Sprintf("attempt %d: %d proof fetches before Update", e.Attempt, len(ps)), unit, detail)
					continue
				}
				p := ps[0]
				if p.From.Size != wsize || !bytes.Equal(p.From.Hash, wroot) || p.To.Size != body.Size || !bytes.Equal(p.To.Hash, body.Root) {
					run.Violate("proof_not_anchored_to_witness_latest;"+what, fmt.Sprintf("attempt %d: proof requested from (%d) to (%d); witness latest in this attempt is %d, submitted %d", e.Attempt, p.From.Size, p.To.Size, wsize, body.Size), unit, detail)
				}
				if !eq(p.Proof, e.Proof) {
					run.Violate("proof_modified;"+what, "the submitted proof is not the proof the log returned", unit, detail)
				}
			}
		}
	}
}

func eq(a, b [][]byte) bool {
	if len(a) != len(b) {
		return false
	}
	for i := range a {
		if !bytes.Equal(a[i], b[i]) {
			return false
		}
	}
	return true
}

func faults(run *ev.Run, unit int64, r *rand.Rand, scen string, pat []string) {
	l := newLog(r)
	logSize := uint64(20 + r.IntN(20))
	s := &script{l: l, failAt: pat, timeoutClass: unit%2 == 1}
	switch scen {
	case "first_use":
		s.witSizes = []int64{-1}
	case "growth":
		// another feeder may move the witness between attempts
		s.witSizes = []int64{3}
		for i := 0; i < 5; i++ {
			last := s.witSizes[len(s.witSizes)-1]
			if r.IntN(2) == 0 && uint64(last)+2 < logSize {
				last += 1 + int64(r.IntN(2))
			}
			s.witSizes = append(s.witSizes, last)
		}
	case "equality":
		s.witSizes = []int64{int64(logSize)}
	}
	reachable := true
	if scen == "equality" {
		for _, f := range pat {
			if f == "proof" {
				reachable = false // no proof is fetched when the checkpoints are equal
			}
		}
	}
	if !reachable {
		run.Count("fault_patterns_unreachable")
		return
	}
	var evs []event
	var mu sync.Mutex
	ctx, cancel := context.WithTimeout(context.Background(), 60*time.Second)
	defer cancel()
	ret, err := feeder.FeedOnce(ctx, opts(l, s, s, 0, logSize, &evs, &mu))
	run.Count("evaluations")
	run.Count("fault_patterns")
	what := scen
	detail := map[string]any{"scenario": scen, "pattern": pat, "err": fmt.Sprint(err), "events": summarize(s.events, evs)}
	run.Distinct("nontrivial", fmt.Sprintf("faults/%s/%v", scen, pat))
	if ctx.Err() != nil {
		run.Inconclusive("watchdog: FeedOnce did not finish a fault pattern within 60s")
		return
	}
	if err != nil {
		run.Violate(fmt.Sprintf("no_recovery_after_transient_failures;%s;n=%d", scen, len(pat)), fmt.Sprintf("after %d transient failures %v cleared, FeedOnce returned %v", len(pat), pat, err), unit, detail)
	} else {
		var last *event
		for i := range s.events {
			if s.events[i].Kind == "update" && s.events[i].Err == "" {
				last = &s.events[i]
			}
		}
		if last == nil || !bytes.Equal(ret, last.Ret) {
			run.Violate("result_not_witness_bytes;"+scen, "FeedOnce succeeded but did not return the bytes the witness returned", unit, detail)
		}
		if s.attempt != len(pat)+1 {
			run.Violate(fmt.Sprintf("attempt_count;%s", scen), fmt.Sprintf("%d failures then success should take %d attempts, saw %d", len(pat), len(pat)+1, s.attempt), unit, detail)
		}
	}
	judgeAttempts(run, unit, l, s, evs, what, detail)
	if unit == 77 {
		run.Sample(detail)
	}
}

func summarize(w, lg []event) []string {
	var out []string
	for _, e := range w {
		out = append(out, fmt.Sprintf("witness %s attempt=%d old=%d err=%q cancelled=%v", e.Kind, e.Attempt, e.Old, e.Err, e.AfterCancel))
	}
	for _, e := range lg {
		out = append(out, fmt.Sprintf("log %s attempt=%d from=%d to=%d err=%q", e.Kind, e.Attempt, e.From.Size, e.To.Size, e.Err))
	}
	return out
}

func pairStub(run *ev.Run, unit int64, r *rand.Rand, ws int64, ls uint64, forked bool) {
	l := newLog(r)
	s := &script{l: l, witSizes: []int64{ws}}
	logBranch := 0
	if forked {
		logBranch = 1
	}
	var evs []event
	var mu sync.Mutex
	ctx, cancel := context.WithTimeout(context.Background(), 30*time.Second)
	defer cancel()
	ret, err := feeder.FeedOnce(ctx, opts(l, s, s, logBranch, ls, &evs, &mu))
	run.Count("evaluations")
	rel := "grow"
	switch {
	case ws < 0:
		rel = "first"
	case uint64(ws) == ls:
		rel = "equal"
	case uint64(ws) > ls:
		rel = "ahead"
	}
	what := fmt.Sprintf("stub/%s/forked=%v", rel, forked)
	run.Distinct("nontrivial", what)
	detail := map[string]any{"witness_size": ws, "log_size": ls, "forked": forked, "err": fmt.Sprint(err), "events": summarize(s.events, evs)}
	if rel == "ahead" {
		run.Count("ahead_cycles")
		for _, e := range s.events {
			if e.Kind == "update" {
				run.Violate("update_while_ahead", fmt.Sprintf("witness at %d, log at %d: Update was called", ws, ls), unit, detail)
			}
		}
		if err == nil || s.attempt != 1 {
			run.Violate("ahead_not_permanent", fmt.Sprintf("witness ahead: FeedOnce returned %v after %d attempts (want an error after exactly one)", err, s.attempt), unit, detail)
		}
	} else {
		if err != nil {
			run.Violate("stub_cycle_failed;"+rel, fmt.Sprintf("accepting witness stub, no failures: FeedOnce returned %v", err), unit, detail)
		} else if n := len(s.events); n == 0 || !bytes.Equal(ret, s.events[n-1].Ret) {
			run.Violate("result_not_witness_bytes;"+rel, "FeedOnce did not return the bytes the witness returned", unit, detail)
		}
	}
	judgeAttempts(run, unit, l, s, evs, what, detail)
}

// recorder wraps the real adapter to record what the feeder asks of the real witness.
type recorder struct {
	inner feeder.Witness
	s     *script
	// truth reads the real witness directly (nil bytes: nothing stored); stale counts answers of the
	// adapter that differ from it although nothing else was running.
	truth func() []byte
	stale []string
}

func (w *recorder) GetLatestCheckpoint(ctx context.Context, id string) ([]byte, error) {
	cp, err := w.inner.GetLatestCheckpoint(ctx, id)
	if w.truth != nil && (err == nil || errors.Is(err, os.ErrNotExist)) {
		if want := w.truth(); !bytes.Equal(want, cp) {
			w.stale = append(w.stale, fmt.Sprintf("adapter reported %d bytes (err=%v), the witness holds %d bytes", len(cp), err, len(want)))
		}
	}
	w.s.mu.Lock()
	w.s.attempt++
	e := event{Kind: "get", Attempt: w.s.attempt, Ret: cp, AfterCancel: w.s.cancelled != nil && w.s.cancelled()}
	if err != nil && !errors.Is(err, os.ErrNotExist) {
		e.Err = err.Error()
	}
	w.s.events = append(w.s.events, e)
	w.s.mu.Unlock()
	return cp, err
}

func (w *recorder) Update(ctx context.Context, id string, old uint64, cp []byte, p [][]byte) ([]byte, error) {
	ret, err := w.inner.Update(ctx, id, old, cp, p)
	w.s.mu.Lock()
	e := event{Kind: "update", Attempt: w.s.attempt, Old: old, CP: cp, Proof: p, Ret: ret}
	if err != nil {
		e.Err = err.Error()
	}
	w.s.events = append(w.s.events, e)
	w.s.mu.Unlock()
	return ret, err
}

func pairReal(run *ev.Run, unit int64, r *rand.Rand, dir string, ws, ls uint64, forked bool) {
	if ws == 0 {
		return // a stored size-0 checkpoint refuses all growth (known finding F2); first use is covered with "nothing stored" below via ws==0 => nothing
	}
	u := gen.NewUniverse(r, gen.Opts{NLogs: 1, MaxSize: 64, Branches: 2})
	l := u.Logs[0]
	l.ReplaceBranch(1, &reftree.Tree{Seed: l.Branches[0].Seed, TagA: 1, TagB: 9, Fork: 0})
	st, err := wit.NewStore(wit.DrawStore(r), dir)
	if err != nil {
		run.Inconclusive(err.Error())
		return
	}
	defer st.Close()
	keys, _ := wit.NewWitKeys(r, []bool{false, true}, true)
	rn, err := wit.NewRunner(u, keys, st, nil)
	if err != nil {
		run.Inconclusive(err.Error())
		return
	}
	nothing := ws == 1 && unit%2 == 0 // use the ws==1 column half the time for "nothing stored"
	if !nothing {
		if _, err := rn.W.Update(context.Background(), l.ID, 0, l.Honest(0, ws), nil); err != nil {
			run.Inconclusive("could not initialise the real witness: " + err.Error())
			return
		}
	}
	before := rn.Snap()
	s := &script{l: l}
	w := &recorder{inner: omniwitness.VerifWitnessAdapter(rn.W), s: s}
	logBranch := 0
	if forked {
		logBranch = 1
	}
	var evs []event
	var mu sync.Mutex
	expectOK := nothing || (!forked && ls >= ws) || (ls == ws && ls == 0)
	if ls == 0 && !nothing {
		expectOK = false // witness ahead of an empty log
	}
	if nothing && ls == 0 {
		return // would plant a size-0 first checkpoint
	}
	timeout := 20 * time.Second
	if !expectOK {
		timeout = 700 * time.Millisecond // the feeder keeps retrying a refused step until its context ends
	}
	ctx, cancel := context.WithTimeout(context.Background(), timeout)
	defer cancel()
	s.cancelled = func() bool { return ctx.Err() != nil }
	o := opts(l, nil, w, logBranch, ls, &evs, &mu)
	// attribute proof fetches to attempts
	inner := o.FetchProof
	o.FetchProof = func(ctx context.Context, from, to log.Checkpoint) ([][]byte, error) {
		p, err := inner(ctx, from, to)
		mu.Lock()
		s.mu.Lock()
		evs[len(evs)-1].Attempt = s.attempt
		s.mu.Unlock()
		mu.Unlock()
		return p, err
	}
	var ret []byte
	var ferr error
	fdone := make(chan struct{})
	go func() { ret, ferr = feeder.FeedOnce(ctx, o); close(fdone) }()
	wd := time.Now().Add(60 * time.Second)
wait:
	for {
		select {
		case <-fdone:
			break wait
		case <-time.After(50 * time.Millisecond):
		}
		if ctx.Err() != nil {
			// attempts begun after the context ended
			s.mu.Lock()
			late := 0
			for _, e := range s.events {
				if e.Kind == "get" && e.AfterCancel {
					late++
				}
			}
			s.mu.Unlock()
			if late >= 2 {
				run.Violate("attempts_after_context_end;real", fmt.Sprintf("real witness, log at %d (forked=%v), witness at %d: %d attempts were started after the cycle's context had ended", ls, forked, ws, late), unit, map[string]any{"events": summarize(s.events, evs)})
				return
			}
		}
		if time.Now().After(wd) {
			run.Inconclusive("watchdog: FeedOnce did not return 60 s after the start of a cycle with a sub-second deadline")
			return
		}
	}
	after := rn.Snap()
	run.Count("evaluations")
	run.Count("real_witness_cycles")
	rel := "grow"
	switch {
	case nothing:
		rel = "first"
	case ws == ls:
		rel = "equal"
	case ws > ls:
		rel = "ahead"
	}
	what := fmt.Sprintf("real/%s/forked=%v", rel, forked)
	run.Distinct("nontrivial", what)
	detail := map[string]any{"witness_size": ws, "nothing_stored": nothing, "log_size": ls, "forked": forked, "err": fmt.Sprint(ferr), "events": summarize(s.events, evs), "store": st.Kind}
	if expectOK {
		if ferr != nil {
			run.Violate("real_cycle_failed;"+rel, fmt.Sprintf("honest log at %d, witness at %d (nothing=%v): FeedOnce returned %v", ls, ws, nothing, ferr), unit, detail)
		} else {
			stored := after.CP[l.ID]
			if !bytes.Equal(stored, ret) {
				run.Violate("result_not_witness_state;"+rel, "FeedOnce's result is not what the witness now holds", unit, detail)
			}
			v := rn.View(l, after)
			if v.Size != ls || !bytes.Equal(v.Root, l.Root(logBranch, ls)) {
				run.Violate("witness_not_at_log_checkpoint;"+rel, fmt.Sprintf("after a successful cycle the witness is at %d, the log at %d", v.Size, ls), unit, detail)
			}
		}
	} else {
		if ferr == nil {
			run.Violate("unjustified_step_succeeded;"+rel, fmt.Sprintf("log at %d (forked=%v), witness at %d: FeedOnce reported success", ls, forked, ws), unit, detail)
		}
		if !after.Equal(before) {
			run.Violate("witness_state_changed_by_unjustified_step;"+rel, "the real witness's state changed", unit, detail)
		}
	}
	judgeAttempts(run, unit, l, s, evs, what, detail)
}

// chainReal: one real witness, one adapter (as omniwitness.Main hands the same adapter to every feeder),
// a growing honest log. Steps alternate between feed cycles and updates by another caller of the same adapter
// (as the bastion handler is). Every feed cycle must succeed and leave the
// witness at the log's size, and what the adapter reports as latest must be what the witness holds.
func chainReal(run *ev.Run, unit int64, r *rand.Rand, dir string) {
	u := gen.NewUniverse(r, gen.Opts{NLogs: 1, MaxSize: 64, Branches: 1})
	l := u.Logs[0]
	st, err := wit.NewStore(wit.DrawStore(r), dir)
	if err != nil {
		run.Inconclusive(err.Error())
		return
	}
	defer st.Close()
	keys, _ := wit.NewWitKeys(r, []bool{false, true}, true)
	var hook *seams.HookStore
	rn, err := wit.NewRunner(u, keys, st, func(p persistence.LogStatePersistence) persistence.LogStatePersistence {
		hook = seams.NewHookStore(p)
		return hook
	})
	if err != nil {
		run.Inconclusive(err.Error())
		return
	}
	adapter := omniwitness.VerifWitnessAdapter(rn.W)
	truth := func() []byte {
		// read below the fault seam, straight from the store the witness writes to
		ro, err := st.P.ReadOps(l.ID)
		if err != nil {
			return nil
		}
		cp, err := ro.GetLatest()
		if err != nil {
			return nil
		}
		return cp
	}
	size := uint64(0)
	var trace []string
	steps := 4 + r.IntN(5)
	for i := 0; i < steps; i++ {
		next := size + uint64(r.IntN(4))
		if size == 0 {
			next = 1 + uint64(r.IntN(4))
		}
		if i > 0 && r.IntN(2) == 0 {
			// another caller moves the witness - through the SAME adapter, as every update of the assembled
			// service does (Main hands one adapter to all feeders and to the bastion handler; its HTTP server
			// only reads). In a third of these the store commits and then reports an error.
			lost := r.IntN(3) == 0
			if lost {
				armed := true
				hook.SetHook(func(gotOp, id string) error {
					if armed && gotOp == seams.OpWSetAfter {
						armed = false
						run.Count("chain_updates_committed_but_reported_failed")
						return errors.New("injected: commit outcome unknown")
					}
					return nil
				})
			}
			_, err := adapter.Update(context.Background(), l.ID, size, l.Honest(0, next), l.Branches[0].Consistency(size, next))
			hook.SetHook(nil)
			if err != nil && !lost {
				run.Inconclusive(fmt.Sprintf("honest update %d->%d through the adapter refused: %v", size, next, err))
				return
			}
			trace = append(trace, fmt.Sprintf("other caller %d->%d (err=%v)", size, next, err))
			if n, perr := refnote.Parse(truth()); perr == nil {
				if cp, perr := refnote.ParseCheckpoint(n.Text); perr == nil {
					size = cp.Size
				}
			}
			continue
		}
		s := &script{l: l}
		if r.IntN(3) == 0 {
			adapter = omniwitness.VerifWitnessAdapter(rn.W)
		}
		w := &recorder{inner: adapter, s: s, truth: truth}
		var evs []event
		var mu sync.Mutex
		if size > 0 && r.IntN(3) == 0 {
			// one transient failure of the store's read path: the attempt must fail or be retried, never be
			// taken for "the witness holds nothing"
			op := []string{seams.OpReadOps, seams.OpRGet}[r.IntN(2)]
			armed := true
			hook.SetHook(func(gotOp, id string) error {
				if armed && gotOp == op {
					armed = false
					run.Count("chain_read_faults")
					return errors.New("injected: database is locked")
				}
				return nil
			})
		}
		ctx, cancel := context.WithTimeout(context.Background(), 3*time.Second)
		o := opts(l, nil, w, 0, next, &evs, &mu)
		inner := o.FetchProof
		o.FetchProof = func(ctx context.Context, from, to log.Checkpoint) ([][]byte, error) {
			p, err := inner(ctx, from, to)
			mu.Lock()
			s.mu.Lock()
			evs[len(evs)-1].Attempt = s.attempt
			s.mu.Unlock()
			mu.Unlock()
			return p, err
		}
		ret, ferr := feeder.FeedOnce(ctx, o)
		cancel()
		hook.SetHook(nil)
		trace = append(trace, fmt.Sprintf("feed %d->%d: err=%v", size, next, ferr))
		run.Count("evaluations")
		run.Count("chain_cycles")
		run.Distinct("nontrivial", fmt.Sprintf("chain/step%d/after_direct=%v", i, i > 0 && strings.HasPrefix(trace[len(trace)-2], "other caller")))
		detail := map[string]any{"trace": trace, "events": summarize(s.events, evs), "store": st.Kind}
		if len(w.stale) > 0 {
			detail["adapter"] = w.stale
			run.Violate("adapter_latest_is_not_witness_latest", "what the witness adapter reports as the latest checkpoint is not what the witness holds: "+w.stale[0], unit, detail)
		}
		if ferr != nil {
			run.Violate("chain_cycle_failed", fmt.Sprintf("honest log at %d, witness at %d, nothing failing: FeedOnce returned %v", next, size, ferr), unit, detail)
			return
		}
		if got := truth(); !bytes.Equal(got, ret) {
			run.Violate("result_not_witness_state;chain", "FeedOnce's result is not what the witness now holds", unit, detail)
		}
		if v := rn.View(l, rn.Snap()); v.Size != next {
			run.Violate("witness_not_at_log_checkpoint;chain", fmt.Sprintf("after a successful cycle the witness is at %d, the log at %d", v.Size, next), unit, detail)
		}
		judgeAttempts(run, unit, l, s, evs, "chain", detail)
		size = next
	}
}

// hugePair: the witness stub holds size ws, the log publishes size ls, both possibly >= 2^63. Roots and
// proofs are synthetic (the stub accepts anything): only the feeder's own decisions are judged - never submit
// while the witness is ahead (one attempt, permanent error), old size = witness size, proof asked from
// exactly the witness's checkpoint to the submitted one.
func hugePair(run *ev.Run, unit int64, r *rand.Rand, ws, ls uint64) {
	l := newLog(r)
	root := func(n uint64) []byte { h := sha256.Sum256([]byte(fmt.Sprint("root", n))); return h[:] }
	cpOf := func(n uint64, witnessed bool) []byte {
		text := refnote.Body(l.Origin, n, root(n))
		lines := []string{l.Key.SigLine(text)}
		if witnessed {
			lines = append(lines, "— witness.example AAAAAAAAAAAAAAAAAAAAAAAAAAAAAAAAAAAAAAAAAAAAAAAAAAAAAAAAAAAAAAAAAAAAAAAAAAAAAAAAAAAAAAAAAAAAAAAA")
		}
		return refnote.Assemble(text, lines...)
	}
	var mu sync.Mutex
	gets, updates, proofs := 0, 0, 0
	var bad []string
	w := &funcWitness{
		get: func() ([]byte, error) { mu.Lock(); gets++; mu.Unlock(); return cpOf(ws, true), nil },
		update: func(old uint64, cp []byte, p [][]byte) ([]byte, error) {
			mu.Lock()
			defer mu.Unlock()
			updates++
			if old != ws {
				bad = append(bad, fmt.Sprintf("Update with old size %d, the witness reported %d", old, ws))
			}
			if ws > ls {
				bad = append(bad, fmt.Sprintf("Update called while the witness (%d) is ahead of the log (%d)", ws, ls))
			}
			return cpOf(ls, true), nil
		},
	}
	v, _ := f_note.NewVerifier(l.Key.Vkey())
	o := feeder.FeedOpts{LogID: l.ID, LogOrigin: l.Origin, LogSigVerifier: v, Witness: w,
		FetchCheckpoint: func(ctx context.Context) ([]byte, error) { return cpOf(ls, false), nil },
		FetchProof: func(ctx context.Context, from, to log.Checkpoint) ([][]byte, error) {
			mu.Lock()
			defer mu.Unlock()
			proofs++
			if from.Size != ws || to.Size != ls {
				bad = append(bad, fmt.Sprintf("proof requested from %d to %d; witness at %d, log at %d", from.Size, to.Size, ws, ls))
			}
			return [][]byte{root(from.Size ^ to.Size)}, nil
		}}
	ctx, cancel := context.WithTimeout(context.Background(), 2*time.Second)
	defer cancel()
	_, err := feeder.FeedOnce(ctx, o)
	run.Count("evaluations")
	run.Count("huge_pairs")
	rel := "grow"
	switch {
	case ws == ls:
		rel = "equal"
	case ws > ls:
		rel = "ahead"
	}
	run.Distinct("nontrivial", fmt.Sprintf("huge/%s/ws_top_bit=%v/ls_top_bit=%v", rel, ws>>63 == 1, ls>>63 == 1))
	detail := map[string]any{"witness_size": ws, "log_size": ls, "err": fmt.Sprint(err), "get_calls": gets, "update_calls": updates, "proof_fetches": proofs, "observations": bad}
	for _, b := range bad {
		run.Violate("huge_sizes;"+rel+";unjustified_call", fmt.Sprintf("witness at %d, log at %d: %s", ws, ls, b), unit, detail)
		break
	}
	switch rel {
	case "ahead":
		if err == nil || gets != 1 || updates != 0 || proofs != 0 {
			run.Violate("huge_sizes;ahead_not_permanent", fmt.Sprintf("witness (%d) ahead of the log (%d): want one attempt, no proof fetch, no Update and an error; got err=%v after %d attempts, %d proof fetches, %d Updates", ws, ls, err, gets, proofs, updates), unit, detail)
		}
	default:
		if err != nil || updates != 1 {
			run.Violate("huge_sizes;justified_step_not_taken;"+rel, fmt.Sprintf("witness at %d, log at %d, nothing failing: FeedOnce returned %v after %d Updates", ws, ls, err, updates), unit, detail)
		}
	}
}

type funcWitness struct {
	get    func() ([]byte, error)
	update func(old uint64, cp []byte, p [][]byte) ([]byte, error)
}

func (f *funcWitness) GetLatestCheckpoint(context.Context, string) ([]byte, error) { return f.get() }
func (f *funcWitness) Update(_ context.Context, _ string, old uint64, cp []byte, p [][]byte) ([]byte, error) {
	return f.update(old, cp, p)
}

func cancelTest(run *ev.Run, unit int64, r *rand.Rand) {
	l := newLog(r)
	point := []string{"get", "proof", "update"}[unit%3]
	s := &script{l: l, witSizes: []int64{4}, persist: point}
	ctx, cancel := context.WithCancel(context.Background())
	defer cancel()
	var cancelled bool
	var cmu sync.Mutex
	s.cancelled = func() bool { cmu.Lock(); defer cmu.Unlock(); return cancelled }
	cancelAfter := 1 + int(unit/3)%3
	s.onAttempt = func(n int) {
		if n == cancelAfter {
			// cancel while this attempt is in flight
			go func() {
				time.Sleep(5 * time.Millisecond)
				cmu.Lock()
				cancelled = true
				cmu.Unlock()
				cancel()
			}()
		}
	}
	var evs []event
	var mu sync.Mutex
	done := make(chan error, 1)
	go func() {
		_, err := feeder.FeedOnce(ctx, opts(l, s, s, 0, 30, &evs, &mu))
		done <- err
	}()
	run.Count("evaluations")
	run.Count("cancel_cycles")
	run.Distinct("nontrivial", fmt.Sprintf("cancel/%s/%d", point, cancelAfter))
	startedAfter := func() int {
		s.mu.Lock()
		defer s.mu.Unlock()
		n := 0
		for _, e := range s.events {
			if e.Kind == "get" && e.AfterCancel {
				n++
			}
		}
		return n
	}
	deadline := time.Now().Add(40 * time.Second)
	for {
		select {
		case err := <-done:
			s.mu.Lock()
			detail := map[string]any{"fail_point": point, "cancel_in_attempt": cancelAfter, "err": fmt.Sprint(err), "events": summarize(s.events, evs)}
			s.mu.Unlock()
			if n := startedAfter(); n >= 2 {
				run.Violate("attempts_after_context_end", fmt.Sprintf("%d attempts were started after the context had ended", n), unit, detail)
			}
			if err == nil {
				run.Violate("success_despite_persistent_failure", "FeedOnce reported success while the stub failed persistently", unit, detail)
			}
			if unit < 2 {
				run.Sample(detail)
			}
			return
		case <-time.After(50 * time.Millisecond):
		}
		// judged on logical steps: two attempts begun after the context ended is a violation, whether or not FeedOnce ever returns
		if n := startedAfter(); n >= 2 {
			s.mu.Lock()
			detail := map[string]any{"fail_point": point, "cancel_in_attempt": cancelAfter, "events": summarize(s.events, evs)}
			s.mu.Unlock()
			run.Violate("attempts_after_context_end", fmt.Sprintf("%d attempts were started after the context had ended (FeedOnce still running)", n), unit, detail)
			return
		}
		if time.Now().After(deadline) {
			run.Inconclusive("watchdog: FeedOnce neither returned nor started further attempts within 40 s of its context ending")
			return
		}
	}
}
