package main

import (
	"bytes"
	"fmt"
	"math/rand/v2"
	"net"
	"net/http"
	"os"
	"os/exec"
	"path/filepath"
	"strings"
	"sync"
	"sync/atomic"
	"syscall"
	"time"

	"github.com/transparency-dev/witness/internal/verif/kit/ev"
	"github.com/transparency-dev/witness/internal/verif/kit/refnote"
	"github.com/transparency-dev/witness/internal/verif/kit/wit"
)

var binaryStallModes = []string{"sumdb/announced_body_stalls", "tiles/announced_body_stalls", "sumdb/body_trickles_forever", "tiles/body_trickles_forever"}

// binaryStall runs the real cmd/omniwitness binary - the only place where the outbound HTTP client and its
// --http_timeout are built - against a log that answers every checkpoint request with a prompt status line
// and headers and then never finishes the body. With --http_timeout 500ms and --poll_interval 1s the log
// must keep being polled: three polls are demanded within a 25 s watchdog (an unchanged binary makes about
// one per second).
func binaryStall(run *ev.Run, unit int64, r *rand.Rand, dir string) {
	bin := os.Getenv("VERIF_BIN_OMNIWITNESS")
	if bin == "" {
		run.Inconclusive("omniwitness binary not provided")
		return
	}
	mode := binaryStallModes[int(unit)%len(binaryStallModes)]
	sumdb := mode[:5] == "sumdb"
	trickle := mode[len(mode)-7:] == "forever"
	var polls atomic.Int64
	stop := make(chan struct{})
	ln, err := net.Listen("tcp", "127.0.0.1:0")
	if err != nil {
		run.Inconclusive(err.Error())
		return
	}
	srv := &http.Server{Handler: http.HandlerFunc(func(w http.ResponseWriter, q *http.Request) {
		if p := strings.TrimLeft(q.URL.Path, "/"); p != "latest" && p != "checkpoint" {
			http.NotFound(w, q)
			return
		}
		polls.Add(1)
		w.Header().Set("Content-Length", "300")
		w.WriteHeader(200)
		_, _ = w.Write([]byte("go.sum database tree\n"))
		if f, ok := w.(http.Flusher); ok {
			f.Flush()
		}
		for i := 0; i < 250; i++ {
			select {
			case <-q.Context().Done():
				return
			case <-stop:
				return
			case <-time.After(200 * time.Millisecond):
			}
			if trickle {
				_, _ = w.Write([]byte("x"))
				if f, ok := w.(http.Flusher); ok {
					f.Flush()
				}
			}
		}
	})}
	go func() { _ = srv.Serve(ln) }()
	defer func() { close(stop); srv.Close() }()
	var seed [32]byte
	for i := range seed {
		seed[i] = byte(r.Uint32())
	}
	lk := refnote.NewSignKey("stalling.example", seed)
	feeder, origin := "tiles", "stalling.example/log"
	if sumdb {
		feeder, origin = "sumdb", "go.sum database tree"
	}
	yaml := fmt.Sprintf("Logs:\n  - Origin: %q\n    URL: http://%s/\n    PublicKey: %s\n    Feeder: %s\n", origin, ln.Addr().String(), lk.Vkey(), feeder)
	yp := filepath.Join(dir, fmt.Sprintf("stall-%d-%d.yaml", os.Getpid(), unit))
	if err := os.WriteFile(yp, []byte(yaml), 0o644); err != nil {
		run.Inconclusive(err.Error())
		return
	}
	keys, _ := wit.NewWitKeys(r, []bool{false}, false)
	cmd := exec.Command(bin, "--listen", "127.0.0.1:0", "--metrics_listen", "127.0.0.1:0", "--private_key", keys.Sign[0].Skey(), "--poll_interval", "1s", "--http_timeout", "500ms")
	cmd.SysProcAttr = &syscall.SysProcAttr{Setpgid: true}
	cmd.Env = append(os.Environ(), "VERIF_LOGS_YAML="+yp)
	var out bytes.Buffer
	var omu sync.Mutex
	cmd.Stdout, cmd.Stderr = &lockedWriter{&omu, &out}, &lockedWriter{&omu, &out}
	if err := cmd.Start(); err != nil {
		run.Inconclusive("binary: " + err.Error())
		return
	}
	exited := make(chan struct{})
	go func() { _ = cmd.Wait(); close(exited) }()
	defer func() {
		_ = syscall.Kill(-cmd.Process.Pid, syscall.SIGKILL)
		select {
		case <-exited:
		case <-time.After(10 * time.Second):
		}
	}()
	run.Count("evaluations")
	run.Count("binary_stalled_body_sessions")
	run.Distinct("nontrivial", "binary_stall/"+mode)
	end := time.Now().Add(25 * time.Second)
	for polls.Load() < 3 && time.Now().Before(end) {
		select {
		case <-exited:
			omu.Lock()
			o := out.String()
			omu.Unlock()
			run.Violate("binary_exited_on_stalled_body;"+mode, "cmd/omniwitness exited while its log stalled a response body: "+o[max(0, len(o)-600):], unit, nil)
			return
		case <-time.After(50 * time.Millisecond):
		}
	}
	if n := polls.Load(); n < 3 {
		run.Violate("binary_feeder_hangs_on_stalled_body;"+mode, fmt.Sprintf("cmd/omniwitness --http_timeout 500ms --poll_interval 1s: the log answered each checkpoint request with a prompt status and headers and never finished the body (%s); in 25 s the log was polled %d time(s): the feed cycle hangs beyond its timeouts", mode, n), unit, map[string]any{"yaml": yaml})
	}
}

type lockedWriter struct {
	mu *sync.Mutex
	b  *bytes.Buffer
}

func (l *lockedWriter) Write(p []byte) (int, error) {
	l.mu.Lock()
	defer l.mu.Unlock()
	if l.b.Len() < 1<<16 {
		l.b.Write(p)
	}
	return len(p), nil
}
