// C19: no network input can crash the witness or leave a request unanswered.
package main

import (
	"bufio"
	"bytes"
	"context"
	"encoding/base64"
	"encoding/json"
	"fmt"
	"io"
	"math/rand/v2"
	"net/http"
	"net/http/httptest"
	"os"
	"os/exec"
	"path/filepath"
	"strconv"
	"strings"
	"sync"
	"time"

	"github.com/transparency-dev/witness/internal/config"
	"github.com/transparency-dev/witness/internal/feeder/bastion"
	"github.com/transparency-dev/witness/internal/verif/kit/ev"
	"github.com/transparency-dev/witness/internal/verif/kit/gen"
	"github.com/transparency-dev/witness/internal/verif/kit/refnote"
	"github.com/transparency-dev/witness/internal/verif/kit/wit"
	"github.com/transparency-dev/witness/internal/witness"
	"github.com/transparency-dev/witness/omniwitness"
	"golang.org/x/mod/sumdb/note"
)

type resp struct {
	Status        int
	Body          []byte
	StallMS       int
	Err           bool
	Repeat        int
	Loc           string
	PartialStatus int
	ContentLength int64
}

type kase struct {
	ID         int
	Kind       string
	Origin     string
	Vkey       string
	URL        string
	Holds      []byte
	First      resp
	Other      resp
	Skey       string
	Desc       string
	DeadlineMS int
	PollMS     int
	LongPoll   int
	Seed       uint64
}

var (
	slowMu               sync.Mutex
	slowestMS, slowestID int
)

const deadlineMS = 700

// hangMargin: how long after its context deadline a cycle may still be running before it is called a hang.
var hangMargin = func() time.Duration {
	if v, err := strconv.Atoi(os.Getenv("VERIF_C19_HANG_MARGIN_S")); err == nil && v > 0 {
		return time.Duration(v) * time.Second // (diagnosis only)
	}
	return 10 * time.Second
}()

func main() {
	wit.Quiet()
	wit.ProdMetrics() // as the shipped binary runs by default
	run := ev.Start("C19", "exploration")
	defer run.Finish()
	run.Rule("(i) deterministic mutational sweep of add-checkpoint bodies (seeds: valid requests of every verdict class) through the real handler and real witness: no panic, status in {200,400,403,404,409,422,429,500}; (i') eight goroutines send state-independent bodies (malformed, unknown origin, bad signature) in fragments to ONE handler at the same time: no panic, each gets its own status; (ii) Proof.Unmarshal and the body parser on arbitrary and mutated bytes: no panic; (iii) hostile responses for all five feeders and the distributor, executed in child processes that log each case before running it: first answer in {valid, log-signed checkpoints with sizes {0,1,2^62-1,2^62,2^62+1,2^63-1,2^63,2^64-1} x root lengths {0,5,32,33}, truncated, random, empty, 5 MiB, 404, 500, redirect loop, stall, transport error} x other answers {404, random, empty, zero tile, 5 MiB, 500, stall} x witness {holds nothing, holds a small honest checkpoint}; each cycle has a context deadline D and must end with a result or an error by D+10 s, else the parent kills the child and attributes the hang to the logged case. evaluations = inputs executed; nontrivial = distinct (part, feeder, first-answer class, other-answer class, witness state, outcome class)")
	run.Assume("process liveness and bounded return are judged per case; a case still running D+10 s after it was logged is a hang", "coverage-guided fuzzing is not part of the quick tier")
	run.Floor("handler_inputs", 100000)
	run.Floor("hostile_polling_loops", 100)
	run.Floor("hung_request_polling_cases", 4)
	run.Floor("long_poll_growth_steps_followed", 150)
	run.Floor("parser_inputs", 50000)
	run.Floor("hostile_cases", 600)
	for _, f := range []string{"serverless", "sumdb", "pixel", "rekor", "tiles", "distributor"} {
		run.Floor("hostile:"+f, 50)
	}
	dir := run.Scratch()
	handlerSweep(run, dir)
	handlerConcurrent(run, dir)
	parserSweep(run)
	hostile(run, dir)
	if run.Thorough() {
		run.Fuzz("FuzzHandler", 1000000, 40*time.Minute)
		run.Fuzz("FuzzRekorJSON", 100000, 40*time.Minute)
		run.Fuzz("FuzzProofUnmarshal", 300000, 15*time.Minute)
	}
}

// ---------- (i) handler sweep ----------

func handlerSweep(run *ev.Run, dir string) {
	// the real binary (where the outbound client and --http_timeout are built) against stalled response bodies
	run.Floor("binary_stalled_body_sessions", 4)
	run.Units("binary_stall", run.Pick(4, 16), 4, func(unit int64, r *rand.Rand) { binaryStall(run, unit, r, dir) })
	run.Units("handler", run.Pick(64, 640), 0, func(unit int64, r *rand.Rand) {
		u := gen.NewUniverse(r, gen.Opts{NLogs: 2, MaxSize: 30, Branches: 2, ShareKeys: true})
		st, _ := wit.NewStore(wit.DrawStore(r), dir)
		defer st.Close()
		keys, _ := wit.NewWitKeys(r, []bool{false, true}, true)
		rn, err := wit.NewRunner(u, keys, st, nil)
		if err != nil {
			run.Inconclusive(err.Error())
			return
		}
		var logs []config.Log
		for _, l := range u.Logs {
			cl, _ := config.NewLog(l.Origin, l.Key.Vkey(), "http://x.invalid/")
			logs = append(logs, cl)
		}
		h := http.MaxBytesHandler(bastion.VerifNewHandler(omniwitness.VerifWitnessAdapter(rn.W), logs, keys.Signers[1].(interface{ Verifier() note.Verifier }).Verifier(), 1e12), 16*1024)
		snap := rn.Snap()
		for i := 0; i < 1700; i++ {
			l := u.Logs[r.IntN(len(u.Logs))]
			q := u.Next(r, l, rn.View(l, snap), rn.Sess[l.Idx])
			var b bytes.Buffer
			b.WriteString("old " + strconv.FormatUint(q.OldSize, 10) + "\n")
			for _, p := range q.Proof {
				b.WriteString(base64.StdEncoding.EncodeToString(p) + "\n")
			}
			b.WriteString("\n")
			b.Write(q.CP)
			body := b.Bytes()
			for k := r.IntN(4); k > 0; k-- {
				body = mutateBody(r, body)
			}
			if i%97 == 0 {
				body = bytes.Repeat([]byte("A"), 17*1024) // over the 16 KiB cap
			}
			rec := httptest.NewRecorder()
			h.ServeHTTP(rec, httptest.NewRequest(http.MethodPost, "/", bytes.NewReader(body)))
			run.Count("evaluations")
			run.Count("handler_inputs")
			run.Distinct("nontrivial", fmt.Sprintf("handler/%d/%s", rec.Code, q.CPKind))
			switch rec.Code {
			case 200, 400, 403, 404, 409, 422, 429, 500:
			default:
				run.Violate(fmt.Sprintf("undocumented_status;%d", rec.Code), fmt.Sprintf("the endpoint answered %d", rec.Code), unit, map[string]any{"body_b64": base64.StdEncoding.EncodeToString(body)})
			}
			if rec.Code == 200 {
				snap = rn.Snap()
			}
			if unit == 0 && i == 5 {
				run.Sample(map[string]any{"part": "handler", "body": string(body[:min(len(body), 160)]), "status": rec.Code})
			}
		}
	})
}

func mutateBody(r *rand.Rand, b []byte) []byte {
	b = append([]byte{}, b...)
	if len(b) == 0 {
		return []byte{byte(r.Uint32())}
	}
	switch r.IntN(10) {
	case 0:
		b[r.IntN(len(b))] ^= 1 << r.UintN(8)
	case 1:
		b = b[:r.IntN(len(b))]
	case 2:
		i := r.IntN(len(b))
		b = append(b[:i], b[i+1:]...)
	case 3:
		i := r.IntN(len(b))
		b = append(b[:i], append([]byte{byte(r.Uint32())}, b[i:]...)...)
	case 4:
		i, j := r.IntN(len(b)), r.IntN(len(b))
		if i > j {
			i, j = j, i
		}
		b = append(b[:i], b[j:]...)
	case 5:
		i := r.IntN(len(b))
		b = append(append(append([]byte{}, b[:i]...), b[i:min(len(b), i+40)]...), b[i:]...)
	case 6:
		b = bytes.Replace(b, []byte("\n"), []byte("\n\n"), 1)
	case 7:
		b = bytes.Replace(b, []byte("old "), []byte("old 184467440737095516150"), 1)
	case 8:
		i := r.IntN(len(b))
		b[i] = "\n\x00\xff— =+/"[r.IntN(8)]
	case 9:
		lines := bytes.Split(b, []byte("\n"))
		r.Shuffle(len(lines), func(i, j int) { lines[i], lines[j] = lines[j], lines[i] })
		b = bytes.Join(lines, []byte("\n"))
	}
	return b
}

// handlerConcurrent: the endpoint sits behind an HTTP/2 server that runs one goroutine per stream, so
// requests overlap and their bodies arrive in pieces. Bodies whose verdict does not depend on the witness
// state (malformed -> 400, unknown origin -> 404, bad signature -> 403) must get exactly that status also
// when many of them are in flight on the same handler; nothing may panic.
func handlerConcurrent(run *ev.Run, dir string) {
	run.Floor("concurrent_handler_requests", 2000)
	run.Units("handler_concurrent", run.Pick(24, 240), 0, func(unit int64, r *rand.Rand) {
		u := gen.NewUniverse(r, gen.Opts{NLogs: 2, MaxSize: 30, Branches: 2})
		st, _ := wit.NewStore("mem", dir)
		defer st.Close()
		keys, _ := wit.NewWitKeys(r, []bool{false, true}, true)
		rn, err := wit.NewRunner(u, keys, st, nil)
		if err != nil {
			run.Inconclusive(err.Error())
			return
		}
		var logs []config.Log
		for _, l := range u.Logs {
			cl, _ := config.NewLog(l.Origin, l.Key.Vkey(), "http://x.invalid/")
			logs = append(logs, cl)
		}
		h := http.MaxBytesHandler(bastion.VerifNewHandler(omniwitness.VerifWitnessAdapter(rn.W), logs, keys.Signers[1].(interface{ Verifier() note.Verifier }).Verifier(), 1e12), 16*1024)
		l := u.Logs[0]
		type req struct {
			body []byte
			want int
			kind string
		}
		mk := func(rr *rand.Rand) req {
			pad := func(n int) [][]byte {
				var p [][]byte
				for i := 0; i < n; i++ {
					p = append(p, randBytes(rr, 32))
				}
				return p
			}
			enc := func(old string, proof [][]byte, cp []byte) []byte {
				var b bytes.Buffer
				b.WriteString("old " + old + "\n")
				for _, p := range proof {
					b.WriteString(base64.StdEncoding.EncodeToString(p) + "\n")
				}
				b.WriteString("\n")
				b.Write(cp)
				return b.Bytes()
			}
			switch rr.IntN(4) {
			case 0: // malformed: long run without a newline after a valid first line
				return req{append([]byte("old 0\n"), bytes.Repeat([]byte("A"), 1000+rr.IntN(3000))...), 400, "malformed_long_line"}
			case 1: // unknown origin, with a long proof
				t := refnote.Body("nobody.example/unknown", 5, randBytes(rr, 32))
				return req{enc("0", pad(rr.IntN(60)), refnote.Assemble(t, l.Key.SigLine(t))), 404, "unknown_origin"}
			case 2: // known origin, signature by a foreign key
				t := refnote.Body(l.Origin, 9, randBytes(rr, 32))
				return req{enc("0", pad(rr.IntN(60)), refnote.Assemble(t, u.Foreign[0].SigLine(t))), 403, "bad_signature"}
			}
			return req{[]byte("old x\n\n"), 400, "malformed_old_line"}
		}
		var wg sync.WaitGroup
		for g := 0; g < 8; g++ {
			gr := rand.New(rand.NewPCG(r.Uint64(), uint64(g)))
			wg.Add(1)
			go func() {
				defer wg.Done()
				for k := 0; k < 12; k++ {
					q := mk(gr)
					pr, pw := io.Pipe()
					go func() { // the body arrives in pieces, other requests run in between
						b := q.body
						for len(b) > 0 {
							n := 1 + gr.IntN(700)
							if n > len(b) {
								n = len(b)
							}
							pw.Write(b[:n])
							b = b[n:]
							if gr.IntN(3) == 0 {
								time.Sleep(time.Duration(gr.IntN(200)) * time.Microsecond)
							}
						}
						pw.Close()
					}()
					code := -1
					func() {
						defer func() {
							if p := recover(); p != nil {
								run.Violate("handler_panics_under_overlapping_requests", fmt.Sprintf("the add-checkpoint handler panicked while requests overlapped: %v", p), unit, map[string]any{"kind": q.kind})
							}
						}()
						rec := httptest.NewRecorder()
						h.ServeHTTP(rec, httptest.NewRequest(http.MethodPost, "/", pr))
						code = rec.Code
					}()
					io.Copy(io.Discard, pr)
					run.Count("evaluations")
					run.Count("concurrent_handler_requests")
					run.Distinct("nontrivial", fmt.Sprintf("concurrent/%s/%d", q.kind, code))
					if code != -1 && code != q.want {
						run.Violate(fmt.Sprintf("overlapping_requests_wrong_status;%s;got=%d", q.kind, code), fmt.Sprintf("a %s body got %d instead of %d while other requests were in flight on the same handler", q.kind, code, q.want), unit, map[string]any{"kind": q.kind, "body_len": len(q.body)})
					}
				}
			}()
		}
		wg.Wait()
	})
}

// ---------- (ii) parsers ----------

func parserSweep(run *ev.Run) {
	run.Units("parsers", run.Pick(32, 320), 0, func(unit int64, r *rand.Rand) {
		for i := 0; i < 2000; i++ {
			var b []byte
			switch r.IntN(3) {
			case 0:
				b = make([]byte, r.IntN(300))
				for j := range b {
					b[j] = byte(r.Uint32())
				}
			case 1:
				p := witness.Proof{}
				for j := r.IntN(6); j > 0; j-- {
					hsh := make([]byte, 1+r.IntN(40))
					p = append(p, hsh)
				}
				b = []byte(p.Marshal())
				for k := r.IntN(3); k > 0; k-- {
					b = mutateBody(r, b)
				}
			case 2:
				b = []byte("old 5\nAAAA\n\nx\n")
				for k := 1 + r.IntN(3); k > 0; k-- {
					b = mutateBody(r, b)
				}
			}
			var p witness.Proof
			_ = p.Unmarshal(b)
			_, _, _, _ = bastion.VerifParseBody(bytes.NewReader(b))
			run.Count("evaluations")
			run.Count("parser_inputs")
		}
		run.Distinct("nontrivial", fmt.Sprintf("parsers/%d", unit%4))
	})
}

// ---------- (iii) hostile servers ----------

var hostileSizes = []uint64{0, 1, 1<<62 - 1, 1 << 62, 1<<62 + 1, 1<<63 - 1, 1 << 63, ^uint64(0)}
var rootLens = []int{0, 5, 32, 33}

func hostile(run *ev.Run, dir string) {
	r := run.Rand("hostile", 0)
	var seed [32]byte
	for i := range seed {
		seed[i] = byte(r.Uint32())
	}
	wkey := refnote.NewSignKey("witness.example", seed)
	var cases []kase
	others := map[string]resp{
		"404":      {Status: 404},
		"random":   {Status: 200, Body: randBytes(r, 64)},
		"empty":    {Status: 200},
		"zerotile": {Status: 200, Body: make([]byte, 32*256)},
		"5MiB":     {Status: 200, Body: bytes.Repeat([]byte("A"), 1<<16), Repeat: 80},
		"500":      {Status: 500, Body: []byte("boom")},
		"stall":    {Status: 200, StallMS: 300, Body: randBytes(r, 32)},
	}
	others["partial404_fullshort"] = resp{Status: 200, Body: randBytes(r, 64), PartialStatus: 404}
	others["partial404_fullempty"] = resp{Status: 200, PartialStatus: 404}
	others["partial500_fullhtml"] = resp{Status: 200, Body: []byte("<html><body>Service Temporarily Unavailable</body></html>"), PartialStatus: 500}
	// what a response declares need not be what it carries
	others["declares_2^62_bytes"] = resp{Status: 200, Body: randBytes(r, 64), ContentLength: 1 << 62}
	others["declares_unknown_length"] = resp{Status: 200, Body: make([]byte, 32*256), ContentLength: -1}
	otherNames := []string{"404", "random", "zerotile", "empty", "5MiB", "500", "stall"}
	// well-formed proof JSON for the Rekor feeder (its other requests are proof requests)
	hx := func(n int) string { return fmt.Sprintf("%x", randBytes(r, n)) }
	others["json_proof"] = resp{Status: 200, Body: []byte(`{"hashes":["` + hx(32) + `","` + hx(32) + `","` + hx(32) + `"]}`)}
	others["json_empty_proof"] = resp{Status: 200, Body: []byte(`{"hashes":[]}`)}
	others["json_odd_proof"] = resp{Status: 200, Body: []byte(`{"hashes":["` + hx(5) + `","zz",""]}`)}
	for fi, feeder := range []string{"serverless", "sumdb", "pixel", "rekor", "tiles"} {
		u := gen.NewUniverse(r, gen.Opts{NLogs: 1, MaxSize: 20, Branches: 1})
		l := u.Logs[0]
		if feeder == "sumdb" {
			l.Origin = "go.sum database tree"
		}
		url := fmt.Sprintf("http://%s.stub/", feeder)
		if feeder == "rekor" {
			url = "http://rekor.stub/?treeID=777"
		}
		sign := func(size uint64, root []byte) []byte {
			text := refnote.Body(l.Origin, size, root)
			return refnote.Assemble(text, l.Key.SigLine(text))
		}
		wrap := func(cp []byte) []byte {
			if feeder != "rekor" {
				return cp
			}
			j, _ := json.Marshal(map[string]any{"signedTreeHead": string(cp), "treeID": "777", "treeSize": 1, "rootHash": "00"})
			return j
		}
		honest5 := sign(5, l.Root(0, 5))
		type first struct {
			name string
			r    resp
			slow bool // the checkpoint parses, so the cycle goes on to fetch a proof
		}
		var firsts []first
		firsts = append(firsts, first{"valid", resp{Status: 200, Body: wrap(sign(9, l.Root(0, 9)))}, true})
		// a larger honest checkpoint: the growth from 5 needs a partial tile wider than a few hashes
		firsts = append(firsts, first{"valid_size_300", resp{Status: 200, Body: wrap(sign(300, l.Root(0, 300)))}, true})
		for _, sz := range hostileSizes {
			for _, rl := range rootLens {
				firsts = append(firsts, first{fmt.Sprintf("signed_size=%d_rootlen=%d", sz, rl), resp{Status: 200, Body: wrap(sign(sz, randBytes(r, rl)))}, true})
			}
		}
		v := wrap(sign(9, l.Root(0, 9)))
		firsts = append(firsts,
			first{"truncated", resp{Status: 200, Body: v[:len(v)/2]}, false},
			first{"random", resp{Status: 200, Body: randBytes(r, 200)}, false},
			first{"empty", resp{Status: 200}, false},
			first{"5MiB", resp{Status: 200, Body: bytes.Repeat([]byte("A"), 1<<16), Repeat: 80}, false},
			first{"404", resp{Status: 404}, false},
			first{"500", resp{Status: 500}, false},
			first{"redirect_loop", resp{Status: 302, Loc: url + "checkpoint"}, false},
			first{"stall_then_valid", resp{Status: 200, StallMS: 300, Body: v}, true},
			first{"transport_error", resp{Err: true}, false},
			first{"json_garbage", resp{Status: 200, Body: []byte(`{"signedTreeHead": 5, "inactiveShards": [{"treeID": 777}]}`)}, false},
			first{"json_deep", resp{Status: 200, Body: []byte(strings.Repeat("[", 100000))}, false},
		)
		firsts = append(firsts,
			first{"declares_2^62_bytes", resp{Status: 200, Body: randBytes(r, 100), ContentLength: 1 << 62}, false},
			first{"declares_2^63-1_bytes", resp{Status: 200, Body: nil, ContentLength: 1<<63 - 1}, false},
			first{"valid_declares_unknown_length", resp{Status: 200, Body: wrap(sign(9, l.Root(0, 9))), ContentLength: -1}, true})
		for _, holds := range [][]byte{nil, honest5} {
			for _, f := range firsts {
				ons := otherNames
				if !f.slow || holds == nil {
					ons = []string{otherNames[(len(cases)+fi)%len(otherNames)]}
				} else if !run.Thorough() {
					ons = []string{"404", "random", "zerotile"}
				}
				if f.name == "valid_declares_unknown_length" {
					ons = []string{"declares_2^62_bytes", "declares_unknown_length", "zerotile"}
				}
				if f.name == "valid_size_300" {
					if holds == nil {
						continue
					}
					ons = []string{"partial404_fullshort", "partial404_fullempty", "partial500_fullhtml", "404"}
				}
				if feeder == "rekor" && f.slow && holds != nil {
					ons = append(append([]string{}, ons...), "json_proof", "json_empty_proof", "json_odd_proof")
				}
				for _, on := range ons {
					h := "nothing"
					if holds != nil {
						h = "holds5"
					}
					cases = append(cases, kase{ID: len(cases), Kind: feeder, Origin: l.Origin, Vkey: l.Key.Vkey(), URL: url, Holds: holds, First: f.r, Other: others[on], Skey: wkey.Skey(), DeadlineMS: deadlineMS,
						Desc: fmt.Sprintf("%s/first=%s/other=%s/%s", feeder, f.name, on, h)})
				}
			}
		}
	}
	// distributor
	{
		u := gen.NewUniverse(r, gen.Opts{NLogs: 1, MaxSize: 20, Branches: 1})
		l := u.Logs[0]
		held := l.Honest(0, 5)
		for _, d := range []struct {
			name string
			r    resp
		}{
			{"200", resp{Status: 200}}, {"200_5MiB", resp{Status: 200, Body: bytes.Repeat([]byte("A"), 1<<16), Repeat: 80}}, {"400", resp{Status: 400, Body: randBytes(r, 100)}},
			{"404", resp{Status: 404}}, {"500", resp{Status: 500}}, {"reset", resp{Err: true}}, {"stall", resp{Status: 200, StallMS: 400}},
			{"redirect_loop", resp{Status: 307, Loc: "http://dist.stub/again"}}, {"redirect_302", resp{Status: 302, Loc: "http://dist.stub/again"}},
			{"weird_status_0", resp{Status: 999}}, {"204", resp{Status: 204}},
		} {
			for k := 0; k < 6; k++ {
				o := others[otherNames[k%len(otherNames)]]
				if strings.HasPrefix(d.name, "redirect") && k%2 == 0 {
					o = resp{Status: 307, Loc: "http://dist.stub/again"}
				}
				cases = append(cases, kase{ID: len(cases), Kind: "distributor", Origin: l.Origin, Vkey: l.Key.Vkey(), URL: "http://dist.stub", Holds: held, First: d.r, Other: o, Skey: wkey.Skey(), DeadlineMS: deadlineMS, Desc: "distributor/" + d.name + "/" + strconv.Itoa(k)})
			}
		}
	}
	// a share of the feeder cases runs as the polling loop the service uses (3-4 cycles within the deadline)
	for i := range cases {
		if cases[i].Kind != "distributor" && i%6 == 3 {
			cases[i].PollMS = 180
			cases[i].Desc += "/polling"
		}
	}
	// a log that accepts a proof/tile request and never answers: the cycle's own deadline must end the request,
	// so that the polling loop goes on to its next cycles (counted as checkpoint fetches)
	seenKind := map[string]bool{}
	for _, c0 := range append([]kase{}, cases...) {
		// one per feeder kind: any case whose first answer is the valid larger checkpoint and whose witness holds size 5
		if c0.Kind != "distributor" && !seenKind[c0.Kind] && c0.PollMS == 0 && c0.Holds != nil && strings.Contains(c0.Desc, "/first=valid/") {
			seenKind[c0.Kind] = true
			c := c0
			c.ID = len(cases)
			c.Other = resp{Status: 200, StallMS: 3600000}
			c.PollMS, c.DeadlineMS = 180, 1500
			parts := strings.Split(c.Desc, "/")
			c.Desc = parts[0] + "/first=valid/other=hang/holds5/polling"
			cases = append(cases, c)
		}
	}
	// long process lifetimes made of VALID responses only: an honest, growing log followed for 90-150 growth steps
	for _, kind := range []string{"sumdb", "tiles"} {
		for k := 0; k < run.Pick(1, 4); k++ {
			cases = append(cases, kase{ID: len(cases), Kind: kind, Skey: wkey.Skey(), DeadlineMS: 60000, LongPoll: 90 + 20*k, Seed: uint64(run.Seed)*100 + uint64(k), Desc: fmt.Sprintf("%s/longpoll/honest_growing_log/%d", kind, k)})
		}
	}
	run.Extra("hostile_case_count", len(cases))
	// run in child processes, batches interleaved over workers
	workers := 16
	var wg sync.WaitGroup
	for w := 0; w < workers; w++ {
		var mine []kase
		for i := w; i < len(cases); i += workers {
			mine = append(mine, cases[i])
		}
		wg.Add(1)
		go func(w int, mine []kase) {
			defer wg.Done()
			runBatch(run, dir, w, mine)
		}(w, mine)
	}
	wg.Wait()
	slowMu.Lock()
	if slowestID >= 0 && slowestID < len(cases) {
		run.Extra("slowest_hostile_case", fmt.Sprintf("%d ms: %s (deadline %d ms)", slowestMS, cases[slowestID].Desc, cases[slowestID].DeadlineMS))
	}
	slowMu.Unlock()
}

func randBytes(r *rand.Rand, n int) []byte {
	b := make([]byte, n)
	for i := range b {
		b[i] = byte(r.Uint32())
	}
	return b
}

// runBatch feeds cases to a child; a crash or hang is attributed to the last START without END.
func runBatch(run *ev.Run, dir string, w int, cases []kase) {
	byID := map[int]kase{}
	for _, c := range cases {
		byID[c.ID] = c
	}
	round := 0
	for len(cases) > 0 {
		round++
		in := filepath.Join(dir, fmt.Sprintf("hostile-%d-%d.json", w, round))
		prog := filepath.Join(dir, fmt.Sprintf("hostile-%d-%d.progress", w, round))
		b, _ := json.Marshal(cases)
		_ = os.WriteFile(in, b, 0o644)
		ctx, cancel := context.WithCancel(context.Background())
		cmd := exec.CommandContext(ctx, os.Getenv("VERIF_BIN_C19CHILD"), in, prog)
		var out bytes.Buffer
		cmd.Stdout, cmd.Stderr = &out, &out
		if err := cmd.Start(); err != nil {
			run.Inconclusive(err.Error())
			cancel()
			return
		}
		done := make(chan error, 1)
		go func() { done <- cmd.Wait() }()
		var exitErr error
		hung := -1
		lastStart, lastChange := -1, time.Now()
	wait:
		for {
			select {
			case exitErr = <-done:
				break wait
			case <-time.After(200 * time.Millisecond):
				st, en, _ := progress(prog)
				cur := -1
				if st != en {
					cur = st
				}
				if cur != lastStart {
					lastStart, lastChange = cur, time.Now()
				}
				if cur >= 0 && time.Since(lastChange) > time.Duration(byID[cur].DeadlineMS)*time.Millisecond+hangMargin {
					hung = cur
					cancel() // kills the child
					<-done
					break wait
				}
			}
		}
		cancel()
		st, _, results := progress(prog)
		finished := map[int]bool{}
		for id, res := range results {
			finished[id] = true
			c := byID[id]
			run.Count("evaluations")
			run.Count("hostile_cases")
			run.Count("hostile:" + c.Kind)
			oc := "error"
			if strings.Contains(res, "err=<nil>") {
				oc = "ok"
			}
			parts := strings.SplitN(c.Desc, "/", 4)
			fc := parts[1]
			if i := strings.Index(fc, "_rootlen"); i > 0 && strings.HasPrefix(fc, "first=signed") {
				fc = "first=signed_hostile_size"
			}
			run.Distinct("nontrivial", fmt.Sprintf("hostile/%s/%s/%s/%s", c.Kind, fc, parts[len(parts)-1], oc))
			if strings.HasPrefix(res, "harness:") {
				run.Inconclusive("hostile case could not be set up: " + res)
			}
			if c.LongPoll > 0 {
				var steps int
				var ws, ls uint64
				fmt.Sscanf(res, "returned longpoll steps=%d witness_size=%d log_size=%d", &steps, &ws, &ls)
				run.Add("long_poll_growth_steps_followed", int64(steps))
				if steps <= c.LongPoll || ws != ls {
					run.Violate("long_polling_feeder_fell_behind;"+c.Kind, fmt.Sprintf("case %q: an honest log grew in %d steps to size %d; the polling feeder left the witness at size %d (%s)", c.Desc, steps, ls, ws, res[:min(len(res), 200)]), int64(c.ID), map[string]any{"result": res})
				}
			}
			if c.PollMS > 0 && strings.Contains(c.Desc, "/other=hang/") {
				cycles := -1
				if i := strings.Index(res, "cycles="); i >= 0 {
					fmt.Sscanf(res[i:], "cycles=%d", &cycles)
				}
				run.Count("hung_request_polling_cases")
				run.Extra("cycles_with_hung_requests:"+c.Kind, cycles)
				// 1500 ms at a 180 ms interval is 8 ticks (7-9 cycles observed on the pinned tree for every feeder);
				// a loop whose first cycle never ends shows exactly one
				// (not judged for sumdb: its client takes no context at all, so a hung SumDB request is bounded by the
				// operator's http.Client timeout only - observation O3 in DESIGN.md; the count is still recorded)
				if cycles >= 0 && cycles < 3 && c.Kind != "sumdb" {
					run.Violate("hung_request_stops_the_polling_loop;"+c.Kind, fmt.Sprintf("case %q: the log accepted a request and never answered; in 1500 ms (interval 180 ms) the polling feeder started %d cycle(s): its cycle deadline does not end the request", c.Desc, cycles), int64(c.ID), map[string]any{"case": c.Desc, "result": res})
				}
			}
			if c.PollMS > 0 {
				run.Count("hostile_polling_loops")
				if strings.Contains(res, "early=true") {
					run.Violate("polling_loop_ended_while_context_alive;"+c.Kind, fmt.Sprintf("case %q: the feeder's polling loop returned before its context ended (%s); omniwitness.Main stops the whole service when a feeder returns", c.Desc, res[:min(len(res), 200)]), int64(c.ID), map[string]any{"case": c.Desc, "result": res})
				}
			}
			if id%211 == 0 {
				run.Sample(map[string]any{"part": "hostile", "case": c.Desc, "result": res[:min(len(res), 200)]})
			}
		}
		var rest []kase
		for _, c := range cases {
			if !finished[c.ID] && c.ID != st {
				rest = append(rest, c)
			}
		}
		if hung >= 0 && !stillHangsAlone(run, dir, w, byID[hung]) {
			// a cycle that ends when its case runs alone with a generous margin was slow (loaded machine), not hung
			run.Count("suspected_hangs_not_reproduced_alone")
			hung = -1
		}
		if hung >= 0 {
			c := byID[hung]
			run.Count("evaluations")
			run.Violate(hangKey(c), fmt.Sprintf("case %q: the cycle (context deadline %d ms) had not ended %d s after it started; the child was killed", c.Desc, c.DeadlineMS, 10), int64(c.ID), map[string]any{"case": c.Desc, "first_body": string(c.First.Body[:min(len(c.First.Body), 300)])})
		} else if exitErr != nil {
			c, ok := byID[st]
			if ok && !finished[st] {
				run.Count("evaluations")
				run.Violate("process_died;"+c.Kind+";"+strings.SplitN(c.Desc, "/", 3)[1], fmt.Sprintf("case %q: the process exited (%v): %s", c.Desc, exitErr, tailStr(out.String(), 1500)), int64(c.ID), map[string]any{"case": c.Desc, "output": tailStr(out.String(), 4000)})
			} else {
				run.Inconclusive(fmt.Sprintf("child exited unexpectedly: %v %s", exitErr, tailStr(out.String(), 300)))
				return
			}
		}
		if len(rest) == len(cases) {
			return
		}
		cases = rest
	}
}

var (
	confirmMu      sync.Mutex
	hangsConfirmed int
)

// stillHangsAlone re-runs one suspected hang in a child of its own with a 60 s margin: the 10 s margin of the
// batch is a wall-clock bound and 16 batches share the machine with whatever else runs on it. Until two hangs
// have been confirmed this way every suspect is re-run; after that the machine is evidently not the cause.
func stillHangsAlone(run *ev.Run, dir string, w int, c kase) bool {
	confirmMu.Lock()
	defer confirmMu.Unlock()
	if hangsConfirmed >= 2 {
		return true
	}
	in := filepath.Join(dir, fmt.Sprintf("hostile-alone-%d-%d.json", w, c.ID))
	prog := filepath.Join(dir, fmt.Sprintf("hostile-alone-%d-%d.progress", w, c.ID))
	b, _ := json.Marshal([]kase{c})
	_ = os.WriteFile(in, b, 0o644)
	ctx, cancel := context.WithCancel(context.Background())
	defer cancel()
	cmd := exec.CommandContext(ctx, os.Getenv("VERIF_BIN_C19CHILD"), in, prog)
	if err := cmd.Start(); err != nil {
		return true
	}
	done := make(chan error, 1)
	go func() { done <- cmd.Wait() }()
	limit := time.After(time.Duration(c.DeadlineMS)*time.Millisecond + 60*time.Second)
	for {
		select {
		case <-done:
			_, _, results := progress(prog)
			if _, ok := results[c.ID]; ok {
				return false
			}
			hangsConfirmed++ // it died instead of finishing: not a slow machine either
			return true
		case <-limit:
			cancel()
			<-done
			hangsConfirmed++
			run.Count("hangs_confirmed_alone_with_60s_margin")
			return true
		case <-time.After(200 * time.Millisecond):
		}
	}
}

func hangKey(c kase) string {
	// structural: feeder + which size class the log-signed checkpoint had
	d := c.Desc
	cls := strings.SplitN(d, "/", 3)[1]
	if strings.HasPrefix(cls, "first=signed_size=") {
		var sz uint64
		var rl int
		fmt.Sscanf(cls, "first=signed_size=%d_rootlen=%d", &sz, &rl)
		switch {
		case sz >= 1<<62 && sz < 1<<63:
			cls = "first=signed_size_in_[2^62,2^63)"
		case sz >= 1<<63:
			cls = "first=signed_size>=2^63"
		default:
			cls = "first=signed_size<2^62"
		}
	}
	h := "nothing"
	if c.Holds != nil {
		h = "holds"
	}
	return fmt.Sprintf("hang;%s;%s;witness=%s", c.Kind, cls, h)
}

func tailStr(s string, n int) string {
	if len(s) > n {
		return s[len(s)-n:]
	}
	return s
}

// progress returns (last started id, last ended id, results by id).
func progress(p string) (int, int, map[int]string) {
	f, err := os.Open(p)
	if err != nil {
		return -1, -1, nil
	}
	defer f.Close()
	st, en := -1, -1
	res := map[int]string{}
	sc := bufio.NewScanner(f)
	sc.Buffer(make([]byte, 1<<20), 64<<20)
	for sc.Scan() {
		ln := sc.Text()
		var id, ms int
		switch {
		case strings.HasPrefix(ln, "START "):
			fmt.Sscanf(ln, "START %d", &id)
			st = id
		case strings.HasPrefix(ln, "END "):
			fmt.Sscanf(ln, "END %d %d", &id, &ms)
			en = id
			parts := strings.SplitN(ln, " ", 4)
			if len(parts) == 4 {
				res[id] = parts[3]
			}
			slowMu.Lock()
			if ms > slowestMS {
				slowestMS, slowestID = ms, id
			}
			slowMu.Unlock()
		}
	}
	return st, en, res
}
