// c19child executes a batch of hostile-response cases against the real feeders
// and the real distributor. Every case is logged to the progress file BEFORE it
// is executed, so the parent can attribute a crash or a hang to the exact input.
package main

import (
	"bytes"
	"context"
	"encoding/json"
	"fmt"
	"github.com/transparency-dev/witness/internal/verif/kit/refnote"
	"github.com/transparency-dev/witness/internal/verif/kit/reftree"
	"github.com/transparency-dev/witness/internal/verif/kit/stubs"
	"io"
	"net/http"
	"os"
	"strings"
	"sync"
	"sync/atomic"
	"time"

	f_note "github.com/transparency-dev/formats/note"
	"github.com/transparency-dev/merkle/rfc6962"
	"github.com/transparency-dev/witness/internal/config"
	"github.com/transparency-dev/witness/internal/distribute/rest"
	"github.com/transparency-dev/witness/internal/persistence/inmemory"
	"github.com/transparency-dev/witness/internal/verif/kit/wit"
	"github.com/transparency-dev/witness/internal/witness"
	"github.com/transparency-dev/witness/omniwitness"
	"golang.org/x/mod/sumdb/note"
)

// Resp is a scripted HTTP answer.
type Resp struct {
	Status  int
	Body    []byte
	StallMS int
	Err     bool   // transport error
	Repeat  int    // body = Body repeated this many times (oversized answers)
	Loc     string // Location header (redirects)
	// PartialStatus > 0: requests for PARTIAL tiles (path contains ".p/") get this status and no body, while
	// full tiles get Body (a server that dropped its partial tiles and serves damaged full ones)
	PartialStatus int
	// ContentLength != 0: what the response DECLARES (http.Response.ContentLength), whatever the body really is
	ContentLength int64
}

// Case is one hostile-response scenario.
type Case struct {
	ID         int
	Kind       string // feeder name or "distributor"
	Origin     string
	Vkey       string
	URL        string
	Holds      []byte // checkpoint the witness holds beforehand (nil: nothing)
	First      Resp   // answer to the checkpoint / log-info request (distributor: to the PUT)
	Other      Resp   // answer to every other request
	Skey       string // witness key
	Desc       string
	DeadlineMS int
	PollMS     int // > 0: run the feeder as a polling loop with this interval until the deadline
	// LongPoll > 0: instead of canned answers, an HONEST log (Kind sumdb or tiles) that grows by a few hundred
	// leaves at every checkpoint fetch is followed by the polling feeder for this many growth steps: a long
	// process lifetime made of valid responses only.
	LongPoll int
	Seed     uint64
}

type server struct {
	c      *Case
	firsts *atomic.Int64 // requests answered with the First answer (checkpoint / log-info fetches = cycles started)
	ended  *atomic.Int64 // stalled requests that the caller's context ended (a feeder that caches its first fetch still shows its cycles here)
}

func (s server) RoundTrip(q *http.Request) (*http.Response, error) {
	p := q.URL.Path
	r := s.c.Other
	defer func() {
		if s.firsts != nil && r.Status == s.c.First.Status && r.StallMS == s.c.First.StallMS && bytes.Equal(r.Body, s.c.First.Body) && r.Loc == s.c.First.Loc {
			s.firsts.Add(1)
		}
	}()
	switch s.c.Kind {
	case "sumdb":
		if strings.HasSuffix(p, "/latest") {
			r = s.c.First
		}
	case "pixel":
		if strings.HasSuffix(p, "checkpoint.txt") {
			r = s.c.First
		}
	case "rekor":
		if strings.HasSuffix(p, "api/v1/log") {
			r = s.c.First
		}
	case "distributor":
		if !strings.Contains(p, "/again") {
			r = s.c.First
		}
	default:
		if strings.HasSuffix(p, "/checkpoint") {
			r = s.c.First
		}
	}
	if r.PartialStatus > 0 && strings.Contains(p, ".p/") {
		return &http.Response{StatusCode: r.PartialStatus, Status: fmt.Sprintf("%d x", r.PartialStatus), Header: http.Header{}, Body: io.NopCloser(bytes.NewReader(nil)), Request: q}, nil
	}
	if r.StallMS > 0 {
		select {
		case <-time.After(time.Duration(r.StallMS) * time.Millisecond):
		case <-q.Context().Done():
			if s.ended != nil {
				s.ended.Add(1)
			}
			return nil, q.Context().Err()
		}
	}
	if r.Err {
		return nil, fmt.Errorf("connection reset by peer")
	}
	body := r.Body
	if r.Repeat > 1 {
		body = bytes.Repeat(r.Body, r.Repeat)
	}
	h := http.Header{}
	if r.Loc != "" {
		h.Set("Location", r.Loc)
	}
	st := r.Status
	if st == 0 {
		st = 200
	}
	cl := int64(len(body))
	if r.ContentLength != 0 {
		cl = r.ContentLength
	}
	return &http.Response{StatusCode: st, Status: fmt.Sprintf("%d x", st), Header: h, Body: io.NopCloser(bytes.NewReader(body)), ContentLength: cl, Request: q}, nil
}

func main() {
	wit.Quiet()
	wit.ProdMetrics() // as the shipped binary runs by default
	b, err := os.ReadFile(os.Args[1])
	if err != nil {
		os.Exit(2)
	}
	var cases []Case
	if err := json.Unmarshal(b, &cases); err != nil {
		fmt.Println(err)
		os.Exit(2)
	}
	prog, err := os.OpenFile(os.Args[2], os.O_WRONLY|os.O_APPEND|os.O_CREATE, 0o644)
	if err != nil {
		os.Exit(2)
	}
	for i := range cases {
		c := &cases[i]
		fmt.Fprintf(prog, "START %d\n", c.ID)
		t0 := time.Now()
		res := runCase(c)
		if len(res) > 4000 {
			// an error text can quote a whole (multi-megabyte) response body; the parent reads this file line by line
			res = res[:4000] + fmt.Sprintf("... (%d bytes in all)", len(res))
		}
		fmt.Fprintf(prog, "END %d %d %s\n", c.ID, time.Since(t0).Milliseconds(), strings.ReplaceAll(res, "\n", " "))
	}
	fmt.Fprintf(prog, "DONE\n")
}

func runCase(c *Case) string {
	if c.LongPoll > 0 {
		return longPoll(c)
	}
	logV, err := f_note.NewVerifier(c.Vkey)
	if err != nil {
		return "harness: bad vkey " + err.Error()
	}
	cl, err := config.NewLog(c.Origin, c.Vkey, c.URL)
	if err != nil {
		return "harness: " + err.Error()
	}
	legacy, _ := note.NewSigner(c.Skey)
	v1, _ := f_note.NewSignerForCosignatureV1(c.Skey)
	w, err := witness.New(witness.Opts{Persistence: inmemory.NewPersistence(), Signers: []note.Signer{legacy, v1},
		KnownLogs: map[string]witness.LogInfo{cl.ID: {SigV: logV, Origin: c.Origin, Hasher: rfc6962.DefaultHasher}}})
	if err != nil {
		return "harness: " + err.Error()
	}
	if c.Holds != nil {
		if _, err := w.Update(context.Background(), cl.ID, 0, c.Holds, nil); err != nil {
			return "harness: cannot pre-load the witness: " + err.Error()
		}
	}
	bw := omniwitness.VerifWitnessAdapter(w)
	d := time.Duration(c.DeadlineMS) * time.Millisecond
	ctx, cancel := context.WithTimeout(context.Background(), d)
	defer cancel()
	var firsts, ended atomic.Int64
	client := &http.Client{Transport: server{c, &firsts, &ended}, Timeout: d}
	if c.Kind == "distributor" {
		dist, err := rest.NewDistributor(c.URL, client, []config.Log{cl}, v1.Verifier(), bw)
		if err != nil {
			return "harness: " + err.Error()
		}
		err = dist.DistributeOnce(ctx)
		return fmt.Sprintf("returned err=%v", err)
	}
	f, err := omniwitness.ParseFeeder(c.Kind)
	if err != nil {
		return "harness: " + err.Error()
	}
	if c.PollMS > 0 {
		// the polling loop the service runs: it may only end when its context ends (omniwitness.Main treats
		// its return as fatal for the whole process)
		err = f.FeedFunc()(ctx, cl, bw, client, time.Duration(c.PollMS)*time.Millisecond)
		// cycles started = checkpoint fetches seen, or hung requests that a cycle deadline ended, whichever is larger
		return fmt.Sprintf("returned early=%v cycles=%d err=%v", ctx.Err() == nil, max(firsts.Load(), ended.Load()), err)
	}
	err = f.FeedFunc()(ctx, cl, bw, client, 0)
	return fmt.Sprintf("returned err=%v", err)
}

// growing serves an honest log whose size grows at every checkpoint fetch until the target number of steps.
type growing struct {
	l     *stubs.TileLog
	mu    sync.Mutex
	steps int
	max   int
	size  uint64
	done  chan struct{}
}

func (g *growing) RoundTrip(q *http.Request) (*http.Response, error) {
	if strings.HasSuffix(q.URL.Path, "/latest") || strings.HasSuffix(q.URL.Path, "/checkpoint") {
		g.mu.Lock()
		if g.steps < g.max {
			g.steps++
			g.size += 257 + uint64(g.steps*7%300)
			g.l.Publish(nil, g.size)
		} else if g.steps == g.max {
			g.steps++
			close(g.done)
		}
		g.mu.Unlock()
	}
	return g.l.RoundTrip(q)
}

func longPoll(c *Case) string {
	sumdb := c.Kind == "sumdb"
	var seed [32]byte
	seed[0], seed[1] = byte(c.Seed), byte(c.Seed>>8)
	key := refnote.NewSignKey("longpoll.example", seed)
	origin := "longpoll.example/log"
	if sumdb {
		origin = "go.sum database tree"
	}
	tree := &reftree.Tree{Seed: c.Seed, TagA: 1, TagB: 1, Fork: ^uint64(0)}
	tl := stubs.NewTileLog(origin, key, tree, sumdb)
	g := &growing{l: tl, max: c.LongPoll, size: 70000 + c.Seed%1000, done: make(chan struct{})}
	tl.Publish(nil, g.size)
	cl, err := config.NewLog(origin, key.Vkey(), "http://longpoll.stub")
	if err != nil {
		return "harness: " + err.Error()
	}
	logV, _ := f_note.NewVerifier(key.Vkey())
	legacy, _ := note.NewSigner(c.Skey)
	v1, _ := f_note.NewSignerForCosignatureV1(c.Skey)
	w, err := witness.New(witness.Opts{Persistence: inmemory.NewPersistence(), Signers: []note.Signer{legacy, v1},
		KnownLogs: map[string]witness.LogInfo{cl.ID: {SigV: logV, Origin: origin, Hasher: rfc6962.DefaultHasher}}})
	if err != nil {
		return "harness: " + err.Error()
	}
	f, err := omniwitness.ParseFeeder(c.Kind)
	if err != nil {
		return "harness: " + err.Error()
	}
	ctx, cancel := context.WithTimeout(context.Background(), time.Duration(c.DeadlineMS)*time.Millisecond)
	defer cancel()
	go func() {
		select {
		case <-g.done:
			time.Sleep(100 * time.Millisecond)
			cancel() // every growth step has been published and one more poll made
		case <-ctx.Done():
		}
	}()
	err = f.FeedFunc()(ctx, cl, omniwitness.VerifWitnessAdapter(w), &http.Client{Transport: g, Timeout: 5 * time.Second}, 15*time.Millisecond)
	size := uint64(0)
	if raw, gerr := w.GetCheckpoint(cl.ID); gerr == nil {
		if n, perr := refnote.Parse(raw); perr == nil {
			if cp, cerr := refnote.ParseCheckpoint(n.Text); cerr == nil {
				size = cp.Size
			}
		}
	}
	g.mu.Lock()
	steps := g.steps
	g.mu.Unlock()
	return fmt.Sprintf("returned longpoll steps=%d witness_size=%d log_size=%d err=%v", steps, size, g.size, err)
}
