package main

import (
	"bytes"
	"crypto/ed25519"
	crand "crypto/rand"
	"crypto/x509"
	"database/sql"
	"encoding/base64"
	"encoding/json"
	"encoding/pem"
	"fmt"
	_ "github.com/mattn/go-sqlite3"
	psql "github.com/transparency-dev/witness/internal/persistence/sql"
	"google.golang.org/grpc/codes"
	"google.golang.org/grpc/status"
	"io"
	"math/rand/v2"
	"net"
	"net/http"
	"os"
	"os/exec"
	"path/filepath"
	"strconv"
	"strings"
	"sync"
	"syscall"
	"time"

	"github.com/transparency-dev/witness/internal/verif/kit/crash"
	"github.com/transparency-dev/witness/internal/verif/kit/ev"
	"github.com/transparency-dev/witness/internal/verif/kit/gen"
	"github.com/transparency-dev/witness/internal/verif/kit/refnote"
	"github.com/transparency-dev/witness/internal/verif/kit/stubs"
)

// realBinary is crash generator 4: the repository's own cmd/omniwitness binary (built from the working
// tree; only its embedded log list is replaced through a verif-tagged shim) runs with --db_file on SQLite,
// receives updates through a stub bastion over TLS 1.3 + HTTP/2, and is SIGKILLed while a request is in
// flight. It is restarted on the same file and judged through its own HTTP read API and further requests.
// This exercises what the in-process harnesses cannot: how main() opens the store, the pool setting, the
// key wiring and the flags.
func realBinary(run *ev.Run, dir string) {
	bin := os.Getenv("VERIF_BIN_OMNIWITNESS")
	if bin == "" {
		run.Inconclusive("omniwitness binary not provided")
		return
	}
	tlsd, err := stubs.NewBastionTLS(dir)
	if err != nil {
		run.Inconclusive(err.Error())
		return
	}
	run.Floor("binary_kills", 2)
	run.Units("binary", run.Pick(3, 18), 8, func(unit int64, r *rand.Rand) { binarySession(run, unit, r, dir, bin, tlsd) })
}

func freePort() string {
	l, err := net.Listen("tcp", "127.0.0.1:0")
	if err != nil {
		return "127.0.0.1:0"
	}
	defer l.Close()
	return l.Addr().String()
}

func body(old uint64, proof [][]byte, cp []byte) []byte {
	var b bytes.Buffer
	b.WriteString("old " + strconv.FormatUint(old, 10) + "\n")
	for _, h := range proof {
		b.WriteString(base64.StdEncoding.EncodeToString(h) + "\n")
	}
	b.WriteString("\n")
	b.Write(cp)
	return b.Bytes()
}

func binarySession(run *ev.Run, unit int64, r *rand.Rand, dir, bin string, tlsd *stubs.BastionTLS) {
	w := crash.NewWorld(r)
	sdir := filepath.Join(dir, fmt.Sprintf("bin-%d", unit))
	_ = os.MkdirAll(sdir, 0o755)
	var y strings.Builder
	y.WriteString("Logs:\n")
	for _, l := range w.U.Logs {
		o, _ := json.Marshal(l.Origin)
		fmt.Fprintf(&y, "  - Origin: %s\n    URL: http://unused.invalid/\n    PublicKey: %s\n    Feeder: none\n", o, l.Key.Vkey())
	}
	yamlPath := filepath.Join(sdir, "logs.yaml")
	_ = os.WriteFile(yamlPath, []byte(y.String()), 0o644)
	_, bkey, _ := ed25519.GenerateKey(crand.Reader)
	der, _ := x509.MarshalPKCS8PrivateKey(bkey)
	keyPath := filepath.Join(sdir, "bastion.pem")
	_ = os.WriteFile(keyPath, pem.EncodeToMemory(&pem.Block{Type: "PRIVATE KEY", Bytes: der}), 0o600)
	db := filepath.Join(sdir, "witness.db")
	bast, err := stubs.ListenBastion(tlsd)
	if err != nil {
		run.Inconclusive(err.Error())
		return
	}
	defer bast.Close()

	var cmd *exec.Cmd
	var api string
	straceN := 0
	syscallMode := unit%2 == 1 // every other session dies AT a storage syscall instead of at a random instant
	var logbuf bytes.Buffer
	var lmu sync.Mutex
	tail := func() string { lmu.Lock(); defer lmu.Unlock(); return tailStr(logbuf.String(), 1500) }
	var curExited chan struct{}
	killGroup := func() {
		if cmd != nil && cmd.Process != nil {
			_ = syscall.Kill(-cmd.Process.Pid, syscall.SIGKILL)
			if curExited != nil {
				select {
				case <-curExited:
				case <-time.After(10 * time.Second):
				}
			}
		}
	}
	launch := func() (chan struct{}, error) {
		lmu.Lock()
		logbuf.Reset() // the output of this life only
		lmu.Unlock()
		api = freePort()
		args := []string{}
		if straceN > 0 {
			// die exactly at a storage syscall: the N-th pwrite64/fsync/fdatasync of some thread
			args = []string{"strace", "-f", "-o", "/dev/null", "-e", "trace=pwrite64,fsync,fdatasync", "-e", fmt.Sprintf("inject=pwrite64,fsync,fdatasync:signal=SIGKILL:when=%d", straceN)}
		}
		args = append(args, bin, "--listen", api, "--metrics_listen", "127.0.0.1:0", "--db_file", db, "--private_key", w.Keys.Sign[0].Skey(),
			"--bastion_addr", bast.Addr(), "--bastion_key_path", keyPath, "--bastion_rate_limit", "1000000", "--poll_interval", "0")
		cmd = exec.Command(args[0], args[1:]...)
		cmd.SysProcAttr = &syscall.SysProcAttr{Setpgid: true}
		cmd.Env = append(os.Environ(), "SSL_CERT_FILE="+tlsd.CAFile, "SSL_CERT_DIR="+tlsd.EmptyDir, "VERIF_LOGS_YAML="+yamlPath)
		pr, pw := io.Pipe()
		cmd.Stdout, cmd.Stderr = pw, pw
		cmd.WaitDelay = 2 * time.Second
		go func() {
			buf := make([]byte, 4096)
			for {
				n, err := pr.Read(buf)
				lmu.Lock()
				if logbuf.Len() < 1<<16 {
					logbuf.Write(buf[:n])
				}
				lmu.Unlock()
				if err != nil {
					return
				}
			}
		}()
		if err := cmd.Start(); err != nil {
			return nil, err
		}
		exited := make(chan struct{})
		c := cmd
		go func() { _ = c.Wait(); pw.Close(); close(exited) }()
		curExited = exited
		return exited, nil
	}
	portRetries := 0
	var lockedUntil chan struct{} // set while another connection holds the write lock during a start
	start := func() (*stubs.Backend, error) {
		type accRes struct {
			be  *stubs.Backend
			err error
		}
		exited, err := launch()
		if err != nil {
			return nil, err
		}
		acc := make(chan accRes, 1)
		go func() { be, err := bast.Accept(90 * time.Second); acc <- accRes{be, err} }()
		for {
			select {
			case a := <-acc:
				return a.be, a.err
			case <-exited:
				if straceN == 0 {
					// the port picked for --listen can be taken by another process between picking and binding
					// (many sessions and other checks run on this machine): that is the harness's race, not the binary's
					if out := strings.ToLower(tail()); (strings.Contains(out, "failed to listen on") || strings.Contains(out, "address already in use")) && portRetries < 5 {
						portRetries++
						run.Count("binary_listen_port_collisions_retried")
						if exited, err = launch(); err != nil {
							return nil, err
						}
						continue
					}
					// a binary that refuses to start while someone else holds the database's write lock fails
					// fast, which no property forbids: what matters is that it comes up once the lock is gone
					if lockedUntil != nil {
						<-lockedUntil
						lockedUntil = nil
						run.Count("binary_exits_while_database_locked_then_restarted")
						if exited, err = launch(); err != nil {
							return nil, err
						}
						continue
					}
					return nil, fmt.Errorf("the process exited before connecting to the bastion; its output ends: %s", tailStr(tail(), 600))
				}
				// an armed process can reach its N-th storage syscall while it recovers the journal of the
				// previous kill at start-up: that is one more kill, not a failure to start
				run.Count("binary_kills_during_startup")
				straceN = 0
				if exited, err = launch(); err != nil {
					return nil, err
				}
			}
		}
	}
	hc := &http.Client{Timeout: 5 * time.Second}
	served := func(l *gen.Log) (int, []byte) {
		resp, err := hc.Get("http://" + api + "/witness/v0/logs/" + l.ID + "/checkpoint")
		if err != nil {
			return 0, nil
		}
		defer resp.Body.Close()
		b, _ := io.ReadAll(resp.Body)
		return resp.StatusCode, b
	}

	// holdWriteLock: another connection (the previous instance of a rolling restart, a backup job) holds the
	// database's write lock for longer than SQLite's busy timeout, then lets go; the returned channel is closed then.
	holdWriteLock := func() (chan struct{}, bool) {
		released := make(chan struct{})
		other, oerr := sql.Open("sqlite3", db)
		if oerr != nil {
			return released, false
		}
		other.SetMaxOpenConns(1)
		if _, oerr = other.Exec("BEGIN IMMEDIATE"); oerr != nil {
			other.Close()
			return released, false
		}
		run.Count("binary_starts_on_a_locked_database")
		go func() {
			time.Sleep(7 * time.Second)
			_, _ = other.Exec("ROLLBACK")
			other.Close()
			close(released)
		}()
		return released, true
	}
	firstLock, firstHeld := make(chan struct{}), false
	if unit%3 == 0 {
		// the very first start meets a database file that already exists (created through the repository's own
		// persistence layer, as an earlier version of the service would have left it) and is locked
		if h, herr := sql.Open("sqlite3", db); herr == nil {
			if psql.NewPersistence(h).Init() == nil {
				h.Close()
				firstLock, firstHeld = holdWriteLock()
				if firstHeld {
					lockedUntil = firstLock
				}
			} else {
				h.Close()
			}
		}
	}
	be, err := start()
	lockedUntil = nil
	if firstHeld {
		<-firstLock
	}
	if err != nil {
		killGroup()
		run.Violate("binary_does_not_connect", "the omniwitness binary did not start and connect to the bastion: "+err.Error(), unit, map[string]any{"output": tail()})
		return
	}
	defer killGroup()
	if !be.ClientKeyIs(bkey.Public().(ed25519.PublicKey)) {
		run.Violate("binary_client_certificate_key", "the binary's client certificate does not carry the key from --bastion_key_path", unit, nil)
	}
	cur := map[*gen.Log]uint64{}
	lastAck := map[*gen.Log]string{} // text of the last acknowledged checkpoint
	var trace []string
	kills := run.Pick(3, 5)
	concurrentMode := unit%3 == 2 // one poster per log, requests of different logs in flight together
	if concurrentMode {
		kills = run.Pick(6, 16) // a life is short here, and whether the kill lands while an acknowledgement is ahead of a commit is a matter of timing
	}
	served2 := func(lg *gen.Log) (int, []byte) { return served(lg) }
	for k := 0; k < kills && concurrentMode; k++ {
		type fl struct {
			text string
			nx   uint64
		}
		infl := make([]fl, len(w.U.Logs))
		var mu sync.Mutex
		var wg sync.WaitGroup
		stop := make(chan struct{})
		for li, l := range w.U.Logs {
			wg.Add(1)
			go func(li int, l *gen.Log) {
				defer wg.Done()
				for {
					select {
					case <-stop:
						return
					default:
					}
					mu.Lock()
					c := cur[l]
					mu.Unlock()
					nx := c + 1
					cp := l.Honest(0, nx)
					mu.Lock()
					infl[li] = fl{refnoteText(cp), nx}
					mu.Unlock()
					code, _, rb, err := be.Post(body(c, l.Branches[0].Consistency(c, nx), cp), 10*time.Second)
					if err != nil {
						return // the process is gone
					}
					if code != 200 {
						run.Violate("binary_refuses_honest_update;concurrent_posters", fmt.Sprintf("honest update %d->%d (the only writer of its log) while requests of other logs are in flight: status %d body %q", c, nx, code, rb), unit, map[string]any{"trace": trace, "output": tail()})
						return
					}
					mu.Lock()
					cur[l], lastAck[l] = nx, refnoteText(cp)
					infl[li] = fl{}
					mu.Unlock()
					// acknowledged means committed: an independent connection to the file (this process, the
					// repository's own persistence layer over a second handle) must already see the checkpoint
					if seen, ok := independentRead(db, l.ID); ok {
						run.Count("binary_acks_checked_through_an_independent_connection")
						if refnoteText(seen) != refnoteText(cp) {
							run.Violate("binary_acknowledged_before_commit", fmt.Sprintf("update %d->%d was acknowledged, but an independent connection to the database file does not see it yet (a kill now would lose it)", c, nx), unit, map[string]any{"trace": trace, "seen_by_other_connection": string(seen), "acknowledged": string(cp)})
							return
						}
					}
					run.Count("binary_acked_updates")
					run.Count("binary_acked_updates_concurrent")
				}
			}(li, l)
		}
		// eight more clients keep sending requests that are refused after the witness looked at its store
		// (a genuine larger checkpoint with a junk proof): more requests in flight, no effect on the state
		for ni := 0; ni < 8; ni++ {
			l := w.U.Logs[ni%len(w.U.Logs)]
			wg.Add(1)
			go func(l *gen.Log) {
				defer wg.Done()
				junk := [][]byte{make([]byte, 32)}
				for {
					select {
					case <-stop:
						return
					default:
					}
					mu.Lock()
					c := cur[l]
					mu.Unlock()
					if c == 0 {
						time.Sleep(time.Millisecond)
						continue
					}
					if _, _, _, err := be.Post(body(c, junk, l.Honest(0, c+7)), 10*time.Second); err != nil {
						return
					}
					run.Count("binary_refused_noise_requests")
				}
			}(l)
		}
		time.Sleep(time.Duration(20+r.IntN(60)) * time.Millisecond)
		killGroup()
		close(stop)
		wg.Wait()
		be.Close()
		run.Count("evaluations")
		run.Count("binary_kills")
		run.Count("binary_kills_with_requests_of_several_logs_in_flight")
		trace = append(trace, fmt.Sprintf("KILL with one poster per log running (sizes acknowledged so far: %v)", func() []uint64 {
			var o []uint64
			for _, l := range w.U.Logs {
				o = append(o, cur[l])
			}
			return o
		}()))
		straceN = 0
		be, err = start()
		if err != nil {
			run.Violate("binary_does_not_restart", "after the kill the binary did not come back on the same database: "+err.Error(), unit, map[string]any{"trace": trace, "output": tail()})
			return
		}
		for li, lg := range w.U.Logs {
			sc, raw := served2(lg)
			detail := map[string]any{"trace": trace, "served": string(raw), "status": sc, "last_acknowledged": lastAck[lg], "in_flight": infl[li].text, "output": tail()}
			switch {
			case sc == 404 && lastAck[lg] == "":
			case sc == 200 && lastAck[lg] != "" && refnoteText(raw) == lastAck[lg]:
				run.Count("binary_state_old")
			case sc == 200 && infl[li].text != "" && refnoteText(raw) == infl[li].text:
				run.Count("binary_state_new_unacknowledged")
				cur[lg], lastAck[lg] = infl[li].nx, infl[li].text
			default:
				run.Violate("binary_state_neither_old_nor_new;concurrent_posters", fmt.Sprintf("after a kill with requests of several logs in flight and a restart the binary serves status %d / a checkpoint that is neither the last acknowledged one nor the one in flight for this log", sc), unit, detail)
				return
			}
			if sc == 200 && !w.Complete(lg, raw) {
				run.Violate("binary_serves_incomplete_checkpoint", "after kill and restart the served checkpoint is not validly signed by the log and by both witness schemes", unit, detail)
				return
			}
		}
		run.Distinct("nontrivial", fmt.Sprintf("binary/concurrent/kill%d", k))
	}
	for k := 0; k < kills && !concurrentMode; k++ {
		// some acknowledged updates
		pre := r.IntN(5)
		if straceN > 0 {
			pre = 0 // an armed process may die in any update: every update of this life is a candidate in-flight one
		}
		for i, n := 0, pre; i < n; i++ {
			l := w.U.Logs[r.IntN(len(w.U.Logs))]
			nx := cur[l] + uint64(r.IntN(3))
			if cur[l] == 0 {
				nx = 1 + uint64(r.IntN(3))
			}
			cp := l.Honest(0, nx)
			code, _, rb, err := be.Post(body(cur[l], l.Branches[0].Consistency(cur[l], nx), cp), 20*time.Second)
			trace = append(trace, fmt.Sprintf("update %s %d->%d: %d %v", l.Origin[:8], cur[l], nx, code, err))
			if err != nil || code != 200 {
				run.Violate("binary_refuses_honest_update", fmt.Sprintf("honest update %d->%d through the bastion: status %d err %v body %q", cur[l], nx, code, err, rb), unit, map[string]any{"trace": trace, "output": tail()})
				return
			}
			cur[l] = nx
			lastAck[l] = refnoteText(cp)
			run.Count("binary_acked_updates")
		}
		// one more update in flight, and the kill
		l := w.U.Logs[r.IntN(len(w.U.Logs))]
		nx := cur[l] + 1 + uint64(r.IntN(2))
		cp := l.Honest(0, nx)
		inflight := refnoteText(cp)
		res := make(chan int, 1)
		go func() {
			code, _, _, err := be.Post(body(cur[l], l.Branches[0].Consistency(cur[l], nx), cp), 10*time.Second)
			if err != nil {
				code = -1
			}
			res <- code
		}()
		code := 0
		if straceN > 0 {
			// armed run: the process dies by itself at its N-th storage syscall; keep it busy until it does
			code = <-res
			for extra := 0; code == 200 && extra < 60; extra++ {
				cur[l], lastAck[l] = nx, inflight
				run.Count("binary_acked_updates")
				// alternate the logs: REPLACE gives the row a new rowid only when another row has a larger
				// one, and only then does a commit touch more than one tree of the file
				l = w.U.Logs[(extra+int(unit))%len(w.U.Logs)]
				nx = cur[l] + 1
				cp = l.Honest(0, nx)
				inflight = refnoteText(cp)
				c2, _, _, err := be.Post(body(cur[l], l.Branches[0].Consistency(cur[l], nx), cp), 10*time.Second)
				if err != nil {
					c2 = -1
				}
				code = c2
			}
			if code == 200 {
				cur[l], lastAck[l] = nx, inflight
				inflight = ""
			}
			run.Count("binary_kills_at_syscall")
			killGroup()
		} else {
			time.Sleep(time.Duration(r.IntN(3000)) * time.Microsecond)
			killGroup()
			code = <-res
		}
		be.Close()
		run.Count("evaluations")
		run.Count("binary_kills")
		trace = append(trace, fmt.Sprintf("KILL during %s %d->%d (in-flight answer: %d)", l.Origin[:8], cur[l], nx, code))
		if code == 200 {
			cur[l], lastAck[l] = nx, inflight
			inflight = ""
		}
		// restart on the same file
		straceN = 0
		if syscallMode && k+1 < kills {
			straceN = 2 + r.IntN(40)
		}
		lockReleased, lockHeld := make(chan struct{}), false
		if !syscallMode && k == 0 {
			trace = append(trace, "restart while another connection holds the write lock for 7 s")
			lockReleased, lockHeld = holdWriteLock()
			if lockHeld {
				lockedUntil = lockReleased
			}
		}
		be, err = start()
		lockedUntil = nil
		if lockHeld {
			<-lockReleased // whatever is judged from here on happens after the other connection let go
		}
		if err != nil {
			run.Violate("binary_does_not_restart", "after the kill the binary did not come back on the same database: "+err.Error(), unit, map[string]any{"trace": trace, "output": tail()})
			return
		}
		for _, lg := range w.U.Logs {
			sc, raw := served(lg)
			detail := map[string]any{"trace": trace, "served": string(raw), "status": sc, "output": tail()}
			want := lastAck[lg]
			switch {
			case sc == 404 && want == "" && !(lg == l && inflight != ""):
			case sc == 404 && want == "" && lg == l:
			case sc == 200 && refnoteText(raw) == want && want != "":
				run.Count("binary_state_old")
			case sc == 200 && lg == l && inflight != "" && refnoteText(raw) == inflight:
				run.Count("binary_state_new_unacknowledged")
				cur[lg], lastAck[lg] = nx, inflight
			default:
				run.Violate("binary_state_neither_old_nor_new", fmt.Sprintf("after kill and restart the binary serves status %d / a checkpoint that is neither the last acknowledged one nor the one in flight", sc), unit, detail)
				return
			}
			if sc == 200 && !w.Complete(lg, raw) {
				run.Violate("binary_serves_incomplete_checkpoint", "after kill and restart the served checkpoint is not validly signed by the log and by both witness schemes", unit, detail)
				return
			}
		}
		run.Distinct("nontrivial", fmt.Sprintf("binary/kill%d/inflight=%d", k, code))
		// fork must be refused, then the honest next step accepted
		for _, lg := range w.U.Logs {
			if cur[lg] == 0 {
				continue
			}
			fcode, _, _, _ := be.Post(body(cur[lg], lg.Branches[1].Consistency(cur[lg], cur[lg]+3), lg.Honest(1, cur[lg]+3)), 20*time.Second)
			if fcode == 200 {
				run.Violate("binary_accepts_fork_after_restart", "the restarted binary accepted a checkpoint inconsistent with what it had acknowledged", unit, map[string]any{"trace": trace})
				return
			}
		}
	}
	if unit == 0 {
		run.Sample(map[string]any{"part": "real binary", "trace": trace})
	}
}

func refnoteText(raw []byte) string {
	n, err := refnote.Parse(raw)
	if err != nil {
		return ""
	}
	return n.Text
}

// independentRead opens the database file through a second handle of this process and reads the log's
// checkpoint with the repository's own persistence layer (schema-agnostic). ok=false: could not tell.
func independentRead(path, logID string) ([]byte, bool) {
	h, err := sql.Open("sqlite3", path)
	if err != nil {
		return nil, false
	}
	defer h.Close()
	h.SetMaxOpenConns(1)
	for try := 0; try < 5; try++ {
		ro, err := psql.NewPersistence(h).ReadOps(logID)
		if err == nil {
			var b []byte
			if b, err = ro.GetLatest(); err == nil {
				return b, true
			}
			if status.Code(err) == codes.NotFound {
				return nil, true
			}
		}
		time.Sleep(2 * time.Millisecond)
	}
	return nil, false
}
