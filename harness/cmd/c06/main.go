// C06: a crash at any instant leaves each log at the old or the new checkpoint.
//
// The child process (c06child) is SIGKILLed at every database-driver operation
// boundary (it kills itself from inside the wrapping driver), at every storage
// syscall (strace -e inject=...:signal=KILL:when=N) and, in the thorough tier,
// at random instants. The store is then reopened by this process with the plain
// production driver and judged.
package main

import (
	"bytes"
	"context"
	"crypto/sha256"
	"database/sql"
	"encoding/json"
	"fmt"
	"math/rand/v2"
	"os"
	"os/exec"
	"path/filepath"
	"strings"
	"syscall"
	"time"

	_ "github.com/mattn/go-sqlite3"
	psql "github.com/transparency-dev/witness/internal/persistence/sql"
	"github.com/transparency-dev/witness/internal/verif/kit/crash"
	"github.com/transparency-dev/witness/internal/verif/kit/ev"
	"github.com/transparency-dev/witness/internal/verif/kit/gen"
	"github.com/transparency-dev/witness/internal/verif/kit/refnote"
	"github.com/transparency-dev/witness/internal/verif/kit/wit"
	"github.com/transparency-dev/witness/internal/witness"
	"google.golang.org/grpc/codes"
	"google.golang.org/grpc/status"
)

// verify reopens the store with the plain production driver and applies the property's clauses.
// pre: sha256 (hex) of the checkpoint each log held before the script ("" = none).
func verify(w *crash.World, run *ev.Run, unit int64, db string, ups []crash.Upd, a crash.Acks, pre map[string]string, what string, detail map[string]any) {
	h, err := sql.Open("sqlite3", db)
	if err != nil {
		run.Inconclusive(err.Error())
		return
	}
	defer h.Close()
	h.SetMaxOpenConns(1)
	kl, _ := wit.KnownLogs(w.U)
	wt, err := witness.New(witness.Opts{Persistence: psql.NewPersistence(h), Signers: w.Keys.Signers, KnownLogs: kl})
	if err != nil {
		run.Violate("store_unusable_after_kill;"+what, "the store cannot be reopened after the kill: "+err.Error(), unit, detail)
		return
	}
	// expected state per log
	last := map[string]string{}
	for k, v := range pre {
		last[k] = v
	}
	var inflight *crash.Upd
	for i := range ups {
		u := &ups[i]
		if hsh, ok := a.Ack[u.ID]; ok {
			last[u.LogID] = hsh
			continue
		}
		if _, ok := a.Nak[u.ID]; ok {
			continue
		}
		if inflight == nil && !a.Done {
			inflight = u
		}
	}
	for _, l := range w.U.Logs {
		stored, err := wt.GetCheckpoint(l.ID)
		if err != nil && status.Code(err) != codes.NotFound {
			run.Violate("read_fails_after_kill;"+what, "reading the latest checkpoint after reopen fails: "+err.Error(), unit, detail)
			return
		}
		d2 := map[string]any{"stored": string(stored), "log": l.Origin}
		for k, v := range detail {
			d2[k] = v
		}
		sum := ""
		if stored != nil {
			sum = fmt.Sprintf("%x", sha256.Sum256(stored))
		}
		okOld := sum == last[l.ID]
		okNew := false
		if inflight != nil && inflight.LogID == l.ID && !inflight.Refused && stored != nil {
			okNew = w.CosignedFormOf(l, stored, inflight.CP)
		}
		switch {
		case okOld:
			run.Count("state_old")
		case okNew:
			run.Count("state_new_unacknowledged")
		default:
			which := "is neither the last acknowledged checkpoint nor the one being written"
			if stored == nil && last[l.ID] != "" {
				which = "is gone although an update had been acknowledged"
			}
			run.Violate("state_neither_old_nor_new;"+what, "after the kill the stored checkpoint "+which, unit, d2)
			continue
		}
		if stored != nil && !w.Complete(l, stored) {
			run.Violate("stored_checkpoint_incomplete;"+what, "the stored checkpoint is not a complete validly cosigned note", unit, d2)
			continue
		}
		// probes through the real Update on the reopened store
		if stored == nil {
			// nothing is held for this log: the store must not list it, and a first update must work
			if logs, lerr := wt.GetLogs(); lerr == nil {
				for _, id := range logs {
					if id == l.ID {
						run.Violate("listed_without_checkpoint;"+what, "after the kill the log is listed but has no readable checkpoint", unit, d2)
					}
				}
			}
			if _, err := wt.Update(context.Background(), l.ID, 0, l.Honest(0, 3), nil); err != nil {
				run.Violate("first_update_refused_after_restart;"+what, "after the kill nothing is stored for the log, yet a first update is refused: "+err.Error(), unit, d2)
			}
			continue
		}
		n, _ := refnote.Parse(stored)
		c, _ := refnote.ParseCheckpoint(n.Text)
		fork := l.Honest(1, c.Size+3)
		if _, err := wt.Update(context.Background(), l.ID, c.Size, fork, l.Branches[1].Consistency(c.Size, c.Size+3)); err == nil {
			run.Violate("fork_accepted_after_restart;"+what, "the restarted witness accepted a checkpoint inconsistent with what it had acknowledged", unit, d2)
		}
		if _, err := wt.Update(context.Background(), l.ID, c.Size, l.Honest(0, c.Size+2), l.Branches[0].Consistency(c.Size, c.Size+2)); err != nil {
			run.Violate("honest_step_refused_after_restart;"+what, "the restarted witness refuses the honest next step: "+err.Error(), unit, d2)
		}
	}
}

type point struct {
	sc        crash.Script
	populated bool
	idx       int
	phase     string
	op        string
}

func main() {
	wit.Quiet()
	wit.EnsureMetrics(nil)
	if d := os.Getenv("VERIF_MAKE_FIXTURE"); d != "" {
		if err := makeFixture(d); err != nil {
			fmt.Println("fixture:", err)
			os.Exit(1)
		}
		fmt.Println("fixture written to", d)
		return
	}
	run := ev.Start("C06", "fault_enumeration")
	defer run.Finish()
	run.Rule("crash points, enumerated exhaustively: (1) every database-driver operation (begin, query, exec, commit, rollback; positions learned from an unkilled run of the same script), before and after the real call, for the scripts {first use, growth, refresh, growth after a refused update, two logs interleaved} x {fresh database, table already holding another log's row}: the child SIGKILLs itself there; (2) every storage syscall (pwrite64, fsync, fdatasync, unlink, ftruncate and friends; count learned from a traced run) via strace signal injection; (3, thorough) random instants in a stream of updates; (4) the repository's own cmd/omniwitness binary (built from the working tree, real flags, real pool setting, real key wiring; only its embedded log list is replaced) receives updates through a stub bastion and is SIGKILLed while a request is in flight, restarted on the same file and judged through its HTTP read API. After each kill the file is reopened by this process with the plain production driver: per log the stored checkpoint must be hash-equal to the last acknowledged one or be the complete cosigned form of the single in-flight request; then a fork must be refused and the honest next step accepted through the real Update. evaluations = killed child runs verified; nontrivial = distinct (script, table state, operation or syscall index, phase)")
	run.Assume("crash = SIGKILL of the process on a running kernel; power loss, torn writes and missing fsync are not observable this way", "acknowledgements are single write(2) calls to an append-only file")
	run.Floor("driver_points", 150)
	run.Floor("syscall_points", 100)
	run.Floor("state_new_unacknowledged", 10)
	run.Floor("state_old", 100)
	run.Exhaustive(true)
	dir := run.Scratch()
	w := crash.NewWorld(run.Rand("world", 0))
	scripts := w.Scripts()
	setup := []crash.Upd{w.Step(100, w.B, 0, 3)} // populates the table with another log's row
	if strings.HasPrefix(scripts[4].Name, "two_logs") {
		// two_logs starts log b itself; in the populated state it continues from size 3
	}

	// (1) driver-operation boundaries
	var points []point
	for _, sc := range scripts {
		for _, pop := range []bool{false, true} {
			if pop && sc.Name == "two_logs" {
				continue
			}
			db := filepath.Join(dir, fmt.Sprintf("dry-%s-%v.db", sc.Name, pop))
			if pop {
				if _, _, err, out := w.Child(dir, db, setup, -1, "", false, nil); err != nil {
					run.Inconclusive("setup child failed: " + err.Error() + string(out))
					return
				}
			}
			_, opsPath, err, out := w.Child(dir, db, sc.Ups, -1, "", true, nil)
			if err != nil {
				run.Inconclusive("dry run failed: " + err.Error() + string(out))
				return
			}
			var ops []string
			ob, _ := os.ReadFile(opsPath)
			_ = json.Unmarshal(ob, &ops)
			for i, op := range ops {
				for _, ph := range []string{"before", "after"} {
					points = append(points, point{sc, pop, i, ph, op})
				}
			}
			run.Sample(map[string]any{"script": sc.Name, "populated": pop, "driver_operations": ops})
		}
	}
	run.Units("driver", len(points), 0, func(unit int64, _ *rand.Rand) {
		p := points[unit]
		db := filepath.Join(dir, fmt.Sprintf("d-%d.db", unit))
		pre := map[string]string{}
		if p.populated {
			ackp, _, err, out := w.Child(dir, db, setup, -1, "", false, nil)
			if err != nil {
				run.Inconclusive("setup child failed: " + err.Error() + string(out))
				return
			}
			pre[w.B.ID] = crash.ReadAcks(ackp).Ack[100]
		}
		ackp, _, err, out := w.Child(dir, db, p.sc.Ups, p.idx, p.phase, false, nil)
		a := crash.ReadAcks(ackp)
		what := fmt.Sprintf("%s/populated=%v", p.sc.Name, p.populated)
		detail := map[string]any{"script": p.sc.Name, "populated": p.populated, "kill_at_op": p.idx, "op": p.op, "phase": p.phase, "acks": a.Order, "child_exit": fmt.Sprint(err), "child_out": string(out)}
		if ee, ok := err.(*exec.ExitError); !ok || !ee.Sys().(syscall.WaitStatus).Signaled() {
			run.Inconclusive(fmt.Sprintf("child was not killed at %s@%d/%s: %v %s", p.op, p.idx, p.phase, err, out))
			return
		}
		run.Count("evaluations")
		run.Count("driver_points")
		run.Distinct("nontrivial", fmt.Sprintf("driver/%s/%s@%d/%s", what, p.op, p.idx, p.phase))
		verify(w, run, unit, db, p.sc.Ups, a, pre, what+";op="+p.op+"/"+p.phase, detail)
		os.Remove(db)
		os.Remove(db + "-journal")
	})

	// (2) storage-syscall boundaries
	const set = "pwrite64,write,fsync,fdatasync,unlink,unlinkat,ftruncate,rename,renameat,openat"
	_ = set
	const inj = "pwrite64,fsync,fdatasync,unlink,unlinkat,ftruncate"
	type spoint struct {
		sc crash.Script
		n  int
	}
	var sp []spoint
	for _, sc := range scripts {
		db := filepath.Join(dir, "sdry-"+sc.Name+".db")
		tr := filepath.Join(dir, "trace-"+sc.Name)
		_, _, err, out := w.Child(dir, db, sc.Ups, -1, "", false, []string{"strace", "-f", "-o", tr, "-e", "trace=" + inj})
		if err != nil {
			run.Inconclusive("traced dry run failed: " + err.Error() + string(out))
			return
		}
		tb, _ := os.ReadFile(tr)
		// count per thread; the child's SQLite thread is the one with the most matching calls
		per := map[string]int{}
		for _, ln := range strings.Split(string(tb), "\n") {
			f := strings.Fields(ln)
			if len(f) > 1 && (strings.Contains(f[1], "(")) {
				per[f[0]]++
			}
		}
		k := 0
		for _, v := range per {
			if v > k {
				k = v
			}
		}
		if k == 0 {
			run.Inconclusive("strace saw no storage syscalls")
			return
		}
		for n := 1; n <= k; n++ {
			sp = append(sp, spoint{sc, n})
		}
		run.Extra("storage_syscalls:"+sc.Name, k)
	}
	run.Units("syscall", len(sp), 0, func(unit int64, _ *rand.Rand) {
		p := sp[unit]
		db := filepath.Join(dir, fmt.Sprintf("s-%d.db", unit))
		tr := filepath.Join(dir, fmt.Sprintf("s-%d.trace", unit))
		ackp, _, err, out := w.Child(dir, db, p.sc.Ups, -1, "", false, []string{"strace", "-f", "-o", tr, "-e", "trace=" + inj, "-e", fmt.Sprintf("inject=%s:signal=SIGKILL:when=%d", inj, p.n)})
		a := crash.ReadAcks(ackp)
		tb, _ := os.ReadFile(tr)
		lines := strings.Split(strings.TrimSpace(string(tb)), "\n")
		lastCall := ""
		for i := len(lines) - 1; i >= 0; i-- {
			if strings.Contains(lines[i], "(") && !strings.Contains(lines[i], "+++") {
				lastCall = lines[i]
				break
			}
		}
		if len(lastCall) > 100 {
			lastCall = lastCall[:100]
		}
		_, jerr := os.Stat(db + "-journal")
		detail := map[string]any{"script": p.sc.Name, "kill_at_syscall": p.n, "interrupted": lastCall, "hot_journal_left": jerr == nil, "acks": a.Order, "child_exit": fmt.Sprint(err), "out": string(out)}
		if a.Done {
			// the N-th syscall was on another thread or not reached: nothing was killed
			run.Count("syscall_points_not_reached")
			return
		}
		run.Count("evaluations")
		run.Count("syscall_points")
		if jerr == nil {
			run.Count("hot_journal_left")
		}
		run.Distinct("nontrivial", fmt.Sprintf("syscall/%s/%d", p.sc.Name, p.n))
		if unit%41 == 0 {
			run.Sample(detail)
		}
		verify(w, run, unit, db, p.sc.Ups, a, map[string]string{}, p.sc.Name+";syscall", detail)
		os.Remove(db)
		os.Remove(db + "-journal")
	})

	realBinary(run, dir)
	ackCommit(run, dir)
	run.Floor("upgrade_logs_checked", 2)
	upgrade(run, dir)

	// (3) random instants
	if run.Thorough() {
		run.Exhaustive(false)
		run.Units("random", 3000, 0, func(unit int64, r *rand.Rand) {
			var ups []crash.Upd
			cur := map[*gen.Log]uint64{}
			for i := 1; i <= 200; i++ {
				l := w.U.Logs[r.IntN(2)]
				nx := cur[l] + uint64(r.IntN(3))
				if cur[l] == 0 {
					nx = 1 + uint64(r.IntN(3))
				}
				if nx > 38 {
					nx = cur[l]
				}
				ups = append(ups, w.Step(i, l, cur[l], nx))
				cur[l] = nx
			}
			db := filepath.Join(dir, fmt.Sprintf("r-%d.db", unit))
			n := crash.RunN.Add(1)
			ackp := filepath.Join(dir, fmt.Sprintf("ack-%d", n))
			sp := filepath.Join(dir, fmt.Sprintf("script-%d.json", n))
			cfg := w.Config(db, ackp)
			var us []map[string]any
			for _, u := range ups {
				us = append(us, map[string]any{"ID": u.ID, "LogID": u.LogID, "Old": u.Old, "CP": u.CP, "Proof": u.Proof})
			}
			cfg["Updates"] = us
			b, _ := json.Marshal(cfg)
			_ = os.WriteFile(sp, b, 0o644)
			cmd := exec.Command(os.Getenv("VERIF_BIN_C06CHILD"), sp)
			if err := cmd.Start(); err != nil {
				run.Inconclusive(err.Error())
				return
			}
			want := r.IntN(150)
			spin := r.IntN(3000)
			for i := 0; i < 20000; i++ {
				if len(crash.ReadAcks(ackp).Order) >= want {
					break
				}
				time.Sleep(200 * time.Microsecond)
			}
			for i := 0; i < spin; i++ {
				_ = sha256.Sum256([]byte{byte(i)})
			}
			_ = cmd.Process.Kill()
			_ = cmd.Wait()
			a := crash.ReadAcks(ackp)
			run.Count("evaluations")
			run.Count("random_instant_kills")
			run.Distinct("nontrivial", fmt.Sprintf("random/%d", len(a.Order)))
			verify(w, run, unit, db, ups, a, map[string]string{}, "random_instant", map[string]any{"acks_before_kill": len(a.Order)})
			os.Remove(db)
			os.Remove(db + "-journal")
			os.Remove(sp)
			os.Remove(ackp)
		})
	}
	_ = bytes.Equal
}

func tailStr(s string, n int) string {
	if len(s) > n {
		return s[len(s)-n:]
	}
	return s
}
