// C06: a crash at any instant leaves each log at the old or the new checkpoint.
//
// The child process (c06child) is SIGKILLed at every database-driver operation
// boundary (it kills itself from inside the wrapping driver), at every storage
// syscall (strace -e inject=...:signal=KILL:when=N) and, in the thorough tier,
// at random instants. The store is then reopened by this process with the plain
// production driver and judged.
package main

import (
	"bufio"
	"bytes"
	"context"
	"crypto/sha256"
	"database/sql"
	"encoding/json"
	"fmt"
	"math/rand/v2"
	"os"
	"os/exec"
	"path/filepath"
	"strings"
	"sync/atomic"
	"syscall"
	"time"

	_ "github.com/mattn/go-sqlite3"
	psql "github.com/transparency-dev/witness/internal/persistence/sql"
	"github.com/transparency-dev/witness/internal/verif/kit/ev"
	"github.com/transparency-dev/witness/internal/verif/kit/gen"
	"github.com/transparency-dev/witness/internal/verif/kit/refnote"
	"github.com/transparency-dev/witness/internal/verif/kit/reftree"
	"github.com/transparency-dev/witness/internal/verif/kit/wit"
	"github.com/transparency-dev/witness/internal/witness"
	"google.golang.org/grpc/codes"
	"google.golang.org/grpc/status"
)

type upd struct {
	ID      int
	LogID   string
	Old     uint64
	CP      []byte
	Proof   [][]byte
	refused bool // must be refused whatever happens
	log     *gen.Log
}

type script struct {
	name string
	ups  []upd
}

type world struct {
	u    *gen.Universe
	a, b *gen.Log
	keys *wit.WitKeys
	cfg  map[string]any
}

func newWorld(r *rand.Rand) *world {
	u := gen.NewUniverse(r, gen.Opts{NLogs: 2, MaxSize: 40, Branches: 2, Unique: true})
	for _, l := range u.Logs {
		l.ReplaceBranch(1, &reftree.Tree{Seed: l.Branches[0].Seed, TagA: 1, TagB: 4, Fork: 2})
	}
	keys, _ := wit.NewWitKeys(r, []bool{false, true}, true)
	w := &world{u: u, a: u.Logs[0], b: u.Logs[1], keys: keys}
	var logs []map[string]string
	for _, l := range u.Logs {
		logs = append(logs, map[string]string{"ID": l.ID, "Origin": l.Origin, "Vkey": l.Key.Vkey()})
	}
	var sk []map[string]any
	for i, k := range keys.Sign {
		sk = append(sk, map[string]any{"Skey": k.Skey(), "CosigV1": keys.Keys[i].CosigV1})
	}
	w.cfg = map[string]any{"Logs": logs, "Skeys": sk}
	return w
}

func (w *world) step(id int, l *gen.Log, old, size uint64) upd {
	return upd{ID: id, LogID: l.ID, Old: old, CP: l.Honest(0, size), Proof: l.Branches[0].Consistency(old, size), log: l}
}

func (w *world) scripts() []script {
	a, b := w.a, w.b
	stale := w.step(2, a, 3, 9)
	stale.refused = true
	return []script{
		{"first_use", []upd{w.step(1, a, 0, 5)}},
		{"growth", []upd{w.step(1, a, 0, 5), w.step(2, a, 5, 9)}},
		{"refresh", []upd{w.step(1, a, 0, 5), w.step(2, a, 5, 5)}},
		{"growth_after_refused", []upd{w.step(1, a, 0, 5), stale, w.step(3, a, 5, 9)}},
		{"two_logs", []upd{w.step(1, b, 0, 4), w.step(2, a, 0, 5), w.step(3, b, 4, 8), w.step(4, a, 5, 9)}},
	}
}

var runN atomic.Int64

// child runs c06child on a script; wrap prefixes the command (strace).
func (w *world) child(dir string, db string, ups []upd, killAt int, phase string, opsLog bool, wrap []string) (ackPath string, opsPath string, err error, out []byte) {
	n := runN.Add(1)
	ackPath = filepath.Join(dir, fmt.Sprintf("ack-%d", n))
	sp := filepath.Join(dir, fmt.Sprintf("script-%d.json", n))
	cfg := map[string]any{"DB": db, "Ack": ackPath, "Logs": w.cfg["Logs"], "Skeys": w.cfg["Skeys"], "KillAt": killAt, "KillPhase": phase}
	if opsLog {
		opsPath = filepath.Join(dir, fmt.Sprintf("ops-%d.json", n))
		cfg["OpsLog"] = opsPath
	}
	var us []map[string]any
	for _, u := range ups {
		us = append(us, map[string]any{"ID": u.ID, "LogID": u.LogID, "Old": u.Old, "CP": u.CP, "Proof": u.Proof})
	}
	cfg["Updates"] = us
	b, _ := json.Marshal(cfg)
	_ = os.WriteFile(sp, b, 0o644)
	args := append(append([]string{}, wrap...), os.Getenv("VERIF_BIN_C06CHILD"), sp)
	ctx, cancel := context.WithTimeout(context.Background(), 60*time.Second)
	defer cancel()
	cmd := exec.CommandContext(ctx, args[0], args[1:]...)
	cmd.Env = append(os.Environ(), "VERIF_KILL_AT=")
	out, err = cmd.CombinedOutput()
	if ctx.Err() != nil {
		err = fmt.Errorf("watchdog")
	}
	return
}

type acks struct {
	ready, done bool
	ack         map[int]string // id -> sha256 hex of returned bytes
	nak         map[int]string
	order       []int
}

func readAcks(p string) acks {
	a := acks{ack: map[int]string{}, nak: map[int]string{}}
	f, err := os.Open(p)
	if err != nil {
		return a
	}
	defer f.Close()
	sc := bufio.NewScanner(f)
	for sc.Scan() {
		ln := sc.Text()
		var id int
		var h string
		switch {
		case ln == "READY":
			a.ready = true
		case ln == "DONE":
			a.done = true
		case strings.HasPrefix(ln, "ACK "):
			fmt.Sscanf(ln, "ACK %d %s", &id, &h)
			a.ack[id] = h
			a.order = append(a.order, id)
		case strings.HasPrefix(ln, "NAK "):
			fmt.Sscanf(ln, "NAK %d", &id)
			a.nak[id] = ln
		}
	}
	return a
}

// verify reopens the store with the plain production driver and applies the property's clauses.
// pre: sha256 (hex) of the checkpoint each log held before the script ("" = none).
func (w *world) verify(run *ev.Run, unit int64, db string, ups []upd, a acks, pre map[string]string, what string, detail map[string]any) {
	h, err := sql.Open("sqlite3", db)
	if err != nil {
		run.Inconclusive(err.Error())
		return
	}
	defer h.Close()
	h.SetMaxOpenConns(1)
	kl, _ := wit.KnownLogs(w.u)
	wt, err := witness.New(witness.Opts{Persistence: psql.NewPersistence(h), Signers: w.keys.Signers, KnownLogs: kl})
	if err != nil {
		run.Violate("store_unusable_after_kill;"+what, "the store cannot be reopened after the kill: "+err.Error(), unit, detail)
		return
	}
	// expected state per log
	last := map[string]string{}
	for k, v := range pre {
		last[k] = v
	}
	var inflight *upd
	for i := range ups {
		u := &ups[i]
		if hsh, ok := a.ack[u.ID]; ok {
			last[u.LogID] = hsh
			continue
		}
		if _, ok := a.nak[u.ID]; ok {
			continue
		}
		if inflight == nil && !a.done {
			inflight = u
		}
	}
	for _, l := range w.u.Logs {
		stored, err := wt.GetCheckpoint(l.ID)
		if err != nil && status.Code(err) != codes.NotFound {
			run.Violate("read_fails_after_kill;"+what, "reading the latest checkpoint after reopen fails: "+err.Error(), unit, detail)
			return
		}
		d2 := map[string]any{"stored": string(stored), "log": l.Origin}
		for k, v := range detail {
			d2[k] = v
		}
		sum := ""
		if stored != nil {
			sum = fmt.Sprintf("%x", sha256.Sum256(stored))
		}
		okOld := sum == last[l.ID]
		okNew := false
		if inflight != nil && inflight.LogID == l.ID && !inflight.refused && stored != nil {
			okNew = w.cosignedFormOf(l, stored, inflight.CP)
		}
		switch {
		case okOld:
			run.Count("state_old")
		case okNew:
			run.Count("state_new_unacknowledged")
		default:
			which := "is neither the last acknowledged checkpoint nor the one being written"
			if stored == nil && last[l.ID] != "" {
				which = "is gone although an update had been acknowledged"
			}
			run.Violate("state_neither_old_nor_new;"+what, "after the kill the stored checkpoint "+which, unit, d2)
			continue
		}
		if stored != nil && !w.complete(l, stored) {
			run.Violate("stored_checkpoint_incomplete;"+what, "the stored checkpoint is not a complete validly cosigned note", unit, d2)
			continue
		}
		// probes through the real Update on the reopened store
		if stored == nil {
			continue
		}
		n, _ := refnote.Parse(stored)
		c, _ := refnote.ParseCheckpoint(n.Text)
		fork := l.Honest(1, c.Size+3)
		if _, err := wt.Update(context.Background(), l.ID, c.Size, fork, l.Branches[1].Consistency(c.Size, c.Size+3)); err == nil {
			run.Violate("fork_accepted_after_restart;"+what, "the restarted witness accepted a checkpoint inconsistent with what it had acknowledged", unit, d2)
		}
		if _, err := wt.Update(context.Background(), l.ID, c.Size, l.Honest(0, c.Size+2), l.Branches[0].Consistency(c.Size, c.Size+2)); err != nil {
			run.Violate("honest_step_refused_after_restart;"+what, "the restarted witness refuses the honest next step: "+err.Error(), unit, d2)
		}
	}
}

func (w *world) complete(l *gen.Log, raw []byte) bool {
	n, err := refnote.Parse(raw)
	if err != nil {
		return false
	}
	if a, _ := l.Judge(raw); !a {
		return false
	}
	for _, k := range w.keys.Keys {
		v, _, lines := k.ValidSigs(n)
		if len(v) != 1 || lines != 1 {
			return false
		}
	}
	return true
}

func (w *world) cosignedFormOf(l *gen.Log, stored, submitted []byte) bool {
	a, b := refnoteText(stored), refnoteText(submitted)
	return a != "" && a == b && w.complete(l, stored)
}

func refnoteText(raw []byte) string {
	n, err := refnote.Parse(raw)
	if err != nil {
		return ""
	}
	return n.Text
}

type point struct {
	sc        script
	populated bool
	idx       int
	phase     string
	op        string
}

func main() {
	wit.Quiet()
	wit.EnsureMetrics(nil)
	run := ev.Start("C06", "fault_enumeration")
	defer run.Finish()
	run.Rule("crash points, enumerated exhaustively: (1) every database-driver operation (begin, query, exec, commit, rollback; positions learned from an unkilled run of the same script), before and after the real call, for the scripts {first use, growth, refresh, growth after a refused update, two logs interleaved} x {fresh database, table already holding another log's row}: the child SIGKILLs itself there; (2) every storage syscall (pwrite64, fsync, fdatasync, unlink, ftruncate and friends; count learned from a traced run) via strace signal injection; (3, thorough) random instants in a stream of updates. After each kill the file is reopened by this process with the plain production driver: per log the stored checkpoint must be hash-equal to the last acknowledged one or be the complete cosigned form of the single in-flight request; then a fork must be refused and the honest next step accepted through the real Update. evaluations = killed child runs verified; nontrivial = distinct (script, table state, operation or syscall index, phase)")
	run.Assume("crash = SIGKILL of the process on a running kernel; power loss, torn writes and missing fsync are not observable this way", "acknowledgements are single write(2) calls to an append-only file")
	run.Floor("driver_points", 150)
	run.Floor("syscall_points", 100)
	run.Floor("state_new_unacknowledged", 10)
	run.Floor("state_old", 100)
	run.Exhaustive(true)
	dir := run.Scratch()
	w := newWorld(run.Rand("world", 0))
	scripts := w.scripts()
	setup := []upd{w.step(100, w.b, 0, 3)} // populates the table with another log's row
	if strings.HasPrefix(scripts[4].name, "two_logs") {
		// two_logs starts log b itself; in the populated state it continues from size 3
	}

	// (1) driver-operation boundaries
	var points []point
	for _, sc := range scripts {
		for _, pop := range []bool{false, true} {
			if pop && sc.name == "two_logs" {
				continue
			}
			db := filepath.Join(dir, fmt.Sprintf("dry-%s-%v.db", sc.name, pop))
			if pop {
				if _, _, err, out := w.child(dir, db, setup, -1, "", false, nil); err != nil {
					run.Inconclusive("setup child failed: " + err.Error() + string(out))
					return
				}
			}
			_, opsPath, err, out := w.child(dir, db, sc.ups, -1, "", true, nil)
			if err != nil {
				run.Inconclusive("dry run failed: " + err.Error() + string(out))
				return
			}
			var ops []string
			ob, _ := os.ReadFile(opsPath)
			_ = json.Unmarshal(ob, &ops)
			for i, op := range ops {
				for _, ph := range []string{"before", "after"} {
					points = append(points, point{sc, pop, i, ph, op})
				}
			}
			run.Sample(map[string]any{"script": sc.name, "populated": pop, "driver_operations": ops})
		}
	}
	run.Units("driver", len(points), 0, func(unit int64, _ *rand.Rand) {
		p := points[unit]
		db := filepath.Join(dir, fmt.Sprintf("d-%d.db", unit))
		pre := map[string]string{}
		if p.populated {
			ackp, _, err, out := w.child(dir, db, setup, -1, "", false, nil)
			if err != nil {
				run.Inconclusive("setup child failed: " + err.Error() + string(out))
				return
			}
			pre[w.b.ID] = readAcks(ackp).ack[100]
		}
		ackp, _, err, out := w.child(dir, db, p.sc.ups, p.idx, p.phase, false, nil)
		a := readAcks(ackp)
		what := fmt.Sprintf("%s/populated=%v", p.sc.name, p.populated)
		detail := map[string]any{"script": p.sc.name, "populated": p.populated, "kill_at_op": p.idx, "op": p.op, "phase": p.phase, "acks": a.order, "child_exit": fmt.Sprint(err), "child_out": string(out)}
		if ee, ok := err.(*exec.ExitError); !ok || !ee.Sys().(syscall.WaitStatus).Signaled() {
			run.Inconclusive(fmt.Sprintf("child was not killed at %s@%d/%s: %v %s", p.op, p.idx, p.phase, err, out))
			return
		}
		run.Count("evaluations")
		run.Count("driver_points")
		run.Distinct("nontrivial", fmt.Sprintf("driver/%s/%s@%d/%s", what, p.op, p.idx, p.phase))
		w.verify(run, unit, db, p.sc.ups, a, pre, what+";op="+p.op+"/"+p.phase, detail)
		os.Remove(db)
		os.Remove(db + "-journal")
	})

	// (2) storage-syscall boundaries
	const set = "pwrite64,write,fsync,fdatasync,unlink,unlinkat,ftruncate,rename,renameat,openat"
	_ = set
	const inj = "pwrite64,fsync,fdatasync,unlink,unlinkat,ftruncate"
	type spoint struct {
		sc script
		n  int
	}
	var sp []spoint
	for _, sc := range scripts {
		db := filepath.Join(dir, "sdry-"+sc.name+".db")
		tr := filepath.Join(dir, "trace-"+sc.name)
		_, _, err, out := w.child(dir, db, sc.ups, -1, "", false, []string{"strace", "-f", "-o", tr, "-e", "trace=" + inj})
		if err != nil {
			run.Inconclusive("traced dry run failed: " + err.Error() + string(out))
			return
		}
		tb, _ := os.ReadFile(tr)
		// count per thread; the child's SQLite thread is the one with the most matching calls
		per := map[string]int{}
		for _, ln := range strings.Split(string(tb), "\n") {
			f := strings.Fields(ln)
			if len(f) > 1 && (strings.Contains(f[1], "(")) {
				per[f[0]]++
			}
		}
		k := 0
		for _, v := range per {
			if v > k {
				k = v
			}
		}
		if k == 0 {
			run.Inconclusive("strace saw no storage syscalls")
			return
		}
		for n := 1; n <= k; n++ {
			sp = append(sp, spoint{sc, n})
		}
		run.Extra("storage_syscalls:"+sc.name, k)
	}
	run.Units("syscall", len(sp), 0, func(unit int64, _ *rand.Rand) {
		p := sp[unit]
		db := filepath.Join(dir, fmt.Sprintf("s-%d.db", unit))
		tr := filepath.Join(dir, fmt.Sprintf("s-%d.trace", unit))
		ackp, _, err, out := w.child(dir, db, p.sc.ups, -1, "", false, []string{"strace", "-f", "-o", tr, "-e", "trace=" + inj, "-e", fmt.Sprintf("inject=%s:signal=SIGKILL:when=%d", inj, p.n)})
		a := readAcks(ackp)
		tb, _ := os.ReadFile(tr)
		lines := strings.Split(strings.TrimSpace(string(tb)), "\n")
		lastCall := ""
		for i := len(lines) - 1; i >= 0; i-- {
			if strings.Contains(lines[i], "(") && !strings.Contains(lines[i], "+++") {
				lastCall = lines[i]
				break
			}
		}
		if len(lastCall) > 100 {
			lastCall = lastCall[:100]
		}
		_, jerr := os.Stat(db + "-journal")
		detail := map[string]any{"script": p.sc.name, "kill_at_syscall": p.n, "interrupted": lastCall, "hot_journal_left": jerr == nil, "acks": a.order, "child_exit": fmt.Sprint(err), "out": string(out)}
		if a.done {
			// the N-th syscall was on another thread or not reached: nothing was killed
			run.Count("syscall_points_not_reached")
			return
		}
		run.Count("evaluations")
		run.Count("syscall_points")
		if jerr == nil {
			run.Count("hot_journal_left")
		}
		run.Distinct("nontrivial", fmt.Sprintf("syscall/%s/%d", p.sc.name, p.n))
		if unit%41 == 0 {
			run.Sample(detail)
		}
		w.verify(run, unit, db, p.sc.ups, a, map[string]string{}, p.sc.name+";syscall", detail)
		os.Remove(db)
		os.Remove(db + "-journal")
	})

	// (3) random instants
	if run.Thorough() {
		run.Exhaustive(false)
		run.Units("random", 3000, 0, func(unit int64, r *rand.Rand) {
			var ups []upd
			cur := map[*gen.Log]uint64{}
			for i := 1; i <= 200; i++ {
				l := w.u.Logs[r.IntN(2)]
				nx := cur[l] + uint64(r.IntN(3))
				if cur[l] == 0 {
					nx = 1 + uint64(r.IntN(3))
				}
				if nx > 38 {
					nx = cur[l]
				}
				ups = append(ups, w.step(i, l, cur[l], nx))
				cur[l] = nx
			}
			db := filepath.Join(dir, fmt.Sprintf("r-%d.db", unit))
			n := runN.Add(1)
			ackp := filepath.Join(dir, fmt.Sprintf("ack-%d", n))
			sp := filepath.Join(dir, fmt.Sprintf("script-%d.json", n))
			cfg := map[string]any{"DB": db, "Ack": ackp, "Logs": w.cfg["Logs"], "Skeys": w.cfg["Skeys"], "KillAt": -1}
			var us []map[string]any
			for _, u := range ups {
				us = append(us, map[string]any{"ID": u.ID, "LogID": u.LogID, "Old": u.Old, "CP": u.CP, "Proof": u.Proof})
			}
			cfg["Updates"] = us
			b, _ := json.Marshal(cfg)
			_ = os.WriteFile(sp, b, 0o644)
			cmd := exec.Command(os.Getenv("VERIF_BIN_C06CHILD"), sp)
			if err := cmd.Start(); err != nil {
				run.Inconclusive(err.Error())
				return
			}
			want := r.IntN(150)
			spin := r.IntN(3000)
			for i := 0; i < 20000; i++ {
				if len(readAcks(ackp).order) >= want {
					break
				}
				time.Sleep(200 * time.Microsecond)
			}
			for i := 0; i < spin; i++ {
				_ = sha256.Sum256([]byte{byte(i)})
			}
			_ = cmd.Process.Kill()
			_ = cmd.Wait()
			a := readAcks(ackp)
			run.Count("evaluations")
			run.Count("random_instant_kills")
			run.Distinct("nontrivial", fmt.Sprintf("random/%d", len(a.order)))
			w.verify(run, unit, db, ups, a, map[string]string{}, "random_instant", map[string]any{"acks_before_kill": len(a.order)})
			os.Remove(db)
			os.Remove(db + "-journal")
			os.Remove(sp)
			os.Remove(ackp)
		})
	}
	_ = bytes.Equal
}
