package main

import (
	"context"
	"fmt"
	"math/rand/v2"
	"path/filepath"
	"sync"
	"time"

	psql "github.com/transparency-dev/witness/internal/persistence/sql"
	"github.com/transparency-dev/witness/internal/verif/kit/ev"
	"github.com/transparency-dev/witness/internal/verif/kit/gen"
	"github.com/transparency-dev/witness/internal/verif/kit/seams"
	"github.com/transparency-dev/witness/internal/verif/kit/wit"
)

// ackCommit is generator 5: "acknowledged means committed" while requests of several logs overlap.
// A kill can only keep what has been committed, so an update whose success was reported before its
// transaction committed is lost by a kill at that instant - whatever the instant. Instead of hoping for a
// kill to land there, this generator makes the overlap certain and looks from outside:
// a real Witness runs on a SQLite file through the wrapping driver (production pool of one); every INSERT
// is delayed by 15 ms inside the driver; updates for 2-3 different logs are started 4 ms apart; the moment
// an Update returns success, an independent handle on the same file (the repository's own persistence layer,
// as a restarted process would open it) must see exactly that checkpoint.
func ackCommit(run *ev.Run, dir string) {
	run.Floor("acks_checked_while_other_updates_in_flight", 40)
	run.Units("ackcommit", run.Pick(12, 120), 12, func(unit int64, r *rand.Rand) {
		u := gen.NewUniverse(r, gen.Opts{NLogs: 2 + r.IntN(2), MaxSize: 60, Branches: 1, Unique: true})
		path := filepath.Join(dir, fmt.Sprintf("ackcommit-%d.db", unit))
		plan := &seams.SQLPlan{}
		db := seams.OpenVSQLite(path, plan)
		st := &wit.Store{Kind: "sqlfile", P: psql.NewPersistence(db), DB: db, Path: path}
		defer st.Close()
		keys, _ := wit.NewWitKeys(r, []bool{false, true}, true)
		rn, err := wit.NewRunner(u, keys, st, nil)
		if err != nil {
			run.Inconclusive(err.Error())
			return
		}
		plan.SetHook(func(op string, idx int, phase string) error {
			if op == seams.SQLExec && phase == "before" {
				time.Sleep(15 * time.Millisecond)
			}
			return nil
		})
		cur := map[*gen.Log]uint64{}
		for round := 0; round < 4; round++ {
			var wg sync.WaitGroup
			var vmu sync.Mutex
			for i, l := range u.Logs {
				wg.Add(1)
				go func(i int, l *gen.Log) {
					defer wg.Done()
					time.Sleep(time.Duration(4*i) * time.Millisecond)
					c := cur[l]
					nx := c + 1 + uint64(round%2)
					cp := l.Honest(0, nx)
					ret, err := rn.W.Update(context.Background(), l.ID, c, cp, l.Branches[0].Consistency(c, nx))
					if err != nil {
						run.Count("ackcommit_update_errors") // contention may refuse it; nothing acknowledged then
						return
					}
					seen, ok := independentRead(path, l.ID)
					vmu.Lock()
					defer vmu.Unlock()
					cur[l] = nx
					run.Count("evaluations")
					if !ok {
						run.Count("independent_read_failed")
						return
					}
					run.Count("acks_checked_while_other_updates_in_flight")
					if string(seen) != string(ret) {
						run.Violate("acknowledged_before_commit;overlapping_requests", fmt.Sprintf("Update for log %d (%d->%d) returned success while requests of other logs were in flight, but an independent connection to the file does not see the checkpoint it returned: a kill at this instant loses an acknowledged update", i, c, nx), unit, map[string]any{"returned": string(ret), "seen_by_independent_connection": string(seen), "logs": len(u.Logs), "round": round})
					}
				}(i, l)
			}
			wg.Wait()
		}
		run.Distinct("nontrivial", fmt.Sprintf("ackcommit/logs=%d", len(u.Logs)))
	})
}
