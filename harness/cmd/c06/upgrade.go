package main

import (
	"bytes"
	"context"
	"database/sql"
	"encoding/base64"
	"encoding/json"
	"fmt"
	"io"
	"os"
	"path/filepath"

	f_note "github.com/transparency-dev/formats/note"
	psql "github.com/transparency-dev/witness/internal/persistence/sql"
	"github.com/transparency-dev/witness/internal/verif/kit/ev"
	"github.com/transparency-dev/witness/internal/verif/kit/refnote"
	"github.com/transparency-dev/witness/internal/verif/kit/reftree"
	"github.com/transparency-dev/witness/internal/verif/kit/wit"
	"github.com/transparency-dev/witness/internal/witness"
	"github.com/transparency-dev/witness/omniwitness"
	"golang.org/x/mod/sumdb/note"
	"gopkg.in/yaml.v3"
)

// The upgrade fixture: a SQLite file written by the PINNED build of the witness (fixtures/baseline-db/baseline.db,
// made once with VERIF_MAKE_FIXTURE on the unchanged tree and committed), holding cosigned checkpoints of two logs.
// A restart is also a restart after an upgrade: the tree under test must find what the pinned build stored,
// serve exactly those bytes, refuse a fork of them and accept the honest next step. Everything else about the
// fixture (keys, trees) is derived from the constants below.
type fixtureLog struct {
	Origin string
	Seed   byte
	Size   uint64
	Stored string // base64 of the cosigned checkpoint the pinned build stored
}

func fixtureWorld() (logs []fixtureLog, logKeys []*refnote.SignKey, trees, forks []*reftree.Tree, signers []note.Signer) {
	logs = []fixtureLog{{Origin: "fixture.example/log/one", Seed: 11, Size: 5}, {Origin: "fixture.example/log two - 2026", Seed: 12, Size: 9}}
	for _, l := range logs {
		var s [32]byte
		s[0] = l.Seed
		logKeys = append(logKeys, refnote.NewSignKey("fixturelog.example", s))
		trees = append(trees, &reftree.Tree{Seed: uint64(l.Seed) * 7919, TagA: 1, TagB: 1, Fork: ^uint64(0)})
		forks = append(forks, &reftree.Tree{Seed: uint64(l.Seed) * 7919, TagA: 1, TagB: 2, Fork: 2})
	}
	var ws [32]byte
	ws[0] = 99
	wk := refnote.NewSignKey("fixturewitness.example", ws)
	legacy, _ := note.NewSigner(wk.Skey())
	v1, _ := f_note.NewSignerForCosignatureV1(wk.Skey())
	return logs, logKeys, trees, forks, []note.Signer{legacy, v1}
}

func fixtureWitness(dbPath string, logs []fixtureLog, keys []*refnote.SignKey, signers []note.Signer) (*witness.Witness, *sql.DB, error) {
	y := "Logs:\n"
	for i, l := range logs {
		o, _ := json.Marshal(l.Origin)
		y += fmt.Sprintf("  - Origin: %s\n    URL: http://unused.invalid/\n    PublicKey: %s\n    Feeder: none\n", o, keys[i].Vkey())
	}
	var cfg omniwitness.LogConfig
	if err := yaml.Unmarshal([]byte(y), &cfg); err != nil {
		return nil, nil, err
	}
	m, err := cfg.AsLogMap()
	if err != nil {
		return nil, nil, err
	}
	db, err := sql.Open("sqlite3", dbPath)
	if err != nil {
		return nil, nil, err
	}
	db.SetMaxOpenConns(1)
	wit.EnsureMetrics(nil)
	w, err := witness.New(witness.Opts{Persistence: psql.NewPersistence(db), Signers: signers, KnownLogs: m})
	if err != nil {
		db.Close()
		return nil, nil, err
	}
	return w, db, nil
}

func cpOf(origin string, k *refnote.SignKey, t *reftree.Tree, n uint64) []byte {
	rt := t.Root(n)
	text := refnote.Body(origin, n, rt[:])
	return refnote.Assemble(text, k.SigLine(text))
}

// makeFixture writes the fixture with whatever tree the harness was built from (run it on the pinned tree only).
func makeFixture(dir string) error {
	logs, keys, trees, _, signers := fixtureWorld()
	_ = os.MkdirAll(dir, 0o755)
	dbPath := filepath.Join(dir, "baseline.db")
	_ = os.Remove(dbPath)
	w, db, err := fixtureWitness(dbPath, logs, keys, signers)
	if err != nil {
		return err
	}
	defer db.Close()
	for i := range logs {
		half := logs[i].Size / 2
		if _, err := w.Update(context.Background(), refnote.LogID(logs[i].Origin), 0, cpOf(logs[i].Origin, keys[i], trees[i], half), nil); err != nil {
			return err
		}
		ret, err := w.Update(context.Background(), refnote.LogID(logs[i].Origin), half, cpOf(logs[i].Origin, keys[i], trees[i], logs[i].Size), trees[i].Consistency(half, logs[i].Size))
		if err != nil {
			return err
		}
		logs[i].Stored = base64.StdEncoding.EncodeToString(ret)
	}
	b, _ := json.MarshalIndent(logs, "", " ")
	return os.WriteFile(filepath.Join(dir, "fixture.json"), b, 0o644)
}

func upgrade(run *ev.Run, scratch string) {
	dir := filepath.Join(os.Getenv("VERIF_DIR"), "fixtures", "baseline-db")
	raw, err := os.ReadFile(filepath.Join(dir, "fixture.json"))
	if err != nil {
		run.Inconclusive("upgrade fixture missing: " + err.Error())
		return
	}
	var stored []fixtureLog
	if json.Unmarshal(raw, &stored) != nil {
		run.Inconclusive("upgrade fixture unreadable")
		return
	}
	logs, keys, trees, forks, signers := fixtureWorld()
	dbPath := filepath.Join(scratch, "upgrade.db")
	src, err := os.Open(filepath.Join(dir, "baseline.db"))
	if err != nil {
		run.Inconclusive(err.Error())
		return
	}
	dst, _ := os.Create(dbPath)
	_, _ = io.Copy(dst, src)
	src.Close()
	dst.Close()
	w, db, err := fixtureWitness(dbPath, logs, keys, signers)
	if err != nil {
		run.Violate("upgrade;witness_does_not_start_on_the_pinned_builds_database", "the tree under test cannot open a database written by the pinned build: "+err.Error(), -1, nil)
		return
	}
	for i, l := range logs {
		id := refnote.LogID(l.Origin)
		want, _ := base64.StdEncoding.DecodeString(stored[i].Stored)
		run.Count("evaluations")
		run.Count("upgrade_logs_checked")
		got, gerr := w.GetCheckpoint(id)
		if gerr != nil || !bytes.Equal(got, want) {
			run.Violate("upgrade;stored_checkpoint_not_found", fmt.Sprintf("a database written by the pinned build holds a cosigned checkpoint of size %d for %q; the tree under test reads err=%v and %d bytes", l.Size, l.Origin, gerr, len(got)), int64(i), map[string]any{"want": string(want), "got": string(got)})
			continue
		}
		if _, err := w.Update(context.Background(), id, 0, cpOf(l.Origin, keys[i], forks[i], l.Size), nil); err == nil {
			run.Violate("upgrade;fork_accepted_as_first_use", fmt.Sprintf("the pinned build had cosigned size %d of %q; the tree under test, started on that database, cosigned a fork of it submitted as a first checkpoint", l.Size, l.Origin), int64(i), nil)
			continue
		}
		if _, err := w.Update(context.Background(), id, l.Size, cpOf(l.Origin, keys[i], forks[i], l.Size+3), forks[i].Consistency(l.Size, l.Size+3)); err == nil {
			run.Violate("upgrade;fork_accepted", fmt.Sprintf("a fork of what the pinned build had cosigned for %q was accepted", l.Origin), int64(i), nil)
			continue
		}
		if _, err := w.Update(context.Background(), id, l.Size, cpOf(l.Origin, keys[i], trees[i], l.Size+4), trees[i].Consistency(l.Size, l.Size+4)); err != nil {
			run.Violate("upgrade;honest_step_refused", fmt.Sprintf("the honest next step from what the pinned build had cosigned for %q is refused: %v", l.Origin, err), int64(i), nil)
		}
	}
	run.Distinct("nontrivial", "upgrade/baseline-db")
	// two more lives on the upgraded file: whatever start-up does to a database of the pinned build (a
	// migration, an import) must be done once - the progress made since must survive every later start
	for life := 2; life <= 3; life++ {
		db.Close()
		w, db, err = fixtureWitness(dbPath, logs, keys, signers)
		if err != nil {
			run.Violate("upgrade;witness_does_not_restart_on_the_upgraded_database", err.Error(), -1, nil)
			return
		}
		for i, l := range logs {
			id := refnote.LogID(l.Origin)
			cur := l.Size + 4*uint64(life-1)
			run.Count("evaluations")
			run.Count("upgrade_restart_reads")
			got, gerr := w.GetCheckpoint(id)
			var size uint64 = ^uint64(0)
			if n, perr := refnote.Parse(got); perr == nil {
				if cp, perr := refnote.ParseCheckpoint(n.Text); perr == nil {
					size = cp.Size
				}
			}
			if gerr != nil || size != cur {
				run.Violate("upgrade;progress_lost_across_restart", fmt.Sprintf("life %d on a database first written by the pinned build: %q had been advanced to size %d in the previous life; after the restart the witness holds err=%v size=%d", life, l.Origin, cur, gerr, size), int64(i), map[string]any{"got": string(got)})
				continue
			}
			if _, err := w.Update(context.Background(), id, l.Size, cpOf(l.Origin, keys[i], forks[i], l.Size+3), forks[i].Consistency(l.Size, l.Size+3)); err == nil {
				run.Violate("upgrade;fork_from_the_pinned_builds_size_accepted_after_restart", fmt.Sprintf("life %d: a fork of %q starting at the size the pinned build had left (%d) was accepted although the witness had advanced to %d", life, l.Origin, l.Size, cur), int64(i), nil)
				continue
			}
			if _, err := w.Update(context.Background(), id, cur, cpOf(l.Origin, keys[i], trees[i], cur+4), trees[i].Consistency(cur, cur+4)); err != nil {
				run.Violate("upgrade;honest_step_refused", fmt.Sprintf("life %d: honest step %d->%d of %q refused: %v", life, cur, cur+4, l.Origin, err), int64(i), nil)
			}
		}
	}
	db.Close()
}
