// C09: each update is answered by the first matching rule of the witness protocol.
//
// The small scope is enumerated exhaustively: every (stored, submitted, old)
// size triple in 0..N cubed (plus "nothing stored"), on the same branch and on
// two kinds of fork, with every proof variant; each cell runs on a fresh real
// witness brought to `stored` by a real update. The reference model
// (kit/refwitness, proof verdict from kit/reftree) predicts the verdict class,
// the sentinel error and the returned bytes.
package main

import (
	"bytes"
	"context"
	"errors"
	"fmt"
	"math/rand/v2"

	"github.com/transparency-dev/witness/internal/verif/kit/ev"
	"github.com/transparency-dev/witness/internal/verif/kit/gen"
	"github.com/transparency-dev/witness/internal/verif/kit/refnote"
	"github.com/transparency-dev/witness/internal/verif/kit/reftree"
	"github.com/transparency-dev/witness/internal/verif/kit/refwitness"
	"github.com/transparency-dev/witness/internal/verif/kit/wit"
	"github.com/transparency-dev/witness/internal/verif/kit/xcheck"
	"github.com/transparency-dev/witness/internal/witness"
)

var sentinel = map[refwitness.Class]error{
	refwitness.UnknownLog:   witness.ErrUnknownLog,
	refwitness.BadSignature: witness.ErrNoValidSignature,
	refwitness.OldTooLarge:  witness.ErrOldSizeInvalid,
	refwitness.Stale:        witness.ErrCheckpointStale,
	refwitness.RootMismatch: witness.ErrRootMismatch,
	refwitness.BadProof:     witness.ErrInvalidProof,
}

var allSentinels = map[string]error{"ErrUnknownLog": witness.ErrUnknownLog, "ErrNoValidSignature": witness.ErrNoValidSignature, "ErrOldSizeInvalid": witness.ErrOldSizeInvalid, "ErrCheckpointStale": witness.ErrCheckpointStale, "ErrRootMismatch": witness.ErrRootMismatch, "ErrInvalidProof": witness.ErrInvalidProof}

func errName(err error) string {
	if err == nil {
		return "accepted"
	}
	for n, e := range allSentinels {
		if errors.Is(err, e) {
			return n
		}
	}
	return "anonymous_error"
}

var proofKinds = []string{"empty", "correct", "stored+1", "stored-1", "submitted+1", "submitted-1", "flip_first", "drop_last", "append_extra", "random"}
var cpKinds = []string{"honest", "wrong_key", "unknown_id", "wrong_origin"}

func main() {
	run := ev.Start("C09", "exploration")
	defer run.Finish()
	N := uint64(run.Pick(12, 17))
	run.Rule(fmt.Sprintf("exhaustive part: every cell (stored in {nothing,0..%d}) x (submitted in 0..%d) x (old in 0..%d + {2^63, 2^64-1}) x {same branch, fork below stored, fork exactly at stored} x 10 proof variants, plus unknown-ID / wrong-key / wrong-origin checkpoints per size triple; each on a fresh real witness brought to `stored` by a real update; random part: hostile histories on region trees with sizes to 2^63 and old sizes to 2^64-1. evaluations = judged requests; nontrivial = distinct (stored, submitted, old, branch relation, proof variant, checkpoint kind) cells whose predicted class is not a plain accept", N, N, N))
	run.Assume("verdict classes and their order as listed in the property statement; proof verdict from kit/reftree (RFC 9162 2.1.4.2), cross-checked against x/mod tlog.CheckTree at start-up", "cells the statement excludes (first use with non-zero old size or non-empty proof; stored 0 < submitted) are executed but not judged")
	if err := xcheck.SelfCheck(uint64(run.Seed), 300); err != nil {
		run.Inconclusive("reference verifiers disagree: " + err.Error())
		return
	}
	for c := refwitness.UnknownLog; c <= refwitness.Accept; c++ {
		run.Floor("class:"+c.String(), 100)
	}
	type job struct {
		stored int // -1 = nothing
		sub    uint64
	}
	var jobs []job
	for s := -1; s <= int(N); s++ {
		for b := uint64(0); b <= N; b++ {
			jobs = append(jobs, job{s, b})
		}
	}
	run.Exhaustive(true)
	run.Units("cells", len(jobs), 0, func(unit int64, r *rand.Rand) {
		j := jobs[unit]
		storeKind := "mem"
		if run.Thorough() && unit%2 == 1 {
			storeKind = "sqlmem"
		}
		cells(run, unit, r, j.stored, j.sub, N, storeKind)
	})
	// random cells on region trees, huge sizes
	dir := run.Scratch()
	run.Units("random", run.Pick(300, 3000), 0, func(unit int64, r *rand.Rand) {
		o := wit.HistOpts{Gen: gen.Opts{NLogs: 1 + r.IntN(3), Big: true, BigBits: 63, Branches: 3, ShareKeys: true, SameKeyNames: true}, MinSteps: 15, MaxSteps: 25, Dir: dir}
		if unit%3 == 1 {
			// requests that fail in storage are not judged, but every later request is judged against what the
			// store really holds: state kept beside the store must not survive a failed write
			o.FaultProb, o.DriverFaults = 0.1, true
		}
		h, err := wit.RunHistory(r, o, func(h *wit.Hist, s *wit.Step, i int) {
			if s.Ambiguous {
				// a storage fault may turn any verdict into a storage error, never a refusal into an acceptance
				reqOpen := s.Req.Ambiguous || (s.Authentic && (s.Req.CPKind == "mutated" || s.Req.CPKind == "garbage")) // acceptability left open by the statements
				if h.FaultFired != "" && !reqOpen && s.Err == nil && !s.OutClaim && !s.Class.Accepted() {
					run.Count("evaluations")
					run.Violate(fmt.Sprintf("accepted_under_storage_fault_but_model_refuses;model=%s", s.Class), fmt.Sprintf("with one injected storage fault (%s) a request whose first matching rule is %s was accepted", h.FaultFired, s.Class), unit, map[string]any{"store": h.Kind, "request": s.Req.String(), "fault": h.FaultFired, "stored_before": string(s.Before.CP[s.Req.LogID]), "returned": string(s.Ret), "trace": h.Trace})
					return
				}
				run.Count("requests_under_a_storage_fault_judged_for_acceptance_only")
				return
			}
			judge(run, unit, s, "random", h.Kind, h.Trace)
		})
		h.Close()
		if err != nil {
			run.Inconclusive(err.Error())
		}
	})
}

func cells(run *ev.Run, unit int64, r *rand.Rand, stored int, sub uint64, N uint64, storeKind string) {
	u := gen.NewUniverse(r, gen.Opts{NLogs: 2, MaxSize: N + 2, Branches: 3})
	l := u.Logs[0]
	// branch 1 forks strictly below stored (shares a shorter prefix), branch 2 exactly at stored
	sv := uint64(0)
	if stored > 0 {
		sv = uint64(stored)
	}
	l.ReplaceBranch(1, &reftree.Tree{Seed: l.Branches[0].Seed, TagA: 1, TagB: 7, Fork: sv / 2})
	l.ReplaceBranch(2, &reftree.Tree{Seed: l.Branches[0].Seed, TagA: 1, TagB: 8, Fork: sv})
	keys, _ := wit.NewWitKeys(r, []bool{false, true}, true)
	olds := []uint64{}
	for o := uint64(0); o <= N; o++ {
		olds = append(olds, o)
	}
	olds = append(olds, 1<<63, ^uint64(0))
	for _, old := range olds {
		for br := 0; br < 3; br++ {
			for _, pk := range proofKinds {
				for _, ck := range cpKinds {
					if ck != "honest" && (pk != "correct" || br != 0) {
						continue
					}
					st, _ := wit.NewStore(storeKind, "")
					rn, err := wit.NewRunner(u, keys, st, nil)
					if err != nil {
						run.Inconclusive(err.Error())
						st.Close()
						return
					}
					if stored >= 0 {
						if _, err := rn.W.Update(context.Background(), l.ID, 0, l.Honest(0, sv), nil); err != nil {
							run.Inconclusive("could not bring the witness to the stored size: " + err.Error())
							st.Close()
							return
						}
						rn.Model[l.ID] = refwitness.LogState{Has: true, Size: sv, Root: l.Root(0, sv)}
					}
					q := &gen.Request{Log: l, LogID: l.ID, OldSize: old, OldKind: fmt.Sprint(old), CPKind: ck, ProofKind: pk, Branch: br, Size: sub, Tree: true}
					text := refnote.Body(l.Origin, sub, l.Root(br, sub))
					switch ck {
					case "honest":
						q.CP = refnote.Assemble(text, l.Key.SigLine(text))
					case "wrong_key":
						q.CP = refnote.Assemble(text, u.Foreign[0].SigLine(text))
					case "unknown_id":
						q.CP = refnote.Assemble(text, l.Key.SigLine(text))
						q.LogID = l.ID + "00"
					case "wrong_origin":
						t2 := refnote.Body(u.Logs[1].Origin, sub, l.Root(br, sub))
						q.CP = refnote.Assemble(t2, l.Key.SigLine(t2))
					}
					q.Proof = proofFor(r, l.Branches[br], sv, sub, pk)
					s := rn.Do(q, nil)
					judge(run, unit, s, fmt.Sprintf("stored=%d sub=%d old=%d br=%d proof=%s cp=%s", stored, sub, old, br, pk, ck), storeKind, nil)
					st.Close()
				}
			}
		}
	}
}

func proofFor(r *rand.Rand, t *reftree.Tree, stored, sub uint64, kind string) [][]byte {
	c := func(m, n uint64) [][]byte { return t.Consistency(m, n) }
	correct := c(stored, sub)
	cl := func(p [][]byte) [][]byte {
		o := make([][]byte, len(p))
		for i := range p {
			o[i] = append([]byte{}, p[i]...)
		}
		return o
	}
	rh := func() []byte {
		h := make([]byte, 32)
		for i := range h {
			h[i] = byte(r.Uint32())
		}
		return h
	}
	switch kind {
	case "empty":
		return [][]byte{}
	case "correct":
		return correct
	case "stored+1":
		return c(stored+1, sub)
	case "stored-1":
		if stored > 0 {
			return c(stored-1, sub)
		}
	case "submitted+1":
		return c(stored, sub+1)
	case "submitted-1":
		if sub > 0 {
			return c(stored, sub-1)
		}
	case "flip_first":
		p := cl(correct)
		if len(p) > 0 {
			p[0][0] ^= 0x80
			return p
		}
		return [][]byte{rh()}
	case "drop_last":
		if len(correct) > 0 {
			return correct[:len(correct)-1]
		}
		return [][]byte{rh(), rh()}
	case "append_extra":
		return append(cl(correct), rh())
	case "random":
		p := [][]byte{}
		for i := 0; i <= len(correct); i++ {
			p = append(p, rh())
		}
		return p
	}
	return correct
}

func judge(run *ev.Run, unit int64, s *wit.Step, cell, storeKind string, trace []string) {
	if s.OutClaim {
		run.Count("out_of_claim_executed")
		return
	}
	run.Count("evaluations")
	run.Count("class:" + s.Class.String())
	q := s.Req
	if s.Class != refwitness.Accept && s.Class != refwitness.AcceptFirst {
		run.Distinct("nontrivial", cell+"/"+fmt.Sprint(s.Pre.Size, q.Size, q.OldKind, q.ProofKind, q.CPKind, s.Class))
	}
	got := errName(s.Err)
	detail := map[string]any{"cell": cell, "store": storeKind, "request": q.String(), "cp": string(q.CP), "proof_hashes": len(q.Proof), "model_class": s.Class.String(), "got": got, "err": fmt.Sprint(s.Err), "returned": string(s.Ret), "stored_before": string(s.Before.CP[q.LogID]), "trace": trace}
	pre := "stored"
	if !s.Pre.Has {
		pre = "nothing"
	} else if s.Pre.Size == 0 {
		pre = "stored0"
	}
	key := func(k string) string {
		return fmt.Sprintf("%s;model=%s;got=%s;pre=%s", k, s.Class, got, pre)
	}
	if s.Class.Accepted() {
		if s.Err != nil {
			run.Violate(key("refused_but_model_accepts"), fmt.Sprintf("%s: the rule list accepts this request, the witness answered %v", cell, s.Err), unit, detail)
		}
		return
	}
	want := sentinel[s.Class]
	if s.Err == nil {
		run.Violate(key("accepted_but_model_refuses"), fmt.Sprintf("%s: first matching rule is %s, the witness accepted", cell, s.Class), unit, detail)
		return
	}
	if !errors.Is(s.Err, want) {
		run.Violate(key("wrong_verdict"), fmt.Sprintf("%s: first matching rule is %s, the witness answered %q", cell, s.Class, s.Err), unit, detail)
		return
	}
	if s.Class.ReturnsStored() {
		if prev := s.Before.CP[q.LogID]; prev == nil || !bytes.Equal(prev, s.Ret) {
			run.Violate(key("refusal_without_stored_checkpoint"), fmt.Sprintf("%s: refusal %s must carry the current cosigned checkpoint; got %d bytes", cell, s.Class, len(s.Ret)), unit, detail)
		}
	} else if s.Ret != nil {
		run.Violate(key("pre_storage_refusal_with_bytes"), fmt.Sprintf("%s: refusal %s returned bytes", cell, s.Class), unit, detail)
	}
	if q.ProofKind == "stored+1" && q.Branch == 2 && s.Pre.Size > 2 {
		run.Sample(map[string]any{"cell": cell, "model": s.Class.String(), "got": got})
	}
}
