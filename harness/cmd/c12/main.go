// C12: logs are isolated and every component agrees on a log's identity.
package main

import (
	"bytes"
	"context"
	"crypto/ed25519"
	crand "crypto/rand"
	"encoding/json"
	"fmt"
	"io"
	"math/rand/v2"
	"net"
	"net/http"
	"net/http/httptest"
	"os"
	"sort"
	"strings"
	"sync"
	"sync/atomic"
	"time"

	"github.com/gorilla/mux"
	"github.com/transparency-dev/witness/internal/config"
	"github.com/transparency-dev/witness/internal/distribute/rest"
	"github.com/transparency-dev/witness/internal/feeder/bastion"
	"github.com/transparency-dev/witness/internal/feeder/tiles"
	ihttp "github.com/transparency-dev/witness/internal/http"
	"github.com/transparency-dev/witness/internal/persistence/inmemory"
	"github.com/transparency-dev/witness/internal/verif/kit/asmunits"
	"github.com/transparency-dev/witness/internal/verif/kit/ev"
	"github.com/transparency-dev/witness/internal/verif/kit/gen"
	"github.com/transparency-dev/witness/internal/verif/kit/refnote"
	"github.com/transparency-dev/witness/internal/verif/kit/wit"
	"github.com/transparency-dev/witness/internal/witness"
	"github.com/transparency-dev/witness/omniwitness"
	"golang.org/x/mod/sumdb/note"
	"gopkg.in/yaml.v3"
)

func main() {
	run := ev.Start("C12", "exploration")
	defer run.Finish()
	run.Rule("isolation: per-log hostile histories are generated while each log runs alone on a fresh witness (verdicts and final checkpoint recorded), then the same request lists are replayed in a PRNG interleaving on one shared witness; per log the verdict sequence and final stored bytes must be identical (legacy keys: byte equality; cosignature/v1: equality after removing timestamped lines), and after every step every stored checkpoint's first line must be the origin configured for the ID it is stored under. identity: from one generated YAML configuration the ID is observed at LogConfig.AsLogMap, config.NewLog, the bastion handler (recording witness), the distributor PUT path, the HTTP read API and a feeder's witness calls; duplicates must make omniwitness.Main fail before serving. evaluations = requests replayed + identity observations; nontrivial = distinct (part, logs, shared keys, store, origin shape)")
	run.Assume("legacy Ed25519 witness signatures are deterministic, so identical histories give identical bytes")
	run.Floor("interleaved_requests", 20000)
	run.Floor("identity_origins", 120)
	run.Floor("duplicate_configs_refused", 30)
	run.Floor("main_started_without_duplicates", 5)
	dir := run.Scratch()
	// isolation through the assembled service: another log republishes its size with another root
	run.Floor("assembled_progress_episodes", 5)
	run.Units("asm_isolation", run.Pick(6, 48), 6, func(unit int64, r *rand.Rand) {
		asmunits.Progress(run, unit, r, "other_log_forks_same_size")
	})
	run.Units("isolation", run.Pick(1000, 25000), 0, func(unit int64, r *rand.Rand) { isolation(run, unit, r, dir) })
	run.Units("identity", run.Pick(60, 600), 0, func(unit int64, r *rand.Rand) { identity(run, unit, r) })
	run.Floor("assembled_distributor_puts", 60)
	run.Units("assembled", run.Pick(20, 120), 4, func(unit int64, r *rand.Rand) { assembled(run, unit, r) })
	run.Units("duplicates", run.Pick(48, 300), 4, func(unit int64, r *rand.Rand) { duplicates(run, unit, r) })
}

type rec struct {
	q   *gen.Request
	err string
	ret []byte
}

func stripTimestamped(raw []byte, keys *wit.WitKeys) string {
	n, err := refnote.Parse(raw)
	if err != nil {
		return string(raw)
	}
	out := n.Text + "\n"
	for _, s := range n.Sigs {
		ts := false
		for _, k := range keys.Keys {
			if k.CosigV1 && k.Name == s.Name && k.Hash == s.Hash {
				ts = true
			}
		}
		if !ts {
			out += s.Line + "\n"
		}
	}
	return out
}

func isolation(run *ev.Run, unit int64, r *rand.Rand, dir string) {
	u := gen.NewUniverse(r, gen.Opts{NLogs: 2 + r.IntN(4), MaxSize: 30, Branches: 2, ShareKeys: true})
	v1 := unit%3 == 2
	keys, _ := wit.NewWitKeys(r, []bool{v1}, false)
	kind := wit.DrawStore(r)
	hist := map[int][]rec{}
	final := map[int][]byte{}
	// each log alone
	for _, l := range u.Logs {
		st, err := wit.NewStore(kind, dir)
		if err != nil {
			run.Inconclusive(err.Error())
			return
		}
		rn, err := wit.NewRunner(u, keys, st, nil)
		if err != nil {
			run.Inconclusive(err.Error())
			st.Close()
			return
		}
		snap := rn.Snap()
		for i, n := 0, 8+r.IntN(25); i < n; i++ {
			q := u.Next(r, l, rn.View(l, snap), rn.Sess[l.Idx])
			if q.CPKind == "honest_resubmit_cosigned" && v1 {
				continue // carries a timestamped line of the alone run; bytes would legitimately differ
			}
			s := rn.Do(q, snap)
			snap = s.After
			hist[l.Idx] = append(hist[l.Idx], rec{q: q, err: fmt.Sprint(s.Err), ret: s.Ret})
			// alone run: no other log's state may appear
			for _, o := range u.Logs {
				if o != l && s.After.CP[o.ID] != nil {
					run.Violate("alone_run_touched_other_log", "requests naming one log created state for another", unit, map[string]any{"request": q.String()})
				}
			}
		}
		final[l.Idx] = snap.CP[l.ID]
		st.Close()
	}
	// interleaved
	st, err := wit.NewStore(kind, dir)
	if err != nil {
		run.Inconclusive(err.Error())
		return
	}
	defer st.Close()
	rn, err := wit.NewRunner(u, keys, st, nil)
	if err != nil {
		run.Inconclusive(err.Error())
		return
	}
	pos := map[int]int{}
	remaining := 0
	for _, h := range hist {
		remaining += len(h)
	}
	var trace []string
	for remaining > 0 {
		l := u.Logs[r.IntN(len(u.Logs))]
		if pos[l.Idx] >= len(hist[l.Idx]) {
			continue
		}
		rc := hist[l.Idx][pos[l.Idx]]
		pos[l.Idx]++
		remaining--
		ret, err := rn.W.Update(context.Background(), rc.q.LogID, rc.q.OldSize, rc.q.CP, rc.q.Proof)
		run.Count("evaluations")
		run.Count("interleaved_requests")
		trace = append(trace, fmt.Sprintf("log %d #%d: %s -> %v", l.Idx, pos[l.Idx]-1, rc.q, err))
		if len(trace) > 60 {
			trace = trace[1:]
		}
		same := fmt.Sprint(err) == rc.err
		if same {
			if v1 {
				same = stripTimestamped(ret, keys) == stripTimestamped(rc.ret, keys) || (ret == nil && rc.ret == nil)
			} else {
				same = bytes.Equal(ret, rc.ret)
			}
		}
		if !same {
			run.Violate(fmt.Sprintf("verdict_differs_when_interleaved;cp=%s", rc.q.CPKind), fmt.Sprintf("log %d request %d: alone -> %s, interleaved -> %v (or returned bytes differ)", l.Idx, pos[l.Idx]-1, rc.err, err), unit, map[string]any{"trace": trace, "store": kind, "alone_ret": string(rc.ret), "inter_ret": string(ret)})
		}
		snap := rn.Snap()
		for _, o := range u.Logs {
			if raw := snap.CP[o.ID]; raw != nil {
				first, _, _ := strings.Cut(string(raw), "\n")
				if first != o.Origin {
					run.Violate("stored_under_wrong_id", fmt.Sprintf("ID of origin %q holds a checkpoint whose first line is %q", o.Origin, first), unit, map[string]any{"trace": trace, "store": kind})
				}
			}
		}
	}
	snap := rn.Snap()
	for _, l := range u.Logs {
		a, b := final[l.Idx], snap.CP[l.ID]
		eq := bytes.Equal(a, b)
		if v1 && a != nil && b != nil {
			eq = stripTimestamped(a, keys) == stripTimestamped(b, keys)
		}
		if !eq {
			run.Violate("final_state_differs_when_interleaved", fmt.Sprintf("log %d ends in a different state when its history is interleaved with others", l.Idx), unit, map[string]any{"trace": trace, "store": kind, "alone": string(a), "interleaved": string(b)})
		}
	}
	shared := false
	for i, l := range u.Logs {
		for _, o := range u.Logs[:i] {
			if o.Key == l.Key {
				shared = true
			}
		}
	}
	run.Distinct("nontrivial", fmt.Sprintf("iso/%d/%v/%s/%v", len(u.Logs), shared, kind, v1))
	if unit == 0 {
		run.Sample(map[string]any{"part": "isolation", "logs": len(u.Logs), "shared_key": shared, "store": kind, "trace_tail": trace[max(0, len(trace)-4):]})
	}
}

var originAlphabet = []string{"a", "Z", "0", " ", "/", ".", "-", "_", "ü", "日", "%", "?", "#", "+", ":", "é", "~"}

func drawOrigin(r *rand.Rand) (string, string) {
	n := 1 + r.IntN(200)
	shape := "mixed"
	var b strings.Builder
	switch r.IntN(5) {
	case 0:
		shape = "plain"
		for b.Len() < n {
			b.WriteByte("abcdefghijklmnopqrstuvwxyz0123456789./-"[r.IntN(39)])
		}
	case 1:
		shape = "spaces"
		b.WriteString("rekor.example - ")
		for b.Len() < n {
			b.WriteByte("0123456789 "[r.IntN(11)])
		}
	default:
		for b.Len() < n {
			b.WriteString(originAlphabet[r.IntN(len(originAlphabet))])
		}
	}
	return b.String(), shape
}

type recWitness struct {
	mu     sync.Mutex
	ids    []string
	latest map[string][]byte
}

func (w *recWitness) GetLatestCheckpoint(ctx context.Context, id string) ([]byte, error) {
	w.mu.Lock()
	defer w.mu.Unlock()
	w.ids = append(w.ids, "get:"+id)
	if cp, ok := w.latest[id]; ok {
		return cp, nil
	}
	return nil, os.ErrNotExist
}

func (w *recWitness) Update(ctx context.Context, id string, old uint64, cp []byte, p [][]byte) ([]byte, error) {
	w.mu.Lock()
	defer w.mu.Unlock()
	w.ids = append(w.ids, "update:"+id)
	return cp, nil
}

type rtFunc func(*http.Request) (*http.Response, error)

func (f rtFunc) RoundTrip(q *http.Request) (*http.Response, error) { return f(q) }

func yamlFor(logs []*gen.Log) []byte {
	var b strings.Builder
	b.WriteString("Logs:\n")
	for _, l := range logs {
		o, _ := json.Marshal(l.Origin)
		k, _ := json.Marshal(l.Key.Vkey())
		fmt.Fprintf(&b, "  - Origin: %s\n    URL: \"http://log.invalid/%d/\"\n    PublicKey: %s\n    Feeder: none\n", o, l.Idx, k)
	}
	return []byte(b.String())
}

func identity(run *ev.Run, unit int64, r *rand.Rand) {
	u := gen.NewUniverse(r, gen.Opts{NLogs: 2 + r.IntN(4), MaxSize: 8, Branches: 1, ShareKeys: true})
	shapes := map[int]string{}
	seen := map[string]bool{}
	for _, l := range u.Logs {
		for {
			l.Origin, shapes[l.Idx] = drawOrigin(r)
			if !seen[l.Origin] {
				break
			}
		}
		seen[l.Origin] = true
		l.ID = refnote.LogID(l.Origin)
	}
	var cfg omniwitness.LogConfig
	if err := yaml.Unmarshal(yamlFor(u.Logs), &cfg); err != nil {
		run.Inconclusive("generated YAML does not load: " + err.Error())
		return
	}
	if unit%3 == 0 {
		emptyOrigin(run, unit, r, u)
	}
	if unit%3 == 1 {
		missingKey(run, unit, r, u)
	}
	if unit%3 == 2 {
		reconfigured(run, unit, r, u)
	}
	m, err := cfg.AsLogMap()
	if err != nil {
		run.Violate("aslogmap_refuses_distinct_origins", "AsLogMap refused a configuration without duplicates: "+err.Error(), unit, map[string]any{"yaml": string(yamlFor(u.Logs))})
		return
	}
	// the witness map names exactly the configured origins' IDs: no second spelling, no legacy alias
	for id := range m {
		known := false
		for _, l := range u.Logs {
			if id == refnote.LogID(l.Origin) {
				known = true
			}
		}
		if !known {
			run.Violate("witness_map_has_id_of_no_configured_origin", fmt.Sprintf("the witness map built from %d configured logs has %d entries; %q is the ID of none of the configured origins", len(u.Logs), len(m), id), unit, map[string]any{"yaml": string(yamlFor(u.Logs))})
			break
		}
	}
	keys, _ := wit.NewWitKeys(r, []bool{false, true}, true)
	witV := keys.Signers[1].(interface{ Verifier() note.Verifier }).Verifier()
	wit.EnsureMetrics(nil)
	w, err := witness.New(witness.Opts{Persistence: inmemory.NewPersistence(), Signers: keys.Signers, KnownLogs: m})
	if err != nil {
		run.Inconclusive(err.Error())
		return
	}
	router := mux.NewRouter()
	ihttp.NewServer(w).RegisterHandlers(router)
	var clogs []config.Log
	for i, li := range cfg.Logs {
		cl, err := config.NewLog(li.Origin, li.PublicKey, li.URL)
		if err != nil {
			run.Inconclusive(err.Error())
			return
		}
		clogs = append(clogs, cl)
		if li.Origin != u.Logs[i].Origin {
			run.Inconclusive("YAML round trip changed an origin")
			return
		}
	}
	rw := &recWitness{latest: map[string][]byte{}}
	handler := bastion.VerifNewHandler(rw, clogs, witV, 1e9)
	for i, l := range u.Logs {
		want := refnote.LogID(l.Origin)
		ids := map[string]string{"config.NewLog": clogs[i].ID}
		if _, ok := m[want]; ok {
			ids["AsLogMap"] = want
		} else {
			ids["AsLogMap"] = "<no entry for this origin's ID>"
		}
		// the witness files the origin under the AsLogMap key: accept a checkpoint under it
		cp := l.Honest(0, 3)
		ret, err := w.Update(context.Background(), clogs[i].ID, 0, cp, nil)
		if err != nil {
			ids["witness.Update(config ID)"] = "refused: " + err.Error()
		}
		// bastion: ID derived from the body's first line, observed at the recording witness
		rw.mu.Lock()
		rw.ids = nil
		rw.mu.Unlock()
		rc := httptest.NewRecorder()
		handler.ServeHTTP(rc, httptest.NewRequest(http.MethodPost, "/", strings.NewReader("old 0\n\n"+string(cp))))
		rw.mu.Lock()
		if len(rw.ids) == 1 {
			ids["bastion"] = strings.TrimPrefix(rw.ids[0], "update:")
		} else {
			ids["bastion"] = fmt.Sprintf("<%d witness calls, status %d>", len(rw.ids), rc.Code)
		}
		rw.mu.Unlock()
		// HTTP read API
		g := httptest.NewRecorder()
		router.ServeHTTP(g, httptest.NewRequest(http.MethodGet, "/witness/v0/logs/"+want+"/checkpoint", nil))
		if g.Code == 200 && bytes.Equal(g.Body.Bytes(), ret) && ret != nil {
			ids["http_api"] = want
		} else {
			ids["http_api"] = fmt.Sprintf("<GET under the origin's ID gave %d>", g.Code)
		}
		// distributor: PUT path
		rw.mu.Lock()
		rw.latest[clogs[i].ID] = ret
		rw.mu.Unlock()
		var paths []string
		client := &http.Client{Transport: rtFunc(func(q *http.Request) (*http.Response, error) {
			paths = append(paths, q.URL.EscapedPath())
			return &http.Response{StatusCode: 200, Body: io.NopCloser(strings.NewReader("")), Request: q}, nil
		})}
		d, _ := rest.NewDistributor("http://distributor.invalid", client, clogs[i:i+1], witV, rw)
		_ = d.DistributeOnce(context.Background())
		if len(paths) == 1 {
			parts := strings.Split(paths[0], "/")
			if len(parts) > 4 {
				ids["distributor"] = parts[4]
			}
		} else {
			ids["distributor"] = fmt.Sprintf("<%d PUTs>", len(paths))
		}
		// a feeder: the ID it names when talking to the witness
		rw.mu.Lock()
		rw.ids = nil
		delete(rw.latest, clogs[i].ID)
		rw.mu.Unlock()
		fc := &http.Client{Transport: rtFunc(func(q *http.Request) (*http.Response, error) {
			if strings.HasSuffix(q.URL.Path, "/checkpoint") {
				return &http.Response{StatusCode: 200, Body: io.NopCloser(bytes.NewReader(cp)), ContentLength: int64(len(cp)), Request: q}, nil
			}
			return &http.Response{StatusCode: 404, Body: io.NopCloser(strings.NewReader("")), Request: q}, nil
		})}
		cctx, cancel := context.WithTimeout(context.Background(), 2*time.Second)
		_ = tiles.FeedLog(cctx, clogs[i], rw, fc, 0)
		cancel()
		rw.mu.Lock()
		if len(rw.ids) > 0 {
			ids["feeder"] = strings.SplitN(rw.ids[0], ":", 2)[1]
		} else {
			ids["feeder"] = "<no witness call>"
		}
		rw.mu.Unlock()
		run.Count("evaluations")
		run.Count("identity_origins")
		run.Distinct("nontrivial", fmt.Sprintf("id/%s/%d", shapes[l.Idx], len(l.Origin)/20))
		for where, id := range ids {
			if id != want {
				run.Violate("identity_mismatch;at="+where, fmt.Sprintf("origin %q: %s uses %q, the origin's ID is %q", l.Origin, where, id, want), unit, map[string]any{"ids": ids, "origin": l.Origin})
			}
		}
		if unit == 0 && i == 0 {
			run.Sample(map[string]any{"part": "identity", "origin": l.Origin, "ids": ids})
		}
	}
}

// reconfigured: one process sees two configurations for the same origin, first with key K1 (its descriptors and
// witness map are built and dropped), then with key K2 (a rotated key). The witness built from the SECOND
// configuration must verify that origin under K2 and only K2, and the component descriptor must carry K2.
func reconfigured(run *ev.Run, unit int64, r *rand.Rand, u *gen.Universe) {
	l := u.Logs[0]
	k1, k2 := l.Key, u.Foreign[0]
	mkcfg := func(k *refnote.SignKey) (omniwitness.LogConfig, string) {
		o, _ := json.Marshal(l.Origin)
		kk, _ := json.Marshal(k.Vkey())
		y := fmt.Sprintf("Logs:\n  - Origin: %s\n    URL: \"http://log.invalid/\"\n    PublicKey: %s\n    Feeder: none\n", o, kk)
		var cfg omniwitness.LogConfig
		_ = yaml.Unmarshal([]byte(y), &cfg)
		return cfg, y
	}
	cfg1, _ := mkcfg(k1)
	if _, err := cfg1.AsLogMap(); err != nil {
		return
	}
	_, _ = config.NewLog(l.Origin, k1.Vkey(), "http://log.invalid/")
	cfg2, y2 := mkcfg(k2)
	m2, err := cfg2.AsLogMap()
	if err != nil {
		run.Violate("second_configuration_refused", "a configuration giving a known origin a rotated key is refused: "+err.Error(), unit, map[string]any{"yaml": y2})
		return
	}
	run.Count("evaluations")
	run.Count("reconfigured_origins")
	cl2, err := config.NewLog(l.Origin, k2.Vkey(), "http://log.invalid/")
	if err == nil && cl2.Verifier.KeyHash() != refnote.KeyHash(k2.Name, 1, k2.Pub) {
		run.Violate("descriptor_keeps_an_earlier_configurations_key", fmt.Sprintf("config.NewLog for origin %q with the rotated key returns a descriptor whose verifier is not that key", l.Origin), unit, map[string]any{"yaml": y2})
	}
	keys, _ := wit.NewWitKeys(r, []bool{false, true}, true)
	wit.EnsureMetrics(nil)
	w, err := witness.New(witness.Opts{Persistence: inmemory.NewPersistence(), Signers: keys.Signers, KnownLogs: m2})
	if err != nil {
		run.Inconclusive(err.Error())
		return
	}
	text := refnote.Body(l.Origin, 3, l.Root(0, 3))
	if _, err := w.Update(context.Background(), l.ID, 0, refnote.Assemble(text, k1.SigLine(text)), nil); err == nil {
		run.Violate("witness_verifies_under_an_earlier_configurations_key", fmt.Sprintf("the witness built from a configuration that gives origin %q key K2 cosigned a checkpoint signed by K1, the key an earlier configuration in this process had given it", l.Origin), unit, map[string]any{"yaml": y2})
		return
	}
	if _, err := w.Update(context.Background(), l.ID, 0, refnote.Assemble(text, k2.SigLine(text)), nil); err != nil {
		run.Violate("witness_refuses_the_configured_key", fmt.Sprintf("the witness built from a configuration that gives origin %q key K2 refuses a checkpoint signed by K2: %v", l.Origin, err), unit, map[string]any{"yaml": y2})
	}
	run.Distinct("nontrivial", "id/reconfigured")
}

// missingKey: a configuration whose second entry has no PublicKey (omitted, or the field name misspelt so
// that the decoder ignores it). Either the configuration is refused, or - if a witness can be built from it -
// a checkpoint with that entry's origin signed by ANOTHER entry's key must be refused: no key was configured
// for that ID, least of all a neighbour's.
func missingKey(run *ev.Run, unit int64, r *rand.Rand, u *gen.Universe) {
	a, b := u.Logs[0], u.Logs[1]
	oa, _ := json.Marshal(a.Origin)
	ob, _ := json.Marshal(b.Origin)
	ka, _ := json.Marshal(a.Key.Vkey())
	second := fmt.Sprintf("  - Origin: %s\n    URL: \"http://log.invalid/b/\"\n    Feeder: none\n", ob)
	if r.IntN(2) == 0 {
		kb, _ := json.Marshal(b.Key.Vkey())
		second = fmt.Sprintf("  - Origin: %s\n    URL: \"http://log.invalid/b/\"\n    Publickey: %s\n    Feeder: none\n", ob, kb)
	}
	y := "Logs:\n" + fmt.Sprintf("  - Origin: %s\n    URL: \"http://log.invalid/a/\"\n    PublicKey: %s\n    Feeder: none\n", oa, ka) + second
	run.Count("evaluations")
	run.Count("configs_with_an_entry_without_key")
	var cfg omniwitness.LogConfig
	if err := yaml.Unmarshal([]byte(y), &cfg); err != nil {
		run.Count("config_without_key_refused")
		return
	}
	m, err := cfg.AsLogMap()
	if err != nil {
		run.Count("config_without_key_refused")
		return
	}
	keys, _ := wit.NewWitKeys(r, []bool{false, true}, true)
	wit.EnsureMetrics(nil)
	w, err := witness.New(witness.Opts{Persistence: inmemory.NewPersistence(), Signers: keys.Signers, KnownLogs: m})
	if err != nil {
		run.Count("config_without_key_refused")
		return
	}
	text := refnote.Body(b.Origin, 3, b.Root(0, 3))
	cp := refnote.Assemble(text, a.Key.SigLine(text)) // b's origin, signed by a's key
	if _, err := w.Update(context.Background(), refnote.LogID(b.Origin), 0, cp, nil); err == nil {
		run.Violate("entry_without_key_verifies_under_a_neighbours_key", "a configuration whose second entry has no PublicKey was accepted, and the witness built from it cosigned a checkpoint of that entry's origin signed by the first entry's key", unit, map[string]any{"yaml": y})
	}
	run.Distinct("nontrivial", "id/entry_without_key")
}

// emptyOrigin: a configuration entry whose Origin is omitted or empty, next to an entry whose origin is
// the first entry's key name. No checkpoint can ever be accepted for an empty origin, so only the
// configuration level is observed: if both the witness map and the component descriptor are built, the
// descriptor's ID must be a key of the witness map, filed with the same origin; and descriptors of one
// accepted configuration never share an ID.
func emptyOrigin(run *ev.Run, unit int64, r *rand.Rand, u *gen.Universe) {
	a, b := u.Logs[0], u.Logs[1]
	name := strings.SplitN(a.Key.Vkey(), "+", 2)[0]
	ka, _ := json.Marshal(a.Key.Vkey())
	kb, _ := json.Marshal(b.Key.Vkey())
	no, _ := json.Marshal(name)
	first := fmt.Sprintf("  - URL: \"http://log.invalid/a/\"\n    PublicKey: %s\n    Feeder: none\n", ka)
	if r.IntN(2) == 0 {
		first = fmt.Sprintf("  - Origin: \"\"\n    URL: \"http://log.invalid/a/\"\n    PublicKey: %s\n    Feeder: none\n", ka)
	}
	y := "Logs:\n" + first + fmt.Sprintf("  - Origin: %s\n    URL: \"http://log.invalid/b/\"\n    PublicKey: %s\n    Feeder: none\n", no, kb)
	var cfg omniwitness.LogConfig
	if err := yaml.Unmarshal([]byte(y), &cfg); err != nil {
		run.Count("empty_origin_config_refused")
		return
	}
	m, err := cfg.AsLogMap()
	if err != nil {
		run.Count("empty_origin_config_refused")
		return
	}
	seen := map[string]string{}
	for _, li := range cfg.Logs {
		cl, err := config.NewLog(li.Origin, li.PublicKey, li.URL)
		if err != nil {
			run.Count("empty_origin_config_refused")
			return
		}
		run.Count("evaluations")
		run.Count("empty_origin_entries_observed")
		d := map[string]any{"yaml": y, "configured_origin": li.Origin, "descriptor_id": cl.ID, "descriptor_origin": cl.Origin}
		info, ok := m[cl.ID]
		switch {
		case !ok:
			run.Violate("identity_mismatch;at=config.NewLog;origin=empty_or_keyname", fmt.Sprintf("configured origin %q: feeders/bastion/distributor use ID %q, under which the witness map has no entry", li.Origin, cl.ID), unit, d)
		case info.Origin != cl.Origin:
			run.Violate("identity_mismatch;origin_differs;origin=empty_or_keyname", fmt.Sprintf("ID %q: the witness expects origin %q, the components' descriptor says %q", cl.ID, info.Origin, cl.Origin), unit, d)
		}
		if prev, dup := seen[cl.ID]; dup {
			run.Violate("accepted_config_shares_id", fmt.Sprintf("an accepted configuration gives the entries with origins %q and %q the same component ID %q", prev, li.Origin, cl.ID), unit, d)
		}
		seen[cl.ID] = li.Origin
	}
	run.Distinct("nontrivial", "id/empty_origin")
}

type countingListener struct {
	net.Listener
	accepts atomic.Int64
}

func (c *countingListener) Accept() (net.Conn, error) {
	c.accepts.Add(1)
	return c.Listener.Accept()
}

var mainMu sync.Mutex // omniwitness.ConfigLogs is a process-wide variable

// assembled: omniwitness.Main with BOTH a bastion and a REST distributor configured (they are handed the same
// log list), over a store that already holds a checkpoint for every log, configured in an order that is not
// sorted. Every PUT the distributor makes must name, in its path, the ID of the origin its body carries.
func assembled(run *ev.Run, unit int64, r *rand.Rand) {
	u := gen.NewUniverse(r, gen.Opts{NLogs: 3 + r.IntN(4), MaxSize: 8, Branches: 1, ShareKeys: true})
	seen := map[string]bool{}
	for _, l := range u.Logs {
		for {
			l.Origin, _ = drawOrigin(r)
			if !seen[l.Origin] {
				break
			}
		}
		seen[l.Origin] = true
		l.ID = refnote.LogID(l.Origin)
	}
	// descending by origin: any component that sorts the shared list reorders it
	sort.Slice(u.Logs, func(i, j int) bool { return u.Logs[i].Origin > u.Logs[j].Origin })
	keys, _ := wit.NewWitKeys(r, []bool{false, true}, true)
	witV := keys.Signers[1].(interface{ Verifier() note.Verifier }).Verifier()
	wit.EnsureMetrics(nil)
	var cfg omniwitness.LogConfig
	if err := yaml.Unmarshal(yamlFor(u.Logs), &cfg); err != nil {
		run.Inconclusive(err.Error())
		return
	}
	m, err := cfg.AsLogMap()
	if err != nil {
		run.Inconclusive(err.Error())
		return
	}
	pers := inmemory.NewPersistence()
	w0, err := witness.New(witness.Opts{Persistence: pers, Signers: keys.Signers, KnownLogs: m})
	if err != nil {
		run.Inconclusive(err.Error())
		return
	}
	for _, l := range u.Logs {
		if _, err := w0.Update(context.Background(), l.ID, 0, l.Honest(0, 1+r.Uint64N(7)), nil); err != nil {
			run.Inconclusive("could not pre-load the store: " + err.Error())
			return
		}
	}
	ln, err := net.Listen("tcp", "127.0.0.1:0")
	if err != nil {
		run.Inconclusive(err.Error())
		return
	}
	defer ln.Close()
	// a listener nobody accepts on stands for the bastion: the feeder's set-up runs at once, its first
	// connection attempt only on its reconnect ticker, after this unit is over
	bl, err := net.Listen("tcp", "127.0.0.1:0")
	if err != nil {
		run.Inconclusive(err.Error())
		return
	}
	defer bl.Close()
	_, bkey, _ := ed25519.GenerateKey(crand.Reader)
	type put struct{ path, body string }
	var mu sync.Mutex
	var puts []put
	client := &http.Client{Transport: rtFunc(func(q *http.Request) (*http.Response, error) {
		var b []byte
		if q.Body != nil {
			b, _ = io.ReadAll(q.Body)
		}
		mu.Lock()
		puts = append(puts, put{q.URL.EscapedPath(), string(b)})
		mu.Unlock()
		return &http.Response{StatusCode: 200, Body: io.NopCloser(strings.NewReader("")), Request: q}, nil
	})}
	mainMu.Lock()
	saved := omniwitness.ConfigLogs
	omniwitness.ConfigLogs = yamlFor(u.Logs)
	ctx, cancel := context.WithCancel(context.Background())
	done := make(chan error, 1)
	go func() {
		done <- omniwitness.Main(ctx, omniwitness.OperatorConfig{WitnessKeys: keys.Signers, WitnessVerifier: witV,
			BastionAddr: bl.Addr().String(), BastionKey: bkey, BastionRateLimit: 10,
			RestDistributorBaseURL: "http://distributor.invalid", DistributeInterval: 60 * time.Millisecond}, pers, ln, client)
	}()
	deadline := time.Now().Add(4 * time.Second)
	for time.Now().Before(deadline) {
		mu.Lock()
		n := len(puts)
		mu.Unlock()
		if n >= 3*len(u.Logs) {
			break
		}
		time.Sleep(20 * time.Millisecond)
	}
	cancel()
	select {
	case <-done:
	case <-time.After(20 * time.Second):
		run.Inconclusive("Main did not return after cancel (watchdog)")
	}
	omniwitness.ConfigLogs = saved
	mainMu.Unlock()
	mu.Lock()
	defer mu.Unlock()
	run.Count("evaluations")
	run.Count("assembled_services")
	run.Add("assembled_distributor_puts", int64(len(puts)))
	run.Distinct("nontrivial", fmt.Sprintf("assembled/logs=%d", len(u.Logs)))
	for _, p := range puts {
		parts := strings.Split(p.path, "/")
		first, _, _ := strings.Cut(p.body, "\n")
		if len(parts) <= 4 {
			continue
		}
		if parts[4] != refnote.LogID(first) {
			run.Violate("distributed_under_another_logs_id", fmt.Sprintf("with a bastion and a distributor configured, a checkpoint of origin %q was PUT under log ID %q; that origin's ID is %q", first, parts[4], refnote.LogID(first)), unit, map[string]any{"path": p.path, "configured_order": func() []string {
				var o []string
				for _, l := range u.Logs {
					o = append(o, l.Origin)
				}
				return o
			}()})
			break
		}
	}
}

func duplicates(run *ev.Run, unit int64, r *rand.Rand) {
	u := gen.NewUniverse(r, gen.Opts{NLogs: 2 + r.IntN(4), MaxSize: 8, Branches: 1, ShareKeys: true})
	for _, l := range u.Logs {
		l.Origin, _ = drawOrigin(r)
	}
	mode := unit % 4
	logs := append([]*gen.Log{}, u.Logs...)
	what := "no_duplicate"
	switch mode {
	case 1: // same origin, same key
		logs = append(logs, logs[r.IntN(len(logs))])
		what = "dup_same_key"
	case 2: // same origin, different key
		o := logs[r.IntN(len(logs))]
		logs = append(logs, &gen.Log{Idx: 99, Origin: o.Origin, Key: u.Foreign[0]})
		what = "dup_other_key"
	case 3: // same origin and key, only the position differs (first and last)
		logs = append([]*gen.Log{logs[len(logs)-1]}, logs...)
		what = "dup_first_last"
	}
	r.Shuffle(len(logs), func(i, j int) { logs[i], logs[j] = logs[j], logs[i] })
	keys, _ := wit.NewWitKeys(r, []bool{false, true}, true)
	wit.EnsureMetrics(nil)
	ln, err := net.Listen("tcp", "127.0.0.1:0")
	if err != nil {
		run.Inconclusive(err.Error())
		return
	}
	cl := &countingListener{Listener: ln}
	mainMu.Lock()
	defer mainMu.Unlock()
	saved := omniwitness.ConfigLogs
	omniwitness.ConfigLogs = yamlFor(logs)
	defer func() { omniwitness.ConfigLogs = saved }()
	ctx, cancel := context.WithCancel(context.Background())
	done := make(chan error, 1)
	go func() {
		done <- omniwitness.Main(ctx, omniwitness.OperatorConfig{WitnessKeys: keys.Signers, WitnessVerifier: keys.Signers[1].(interface{ Verifier() note.Verifier }).Verifier()}, inmemory.NewPersistence(), cl, http.DefaultClient)
	}()
	run.Count("evaluations")
	run.Distinct("nontrivial", fmt.Sprintf("dup/%s/%d", what, len(logs)))
	if mode == 0 {
		// control: serves until cancelled
		addr := ln.Addr().String()
		ok := false
		for i := 0; i < 200 && !ok; i++ {
			resp, err := (&http.Client{Timeout: time.Second}).Get("http://" + addr + "/witness/v0/logs")
			if err == nil {
				resp.Body.Close()
				ok = resp.StatusCode == 200
			} else {
				time.Sleep(10 * time.Millisecond)
			}
		}
		cancel()
		select {
		case <-done:
		case <-time.After(20 * time.Second):
			run.Inconclusive("Main did not return after cancel (watchdog)")
		}
		if ok {
			run.Count("main_started_without_duplicates")
		} else {
			run.Violate("main_refuses_valid_config", "omniwitness.Main did not serve with a duplicate-free configuration", unit, map[string]any{"yaml": string(omniwitness.ConfigLogs)})
		}
		ln.Close()
		return
	}
	// The verdict is structural, not a deadline: "refused at start-up" = Main returns an error
	// without ever accepting a connection; "not refused" = the service answers on its listener.
	hc := &http.Client{Timeout: 700 * time.Millisecond}
	deadline := time.Now().Add(90 * time.Second)
	for {
		select {
		case err := <-done:
			cancel()
			if err == nil || cl.accepts.Load() != 0 {
				run.Violate("duplicate_not_refused;"+what, fmt.Sprintf("Main returned %v with %d Accept calls for a configuration with a duplicated origin", err, cl.accepts.Load()), unit, map[string]any{"yaml": string(omniwitness.ConfigLogs)})
			} else {
				run.Count("duplicate_configs_refused")
				if unit < 4 {
					run.Sample(map[string]any{"part": "duplicates", "what": what, "main_error": err.Error()[:min(len(err.Error()), 160)]})
				}
			}
			ln.Close()
			return
		case <-time.After(200 * time.Millisecond):
		}
		if resp, err := hc.Get("http://" + ln.Addr().String() + "/witness/v0/logs"); err == nil {
			resp.Body.Close()
			// Main is serving: the duplicate was not refused at start-up
			cancel()
			<-done
			run.Violate("duplicate_not_refused;"+what, "Main serves its API with a duplicated origin in the configuration", unit, map[string]any{"yaml": string(omniwitness.ConfigLogs)})
			ln.Close()
			return
		}
		if time.Now().After(deadline) {
			cancel()
			run.Inconclusive("watchdog: Main neither returned nor served within 90 s")
			ln.Close()
			return
		}
	}
}
