package main

import "encoding/base64"

func b64(b []byte) string { return base64.StdEncoding.EncodeToString(b) }
