// C02: only checkpoints signed by the named log's key and origin are accepted.
//
// Refuting observation: the state of log ID L changes, or Update(L, ...) returns a
// nil error, for bytes that are not authentic for L by the harness's own
// definition (text signed by the harness with L's key, first line L's origin,
// a verifying signature line by L's key; judged with kit/refnote only), or any
// effect at all for an unknown ID.
package main

import (
	"bytes"
	"context"
	"crypto/sha256"
	"fmt"
	"math/rand/v2"
	"strings"

	"github.com/transparency-dev/witness/internal/verif/kit/ev"
	"github.com/transparency-dev/witness/internal/verif/kit/gen"
	"github.com/transparency-dev/witness/internal/verif/kit/refnote"
	"github.com/transparency-dev/witness/internal/verif/kit/wit"
)

type sub struct {
	id   string
	cp   []byte
	kind string
}

func main() {
	run := ev.Start("C02", "exploration")
	defer run.Finish()
	run.Rule("unit = one drawn configuration of 1-6 logs (shared keys under different origins, distinct keys, distinct keys under one key NAME, hand-made and derived IDs; the witness map is built by the real LogConfig.AsLogMap); for every log, in the first-use state and in a populated state, every valid fixture is put through the exhaustive mutation menu (every single-bit flip, truncation at every byte, every line dropped/duplicated/swapped, signature name/key-hash/body edits, cross-log and cross-origin replays, unknown IDs) and submitted with the old size and proof that would make an authentic checkpoint acceptable. evaluations = submissions; nontrivial = distinct non-authentic (ID, bytes) pairs submitted")
	run.Assume("Ed25519 unforgeable; authentic := text signed by the harness with that log's key and carrying that log's origin, decided by kit/refnote", "the converse (authentic => accepted) is not asserted here (C08/C09)")
	units := run.Pick(10, 300)
	run.Floor("refused_nonauthentic", 20000)
	run.Floor("accepted_authentic", 50)
	run.Floor("cross_shared_key_refused", 1)
	run.Floor("replay_after_acceptance_refused", 200)
	run.Units("cfg", units, 0, func(unit int64, r *rand.Rand) { config(run, unit, r) })
	run.Units("replay", run.Pick(150, 5000), 0, func(unit int64, r *rand.Rand) { replayAfterAcceptance(run, unit, r) })
}

// replayAfterAcceptance: the SAME witness instance first accepts authentic checkpoints of
// some logs; exactly those bytes (as submitted, and as returned cosigned) are then submitted
// under every other configured ID, before and after that ID holds something.
func replayAfterAcceptance(run *ev.Run, unit int64, r *rand.Rand) {
	u := gen.NewUniverse(r, gen.Opts{NLogs: 2 + r.IntN(4), MaxSize: 12, Branches: 1, ShareKeys: true, SameKeyNames: true})
	keys, _ := wit.NewWitKeys(r, []bool{false, true}, true)
	st, _ := wit.NewStore([]string{"mem", "sqlmem"}[r.IntN(2)], "")
	defer st.Close()
	rn, err := wit.NewRunner(u, keys, st, nil)
	if err != nil {
		run.Inconclusive(err.Error())
		return
	}
	ctx := context.Background()
	type mat struct {
		from *gen.Log
		raw  []byte
		kind string
	}
	var pool []mat
	size := map[*gen.Log]uint64{}
	for round := 0; round < 3; round++ {
		for _, l := range u.Logs {
			if r.IntN(3) == 0 {
				continue // some logs stay empty for a while
			}
			nx := size[l] + 1 + uint64(r.IntN(3))
			cp := l.Honest(0, nx)
			if r.IntN(3) == 0 {
				text := refnote.Body(l.Origin, nx, l.Root(0, nx), "ext")
				cp = l.Note(r, l.Key, text, gen.Deco{UnknownSig: r.IntN(3)})
			}
			ret, err := rn.W.Update(ctx, l.ID, size[l], cp, l.Branches[0].Consistency(size[l], nx))
			if err != nil {
				continue
			}
			size[l] = nx
			pool = append(pool, mat{l, cp, "replay_submitted_bytes"}, mat{l, ret, "replay_cosigned_bytes"})
		}
		snap := rn.Snap()
		// the witness's own cosigned answer, handed back to the SAME log with the log's signature dropped or damaged:
		// the witness's cosignature says nothing about who signed; the log's own signature has to be checked every time
		for _, m := range pool {
			if m.kind != "replay_submitted_bytes" {
				continue
			}
			var ret []byte
			for _, c := range pool {
				if c.from == m.from && c.kind == "replay_cosigned_bytes" && bytes.HasPrefix(c.raw, m.raw[:bytes.Index(m.raw, []byte("\n\n"))+2]) {
					ret = c.raw
				}
			}
			if ret == nil {
				continue
			}
			logSigs := map[string]bool{}
			for _, ln := range strings.Split(string(m.raw[bytes.Index(m.raw, []byte("\n\n"))+2:]), "\n") {
				if ln != "" {
					logSigs[ln] = true
				}
			}
			var dropped, damaged []string
			for _, ln := range strings.SplitAfter(string(ret), "\n") {
				if t := strings.TrimSuffix(ln, "\n"); logSigs[t] {
					if len(t) > 24 {
						c := byte('A')
						if t[len(t)-12] == 'A' {
							c = 'B'
						}
						damaged = append(damaged, t[:len(t)-12]+string(c)+t[len(t)-11:]+"\n")
					}
					continue
				}
				dropped = append(dropped, ln)
				damaged = append(damaged, ln)
			}
			for vi, v := range [][]byte{[]byte(strings.Join(dropped, "")), []byte(strings.Join(damaged, ""))} {
				o := m.from
				auth, _ := o.Judge(v)
				if auth {
					continue
				}
				for _, old := range []uint64{0, size[o]} {
					ret2, err := rn.W.Update(ctx, o.ID, old, v, nil)
					after := rn.Snap()
					run.Count("evaluations")
					run.Count("own_cosignature_without_log_signature")
					h := sha256.Sum256(append([]byte(o.ID+"\x00"), v...))
					run.Distinct("nontrivial", string(h[:10]))
					changed := !after.Equal(snap)
					if err == nil || changed {
						run.Violate(fmt.Sprintf("nonauthentic_accepted;kind=own_cosignature_log_signature_%s", []string{"dropped", "damaged"}[vi]), fmt.Sprintf("the witness's cosigned answer for log %q, log signature %s, was accepted/stored for that log: err=%v changed=%v", o.Origin, []string{"dropped", "damaged"}[vi], err, changed), unit, map[string]any{"cp": string(v), "ret": string(ret2), "store": st.Kind})
						return
					}
					run.Count("replay_after_acceptance_refused")
					snap = after
				}
			}
		}
		for _, m := range pool {
			for _, o := range u.Logs {
				if o == m.from {
					continue
				}
				for _, old := range []uint64{0, size[o]} {
					ret, err := rn.W.Update(ctx, o.ID, old, m.raw, nil)
					after := rn.Snap()
					run.Count("evaluations")
					auth, _ := o.Judge(m.raw)
					h := sha256.Sum256(append([]byte(o.ID+"\x00"), m.raw...))
					run.Distinct("nontrivial", string(h[:10]))
					changed := !after.Equal(snap)
					if !auth && (err == nil || changed) {
						run.Violate("nonauthentic_accepted;kind="+m.kind+fmt.Sprintf(";shared_key=%v", o.Key == m.from.Key), fmt.Sprintf("bytes the witness had accepted for log %q were accepted/stored under log %q: err=%v changed=%v", m.from.Origin, o.Origin, err, changed), unit, map[string]any{"cp": string(m.raw), "ret": string(ret), "store": st.Kind})
						return
					}
					if err != nil && !changed {
						run.Count("replay_after_acceptance_refused")
					}
					snap = after
				}
			}
		}
	}
}

func config(run *ev.Run, unit int64, r *rand.Rand) {
	u := gen.NewUniverse(r, gen.Opts{NLogs: 1 + r.IntN(6), MaxSize: 12, Branches: 1, ShareKeys: true, HandIDs: true, SameKeyNames: true})
	keys, _ := wit.NewWitKeys(r, []bool{false, true}, true)
	const base, top = 3, 7
	for _, l := range u.Logs {
		for _, populated := range []bool{false, true} {
			var rn *wit.Runner
			reset := func() bool {
				st, _ := wit.NewStore("mem", "")
				if r.IntN(4) == 0 {
					st, _ = wit.NewStore("sqlmem", "")
				}
				var err error
				rn, err = wit.NewRunner(u, keys, st, nil)
				if err != nil {
					run.Inconclusive("witness.New: " + err.Error())
					return false
				}
				if populated {
					for _, lg := range u.Logs {
						if _, err := rn.W.Update(context.Background(), lg.ID, 0, lg.Honest(0, base), nil); err != nil {
							// an authentic checkpoint refused is not this property's direction (C08/C09); that log simply stays empty
							run.Count("populate_refused")
						}
					}
				}
				return true
			}
			if !reset() {
				return
			}
			old := uint64(0)
			var proof [][]byte
			if populated {
				old = base
				proof = l.Branches[0].Consistency(base, top)
			}
			subs := submissions(r, u, l, top)
			snap := rn.Snap()
			for _, s := range subs {
				ret, err := rn.W.Update(context.Background(), s.id, old, s.cp, proof)
				after := rn.Snap()
				run.Count("evaluations")
				changed := !after.Equal(snap)
				tl, known := rn.LogByID(s.id)
				auth := false
				if known {
					auth, _ = tl.Judge(s.cp)
				}
				if !auth {
					h := sha256.Sum256(append([]byte(s.id+"\x00"), s.cp...))
					run.Distinct("nontrivial", string(h[:10]))
				}
				detail := map[string]any{"id": s.id, "kind": s.kind, "cp": string(s.cp), "populated": populated, "err": fmt.Sprint(err), "ret": string(ret), "store": rn.Store.Kind, "target_origin": l.Origin}
				switch {
				case !known && (err == nil || changed):
					run.Violate("unknown_id_effect;"+s.kind, fmt.Sprintf("unknown log ID %q: err=%v state changed=%v", s.id, err, changed), unit, detail)
				case known && !auth && (err == nil || changed):
					run.Violate(fmt.Sprintf("nonauthentic_accepted;kind=%s;populated=%v", s.kind, populated), fmt.Sprintf("non-authentic checkpoint accepted/stored for log %q: err=%v changed=%v", tl.Origin, err, changed), unit, detail)
				case known && auth && err == nil:
					run.Count("accepted_authentic")
				}
				if err != nil && !changed {
					if !auth {
						run.Count("refused_nonauthentic")
					}
					if strings.HasPrefix(s.kind, "cross_shared_key") {
						run.Count("cross_shared_key_refused")
					}
				}
				if changed {
					rn.Store.Close()
					if !reset() {
						return
					}
					snap = rn.Snap()
				}
			}
			rn.Store.Close()
			if unit == 0 && l.Idx == 0 && !populated {
				for _, s := range subs[:3] {
					run.Sample(map[string]any{"kind": s.kind, "id": s.id, "cp": string(s.cp)})
				}
				run.Sample(map[string]any{"kind": subs[len(subs)-1].kind, "id": subs[len(subs)-1].id, "cp": string(subs[len(subs)-1].cp)})
			}
		}
	}
}

func submissions(r *rand.Rand, u *gen.Universe, l *gen.Log, top uint64) []sub {
	var out []sub
	text := refnote.Body(l.Origin, top, l.Root(0, top))
	clean := refnote.Assemble(text, l.Key.SigLine(text))
	textExt := refnote.Body(l.Origin, top, l.Root(0, top), "ext line", "another")
	decorated := l.Note(r, l.Key, textExt, gen.Deco{UnknownSig: 2})
	out = append(out, sub{l.ID, clean, "valid"}, sub{l.ID, decorated, "valid_decorated"})
	for fi, f := range [][]byte{clean, decorated} {
		// every single-bit flip
		for i := 0; i < len(f)*8; i++ {
			m := append([]byte{}, f...)
			m[i/8] ^= 1 << (i % 8)
			out = append(out, sub{l.ID, m, fmt.Sprintf("bitflip%d", fi)})
		}
		// truncation at every byte
		for i := 0; i < len(f); i++ {
			out = append(out, sub{l.ID, append([]byte{}, f[:i]...), fmt.Sprintf("truncate%d", fi)})
		}
		// line edits
		ls := strings.SplitAfter(string(f), "\n")
		for i := range ls {
			drop := strings.Join(append(append([]string{}, ls[:i]...), ls[i+1:]...), "")
			dup := strings.Join(append(append(append([]string{}, ls[:i+1]...), ls[i]), ls[i+1:]...), "")
			out = append(out, sub{l.ID, []byte(drop), "line_drop"}, sub{l.ID, []byte(dup), "line_dup"})
			if i+1 < len(ls) {
				sw := append([]string{}, ls...)
				sw[i], sw[i+1] = sw[i+1], sw[i]
				out = append(out, sub{l.ID, []byte(strings.Join(sw, "")), "line_swap"})
			}
		}
	}
	// signature-block edits
	n, _ := refnote.Parse(clean)
	sg := n.Sigs[0]
	mk := func(name string, hash uint32, raw []byte) []byte {
		b := []byte{byte(hash >> 24), byte(hash >> 16), byte(hash >> 8), byte(hash)}
		return refnote.Assemble(text, "— "+name+" "+b64(append(b, raw...)))
	}
	out = append(out,
		sub{l.ID, mk(sg.Name+"x", sg.Hash, sg.Raw), "sig_name_edit"},
		sub{l.ID, mk(sg.Name, sg.Hash+1, sg.Raw), "sig_hash_edit"},
		sub{l.ID, mk(sg.Name, sg.Hash, make([]byte, 64)), "sig_zero_body"},
		sub{l.ID, mk(sg.Name, sg.Hash, sg.Raw[:63]), "sig_short_body"},
		sub{l.ID, mk(sg.Name, sg.Hash, append(append([]byte{}, sg.Raw...), 0)), "sig_long_body"},
		sub{l.ID, refnote.Assemble(text), "no_sig_lines"},
		sub{l.ID, []byte(text), "no_sig_block"},
		sub{l.ID, refnote.Assemble(text, u.Foreign[0].SigLine(text)), "foreign_key"},
		sub{l.ID, refnote.Assemble(text, refnote.NewSignKey(l.Key.Name, [32]byte{1, 2, 3}).SigLine(text)), "same_name_other_key"},
		// cosignature-scheme line by the log's own key material is not a log signature
		sub{l.ID, refnote.Assemble(text, u.Foreign[1].CosigLine(text, 1700000000)), "foreign_cosig"},
	)
	// cross-log and cross-origin replays
	for _, o := range u.Logs {
		if o == l {
			continue
		}
		ot := refnote.Body(o.Origin, top, o.Root(0, top))
		kind := "cross_other_log_verbatim"
		if o.Key == l.Key {
			kind = "cross_shared_key_other_origin"
		}
		out = append(out, sub{l.ID, refnote.Assemble(ot, o.Key.SigLine(ot)), kind})
		// this log's origin and tree, signed by the other log's key
		if o.Key != l.Key {
			out = append(out, sub{l.ID, refnote.Assemble(text, o.Key.SigLine(text)), "cross_other_key_this_origin"})
			// other origin signed with this log's key
			out = append(out, sub{l.ID, refnote.Assemble(ot, l.Key.SigLine(ot)), "cross_this_key_other_origin"})
		}
		// the valid checkpoint of l submitted under the other log's ID
		out = append(out, sub{o.ID, clean, "cross_valid_under_other_id"})
	}
	// unknown IDs with the valid fixture
	for _, id := range []string{l.Origin, l.ID[:len(l.ID)-1], l.ID + "0", strings.ToUpper(l.ID), strings.ToUpper(l.ID) + "X", " " + l.ID, l.ID + " ", "", fmt.Sprintf("%064x", r.Uint64()), refnote.LogID(l.Origin + "\n")} {
		if _, ok := findID(u, id); !ok {
			out = append(out, sub{id, clean, "unknown_id"})
		}
	}
	return out
}

func findID(u *gen.Universe, id string) (*gen.Log, bool) {
	for _, l := range u.Logs {
		if l.ID == id {
			return l, true
		}
	}
	return nil, false
}
