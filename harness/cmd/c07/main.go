// C07: storage failures never cause trust-on-first-use, false success, or a wedge.
//
// Faults are injected through the two seams the witness reaches storage by:
// the LogStatePersistence interface (kit/seams.HookStore) and the SQLite
// database/sql driver (kit/seams vsqlite). Every position of every scenario is
// enumerated with every fault kind, singly; PRNG-drawn multi-fault histories follow.
package main

import (
	"bytes"
	"context"
	"crypto/sha256"
	"database/sql"
	"errors"
	"fmt"
	"math/rand/v2"
	"os"
	"path/filepath"
	"sort"
	"strings"
	"sync/atomic"
	"time"

	_ "github.com/mattn/go-sqlite3"
	"github.com/transparency-dev/witness/internal/persistence"
	"github.com/transparency-dev/witness/internal/persistence/inmemory"
	psql "github.com/transparency-dev/witness/internal/persistence/sql"
	"github.com/transparency-dev/witness/internal/verif/kit/asmunits"
	"github.com/transparency-dev/witness/internal/verif/kit/crash"
	"github.com/transparency-dev/witness/internal/verif/kit/ev"
	"github.com/transparency-dev/witness/internal/verif/kit/gen"
	"github.com/transparency-dev/witness/internal/verif/kit/refnote"
	"github.com/transparency-dev/witness/internal/verif/kit/reftree"
	"github.com/transparency-dev/witness/internal/verif/kit/seams"
	"github.com/transparency-dev/witness/internal/verif/kit/wit"
	"github.com/transparency-dev/witness/internal/witness"
	"google.golang.org/grpc/codes"
	"google.golang.org/grpc/status"
)

var scenarios = []string{"first_use", "growth", "refresh", "refused_stale", "refused_bad_proof", "tofu_attack"}

type fault struct {
	name  string
	err   error
	after bool // report the error after the operation was really performed
}

var ifaceFaults = map[string][]fault{
	seams.OpWriteOps: {{"plain", errors.New("injected: cannot open for write"), false}, {"unavailable", status.Error(codes.Unavailable, "injected"), false}},
	seams.OpWGet: {{"internal", status.Error(codes.Internal, "injected"), false}, {"unavailable", status.Error(codes.Unavailable, "injected"), false},
		{"unknown", status.Error(codes.Unknown, "injected"), false}, {"plain", errors.New("injected: read failed"), false},
		{"text_says_notfound", errors.New("injected: rpc error: code = NotFound desc = not really"), false},
		{"deadline", status.Error(codes.DeadlineExceeded, "injected"), false}},
	seams.OpWSet:   {{"plain_not_written", errors.New("injected: write failed"), false}, {"plain_written", errors.New("injected: write reported failed after it happened"), true}},
	seams.OpWClose: {{"plain", errors.New("injected: close failed"), false}},
}

var driverFaults = map[string][]fault{
	seams.SQLBegin:    {{"error", errors.New("injected: disk I/O error"), false}},
	seams.SQLQuery:    {{"error", errors.New("injected: disk I/O error"), false}, {"error_after", errors.New("injected: interrupted"), true}},
	seams.SQLExec:     {{"error", errors.New("injected: database or disk is full"), false}, {"error_after", errors.New("injected: interrupted"), true}},
	seams.SQLCommit:   {{"error_nothing_committed", errors.New("injected: disk I/O error"), false}, {"error_after_commit", errors.New("injected: commit reported failed after it happened"), true}},
	seams.SQLRollback: {{"error", errors.New("injected: disk I/O error"), false}},
	seams.SQLNext:     {{"error", errors.New("injected: database is locked"), false}},
	// (the pinned code never prepares a statement explicitly; positions of this kind exist only where a
	// tree does, e.g. one that keeps prepared statements)
	seams.SQLPrepare: {{"error", errors.New("injected: disk I/O error"), false}},
}

var fileN atomic.Int64

// bench is one witness with both fault seams.
type bench struct {
	level  string // iface-mem | iface-sql | driver-mem | driver-file
	rn     *wit.Runner
	hook   *seams.HookStore
	plan   *seams.SQLPlan
	db     *sql.DB
	l      *gen.Log
	armed  *atomic.Bool
	wedged bool
	pause  atomic.Bool // set while the harness itself reads: its reads are never faulted
}

func newBench(r *rand.Rand, level, dir string) (*bench, error) {
	u := gen.NewUniverse(r, gen.Opts{NLogs: 2, MaxSize: 30, Branches: 2})
	l := u.Logs[0]
	l.ReplaceBranch(1, &reftree.Tree{Seed: l.Branches[0].Seed, TagA: 1, TagB: 5, Fork: 2})
	b := &bench{level: level, l: l, plan: &seams.SQLPlan{}, armed: &atomic.Bool{}}
	var p persistence.LogStatePersistence
	st := &wit.Store{Kind: level}
	switch level {
	case "iface-mem":
		p = inmemory.NewPersistence()
	case "iface-sql", "driver-mem":
		b.db = seams.OpenVSQLite(":memory:", b.plan)
		p = psql.NewPersistence(b.db)
	case "driver-file":
		b.db = seams.OpenVSQLite(filepath.Join(dir, fmt.Sprintf("c07-%d.db", fileN.Add(1))), b.plan)
		p = psql.NewPersistence(b.db)
	}
	st.P, st.DB = p, b.db
	keys, _ := wit.NewWitKeys(r, []bool{false, true}, true)
	rn, err := wit.NewRunner(u, keys, st, func(in persistence.LogStatePersistence) persistence.LogStatePersistence {
		b.hook = seams.NewHookStore(in)
		return b.hook
	})
	if err != nil {
		return nil, err
	}
	b.rn = rn
	return b, nil
}

func (b *bench) close() {
	if b.db != nil && !b.wedged {
		b.db.Close()
	}
}

// quiescent checks the structural invariant: nothing is left open once an operation has returned.
func (b *bench) quiescent() string {
	if n := b.hook.OpenWrites(); n != 0 {
		return fmt.Sprintf("%d write handle(s) not closed", n)
	}
	if b.db != nil {
		s := b.db.Stats()
		if s.InUse != 0 || s.OpenConnections > 1 {
			return fmt.Sprintf("database pool not quiescent: InUse=%d OpenConnections=%d", s.InUse, s.OpenConnections)
		}
	}
	return ""
}

type req struct {
	old   uint64
	cp    []byte
	proof [][]byte
	// refused: the request must be refused whatever the storage does
	refused bool
}

// prelude brings the witness to the scenario's starting state and returns the request to be faulted.
func (b *bench) scenario(name string) (req, error) {
	l := b.l
	ctx := context.Background()
	if name != "first_use" {
		var err error
		if why := b.guarded(func() { _, err = b.rn.W.Update(ctx, l.ID, 0, l.Honest(0, 5), nil) }); why != "" {
			return req{}, errors.New(why)
		}
		if err != nil {
			return req{}, err
		}
	}
	switch name {
	case "first_use":
		return req{0, l.Honest(0, 5), nil, false}, nil
	case "growth":
		return req{5, l.Honest(0, 9), l.Branches[0].Consistency(5, 9), false}, nil
	case "refresh":
		return req{5, l.Honest(0, 5), nil, false}, nil
	case "refused_stale":
		return req{3, l.Honest(0, 9), l.Branches[0].Consistency(3, 9), true}, nil
	case "refused_bad_proof":
		p := l.Branches[0].Consistency(5, 9)
		p[0] = append([]byte{}, p[0]...)
		p[0][3] ^= 4
		return req{5, l.Honest(0, 9), p, true}, nil
	case "tofu_attack":
		// first-use shaped: old size 0, no proof, a fork that shares only 2 leaves with what is stored
		return req{0, l.Honest(1, 7), nil, true}, nil
	}
	return req{}, errors.New("unknown scenario")
}

// guarded runs one witness call. There is never more than one operation in flight in this
// harness, so if the call does not come back and the pool shows every connection in use with
// a waiter, the operation waits for a connection that only itself (or an earlier, finished
// operation) can be holding: a wedge. Time only triggers the inspection.
func (b *bench) guarded(f func()) string {
	done := make(chan struct{})
	go func() { f(); close(done) }()
	select {
	case <-done:
		return ""
	case <-time.After(10 * time.Second):
	}
	b.wedged = true // never Close this handle: sql.DB.Close waits for running queries
	if b.db != nil {
		st := b.db.Stats()
		if st.MaxOpenConnections > 0 && st.InUse >= st.MaxOpenConnections && st.WaitCount > 0 {
			return fmt.Sprintf("wedge: the call waits for a database connection while all %d are in use and nothing else is running (WaitCount=%d)", st.InUse, st.WaitCount)
		}
	}
	return "inconclusive"
}

// watchdog runs f with a generous wall-clock limit; false = inconclusive.
func watchdog(f func()) bool {
	done := make(chan struct{})
	go func() { f(); close(done) }()
	select {
	case <-done:
		return true
	case <-time.After(20 * time.Second):
		return false
	}
}

func main() {
	run := ev.Start("C07", "fault_enumeration")
	defer run.Finish()
	run.Rule("single faults (exhaustive): {first use, growth, refresh, refused-stale, refused-bad-proof, first-use-shaped fork on a populated log} x every storage call position x every fault kind, at the persistence interface (over in-memory and over SQLite) and at the SQL driver (begin/query/exec/commit/rollback; failed-before and reported-failed-after variants; :memory: and file) - positions learned from a fault-free dry run of the same scenario; then persistent faults (every occurrence of one operation kind fails for the whole request, per level x scenario x operation); then PRNG-drawn multi-fault histories; finally a process-level pass: a child process running the real Witness on file-backed SQLite has its N-th storage syscall (pwrite64/fsync/fdatasync/unlink/ftruncate) fail with ENOSPC or EIO, for every N of three scripts (five in thorough). After each faulted request: pool/handle quiescence, state read back with faults off, nil error => read returns exactly the returned bytes, refused scenarios leave the old checkpoint, then an honest next step from the committed state must be accepted. evaluations = faulted requests; nontrivial = distinct (level, scenario, operation, position, fault kind)")
	run.Assume("injected faults stay inside the contract of the layer they impersonate (a failing driver Commit/Rollback really rolls back, as go-sqlite3 does); driver.ErrBadConn is not injected (database/sql retries it by design)", "process-level pass: one failing storage syscall (ENOSPC or EIO) per child run, injected by strace")
	run.Floor("single_fault_plans", 150)
	run.Floor("multi_fault_histories", 500)
	run.Floor("tofu_attack_with_read_fault", 10)
	run.Floor("level:iface-mem", 1)
	run.Floor("level:iface-sql", 1)
	run.Floor("level:driver-mem", 1)
	run.Floor("level:driver-file", 1)
	dir := run.Scratch()

	type plan struct {
		level, scen, op string
		pos             int // index among the operations of the faulted request
		f               fault
	}
	// enumerate from dry runs
	var plans []plan
	r0 := run.Rand("dry", 0)
	for _, level := range []string{"iface-mem", "iface-sql", "driver-mem", "driver-file"} {
		for _, sc := range scenarios {
			b, err := newBench(r0, level, dir)
			if err != nil {
				run.Inconclusive(err.Error())
				return
			}
			q, err := b.scenario(sc)
			if err != nil {
				if strings.HasPrefix(err.Error(), "wedge") {
					run.Violate("update_never_returns;fault_free_prelude", "fault-free update on "+level+": "+err.Error(), -1, nil)
				} else {
					run.Inconclusive("prelude failed: " + err.Error())
				}
				return
			}
			var ops []string
			if level[:5] == "iface" {
				b.hook.Record = true
				b.hook.Calls = nil
			} else {
				b.plan.Reset()
			}
			if why := b.guarded(func() { _, _ = b.rn.W.Update(context.Background(), b.l.ID, q.old, q.cp, q.proof) }); why != "" {
				if why == "inconclusive" {
					run.Inconclusive("fault-free dry run did not return on " + level)
				} else {
					run.Violate("update_never_returns;fault_free;"+sc, "fault-free update on "+level+": "+why, -1, nil)
				}
				return
			}
			if level[:5] == "iface" {
				ops = append(ops, b.hook.Calls...)
			} else {
				ops = b.plan.Ops()
			}
			b.close()
			for pos, op := range ops {
				table := ifaceFaults
				if level[:6] == "driver" {
					table = driverFaults
				}
				for _, f := range table[op] {
					plans = append(plans, plan{level, sc, op, pos, f})
				}
			}
		}
	}
	run.Exhaustive(true)
	run.Extra("single_fault_plan_count", len(plans))
	run.Floor("single_fault_reached", int64(len(plans)))
	// the assembled service must make progress again once storage faults stop (bounded by the log's own polls)
	run.Floor("assembled_progress_episodes", 8)
	run.Units("asm_progress", run.Pick(10, 80), 5, func(unit int64, r *rand.Rand) {
		asmunits.Progress(run, unit, r, "storage_fault_burst", "fault_on_first_read_after_restart")
	})
	run.Units("single", len(plans), 0, func(unit int64, r *rand.Rand) {
		p := plans[unit]
		b, err := newBench(r, p.level, dir)
		if err != nil {
			run.Inconclusive(err.Error())
			return
		}
		defer b.close()
		q, err := b.scenario(p.scen)
		if err != nil {
			if strings.HasPrefix(err.Error(), "wedge") {
				run.Violate("update_never_returns;fault_free_prelude", "fault-free update on "+p.level+": "+err.Error(), unit, nil)
			} else {
				run.Inconclusive("prelude failed: " + err.Error())
			}
			return
		}
		n := 0
		fired := false
		arm := func(op string, phase string) error {
			// called for every operation of the faulted request, in order
			return nil
		}
		_ = arm
		if p.level[:5] == "iface" {
			b.hook.SetHook(func(op, id string) error {
				if b.pause.Load() {
					return nil
				}
				i := n
				n++
				if op == seams.OpWSetAfter {
					if fired && p.f.after && p.op == seams.OpWSet {
						return p.f.err
					}
					return nil
				}
				if i == p.pos && op == p.op {
					fired = true
					if p.f.after {
						return nil // performed for real; the error is delivered by the .after hook
					}
					return p.f.err
				}
				return nil
			})
		} else {
			b.plan.Reset()
			b.plan.SetHook(func(op string, idx int, phase string) error {
				if b.pause.Load() {
					return nil
				}
				if idx == p.pos && op == p.op {
					if !p.f.after && phase == "before" {
						fired = true
						return p.f.err
					}
					if p.f.after && phase == "after" {
						fired = true
						return p.f.err
					}
				}
				return nil
			})
		}
		what := fmt.Sprintf("%s/%s/%s@%d/%s", p.level, p.scen, p.op, p.pos, p.f.name)
		run.Distinct("nontrivial", what)
		run.Count("level:" + p.level)
		one(run, unit, b, q, what, p.scen, func() { b.hook.SetHook(nil); b.plan.SetHook(nil) }, &fired, p.op)
		run.Count("single_fault_plans")
		if fired {
			run.Count("single_fault_reached")
		} else {
			run.Distinct("single_fault_not_reached", what)
			run.Extra("not_reached:"+what, true)
		}
		if unit%97 == 0 {
			run.Sample(map[string]any{"plan": what, "fault_reached": fired})
		}
	})
	run.Exhaustive(false)
	// persistent faults: EVERY occurrence of one operation kind fails for the whole request (a disk that
	// stays full, a lock that is not released while the request runs) - what a retry loop meets
	type pplan struct{ level, scen, op string }
	var pplans []pplan
	for _, level := range []string{"iface-mem", "iface-sql", "driver-mem", "driver-file"} {
		for _, sc := range scenarios {
			if level[:5] == "iface" {
				for op := range ifaceFaults {
					pplans = append(pplans, pplan{level, sc, op})
				}
			} else {
				for op := range driverFaults {
					pplans = append(pplans, pplan{level, sc, op})
				}
			}
		}
	}
	sort.Slice(pplans, func(i, j int) bool {
		return pplans[i].level+pplans[i].scen+pplans[i].op < pplans[j].level+pplans[j].scen+pplans[j].op
	})
	run.Floor("persistent_fault_plans", int64(len(pplans)))
	run.Units("persistent", len(pplans), 0, func(unit int64, r *rand.Rand) {
		p := pplans[unit]
		b, err := newBench(r, p.level, dir)
		if err != nil {
			run.Inconclusive(err.Error())
			return
		}
		defer b.close()
		q, err := b.scenario(p.scen)
		if err != nil {
			if strings.HasPrefix(err.Error(), "wedge") {
				run.Violate("update_never_returns;fault_free_prelude", "fault-free update on "+p.level+": "+err.Error(), unit, nil)
			} else {
				run.Inconclusive("prelude failed: " + err.Error())
			}
			return
		}
		fired := false
		n := 0
		if p.level[:5] == "iface" {
			f := ifaceFaults[p.op][0]
			b.hook.SetHook(func(op, id string) error {
				if b.pause.Load() || op != p.op {
					return nil
				}
				fired = true
				n++
				return f.err
			})
		} else {
			f := driverFaults[p.op][0]
			b.plan.SetHook(func(op string, idx int, phase string) error {
				if b.pause.Load() || op != p.op || phase != "before" {
					return nil
				}
				fired = true
				n++
				return f.err
			})
		}
		what := fmt.Sprintf("persistent/%s/%s/every_%s_fails", p.level, p.scen, p.op)
		run.Distinct("nontrivial", what)
		run.Count("level:" + p.level)
		one(run, unit, b, q, what, p.scen, func() { b.hook.SetHook(nil); b.plan.SetHook(nil) }, &fired, p.op)
		run.Count("persistent_fault_plans")
		if fired {
			run.Count("persistent_fault_reached")
			run.Add("persistent_fault_occurrences", int64(n))
		}
	})
	// the very first storage statement after start-up fails (nothing has touched the store since Init): whatever
	// the tree sets up lazily on first use must not latch that failure
	firstOps := []string{seams.SQLBegin, seams.SQLPrepare, seams.SQLQuery, seams.SQLNext, seams.SQLExec, seams.SQLCommit}
	run.Floor("first_statement_fault_plans", int64(2*2*len(firstOps)))
	run.Units("first_statement", 2*2*len(firstOps), 0, func(unit int64, r *rand.Rand) {
		level := []string{"driver-mem", "driver-file"}[unit%2]
		viaRead := (unit/2)%2 == 1 // the first operation is a read of the checkpoint instead of an update
		op := firstOps[int(unit/4)%len(firstOps)]
		b, err := newBench(r, level, dir)
		if err != nil {
			run.Inconclusive(err.Error())
			return
		}
		defer b.close()
		q, _ := b.scenario("first_use")
		armed, fired := true, false
		b.plan.SetHook(func(gotOp string, idx int, phase string) error {
			if armed && gotOp == op && phase == "before" {
				armed, fired = false, true
				return errors.New("injected: disk I/O error")
			}
			return nil
		})
		what := fmt.Sprintf("first_statement/%s/%s/read_first=%v", level, op, viaRead)
		var uerr error
		if why := b.guarded(func() {
			if viaRead {
				_, uerr = b.rn.W.GetCheckpoint(b.l.ID)
			} else {
				_, uerr = b.rn.W.Update(context.Background(), b.l.ID, q.old, q.cp, q.proof)
			}
		}); why != "" {
			if why == "inconclusive" {
				run.Inconclusive("watchdog: the first operation after start-up did not return (" + what + ")")
			} else {
				run.Violate("update_never_returns;first_statement", "the first operation after start-up did not complete: "+why, unit, map[string]any{"plan": what})
			}
			return
		}
		b.plan.SetHook(nil)
		run.Count("evaluations")
		run.Count("first_statement_fault_plans")
		run.Distinct("nontrivial", what)
		if fired {
			run.Count("first_statement_fault_reached")
		}
		_ = uerr
		if why := b.quiescent(); why != "" {
			run.Violate("not_quiescent;first_statement;op="+op, "after the faulted first operation returned: "+why, unit, map[string]any{"plan": what})
			return
		}
		recover_(run, unit, b, what, "first_statement")
	})
	// a first submission whose storage write is undone (failed INSERT / failed COMMIT), then ANOTHER log's first
	// submission, then the first log again: whatever a store remembers about a row it tried to write must not
	// survive the rollback (SQLite hands a rolled-back rowid to the next inserted row)
	run.Floor("undone_first_insert_plans", 8)
	undone := []struct {
		op    string
		after bool
	}{{seams.SQLCommit, false}, {seams.SQLExec, false}, {seams.SQLExec, true}}
	run.Units("undone_first_insert", 2*len(undone)*run.Pick(2, 8), 0, func(unit int64, r *rand.Rand) {
		level := []string{"driver-mem", "driver-file"}[unit%2]
		pl := undone[int(unit/2)%len(undone)]
		b, err := newBench(r, level, dir)
		if err != nil {
			run.Inconclusive(err.Error())
			return
		}
		defer b.close()
		la, lb := b.rn.U.Logs[0], b.rn.U.Logs[1]
		what := fmt.Sprintf("undone_first_insert/%s/%s/after=%v", level, pl.op, pl.after)
		upd := func(l *gen.Log, old, size uint64) ([]byte, error, bool) {
			var ret []byte
			var uerr error
			var proof [][]byte
			if old > 0 {
				proof = l.Branches[0].Consistency(old, size)
			}
			why := b.guarded(func() { ret, uerr = b.rn.W.Update(context.Background(), l.ID, old, l.Honest(0, size), proof) })
			if why != "" {
				if why == "inconclusive" {
					run.Inconclusive("watchdog: an update did not return (" + what + ")")
				} else {
					run.Violate("update_never_returns;undone_first_insert", "an update did not complete: "+why, unit, map[string]any{"plan": what})
				}
				return nil, nil, false
			}
			return ret, uerr, true
		}
		// which write of the request is hit: the last exec / the commit of the update transaction
		armed, fired := true, false
		b.plan.SetHook(func(op string, idx int, phase string) error {
			want := "before"
			if pl.after {
				want = "after"
			}
			if armed && op == pl.op && phase == want {
				armed, fired = false, true
				return errors.New("injected: database or disk is full")
			}
			return nil
		})
		a1 := 1 + r.Uint64N(8)
		_, err1, ok := upd(la, 0, a1)
		b.plan.SetHook(nil)
		if !ok {
			return
		}
		run.Count("evaluations")
		run.Count("undone_first_insert_plans")
		run.Distinct("nontrivial", what)
		detail := map[string]any{"plan": what, "first_error": fmt.Sprint(err1), "fault_fired": fired}
		snap := b.rn.Snap()
		if err1 != nil && snap.CP[la.ID] != nil {
			// (an exec reported failed after it ran is undone when the transaction is closed without commit)
			run.Violate("failed_update_left_state;undone_first_insert", "the faulted first submission returned an error and the log has a stored checkpoint", unit, detail)
			return
		}
		if err1 == nil {
			return // the fault position was not on this request's path: nothing to learn
		}
		bRet, errB, ok := upd(lb, 0, 2+r.Uint64N(8))
		if !ok {
			return
		}
		if errB != nil {
			run.Violate("honest_first_use_refused_after_fault;undone_first_insert", "another log's first submission after the undone write: "+errB.Error(), unit, detail)
			return
		}
		aRet, errA, ok := upd(la, 0, a1)
		if !ok {
			return
		}
		if errA != nil {
			run.Violate("honest_first_use_refused_after_fault;undone_first_insert", "the first log's first submission, repeated on a healthy store: "+errA.Error(), unit, detail)
			return
		}
		snap = b.rn.Snap()
		if !bytes.Equal(snap.CP[la.ID], aRet) || !bytes.Equal(snap.CP[lb.ID], bRet) {
			detail["log_a"], detail["log_b"] = string(snap.CP[la.ID]), string(snap.CP[lb.ID])
			run.Violate("accepted_update_stored_elsewhere;undone_first_insert", fmt.Sprintf("after: first submission of log A undone by a storage fault, first submission of log B accepted, first submission of log A accepted - log A serves what its update returned: %v, log B serves what its update returned: %v", bytes.Equal(snap.CP[la.ID], aRet), bytes.Equal(snap.CP[lb.ID], bRet)), unit, detail)
			return
		}
		if why := b.quiescent(); why != "" {
			run.Violate("not_quiescent;undone_first_insert", why, unit, detail)
		}
	})
	// multi-fault histories
	run.Units("multi", run.Pick(1500, 60000), 0, func(unit int64, r *rand.Rand) {
		level := []string{"iface-mem", "iface-sql", "driver-mem", "driver-file"}[r.IntN(4)]
		if level == "driver-file" && r.IntN(2) == 0 {
			level = "driver-mem"
		}
		b, err := newBench(r, level, dir)
		if err != nil {
			run.Inconclusive(err.Error())
			return
		}
		defer b.close()
		run.Count("level:" + level)
		sc := scenarios[r.IntN(len(scenarios))]
		q, err := b.scenario(sc)
		if err != nil {
			if strings.HasPrefix(err.Error(), "wedge") {
				run.Violate("update_never_returns;fault_free_prelude", "fault-free update on "+level+": "+err.Error(), unit, nil)
			} else {
				run.Inconclusive("prelude failed: " + err.Error())
			}
			return
		}
		prob := 0.15 + r.Float64()*0.3
		fired := false
		nf := 0
		if level[:5] == "iface" {
			pendingAfter := false
			b.hook.SetHook(func(op, id string) error {
				if b.pause.Load() {
					return nil
				}
				if op == seams.OpWSetAfter {
					if pendingAfter {
						pendingAfter = false
						return errors.New("injected: reported failed after write")
					}
					return nil
				}
				fs := ifaceFaults[op]
				if len(fs) > 0 && r.Float64() < prob {
					f := fs[r.IntN(len(fs))]
					fired = true
					nf++
					if f.after {
						pendingAfter = true
						return nil
					}
					return f.err
				}
				return nil
			})
		} else {
			b.plan.SetHook(func(op string, idx int, phase string) error {
				if b.pause.Load() {
					return nil
				}
				fs := driverFaults[op]
				if len(fs) == 0 || r.Float64() >= prob/2 {
					return nil
				}
				f := fs[r.IntN(len(fs))]
				if (f.after && phase == "after") || (!f.after && phase == "before") {
					fired = true
					nf++
					return f.err
				}
				return nil
			})
		}
		what := fmt.Sprintf("multi/%s/%s", level, sc)
		// several faulted requests in a row (the scenario's request, then repeats and a read)
		for k := 0; k < 3; k++ {
			if !one(run, unit, b, q, what, sc, nil, &fired, "") {
				return
			}
			var rerr error
			if !watchdog(func() { _, rerr = b.rn.W.GetCheckpoint(b.l.ID) }) {
				run.Inconclusive("watchdog: GetCheckpoint under faults did not return")
				return
			}
			_ = rerr
			if why := b.quiescent(); why != "" {
				run.Violate("not_quiescent_after_read;"+level, "after a faulted read: "+why, unit, map[string]any{"plan": what})
				return
			}
		}
		b.hook.SetHook(nil)
		b.plan.SetHook(nil)
		recover_(run, unit, b, what, sc)
		run.Count("multi_fault_histories")
		run.Distinct("nontrivial", fmt.Sprintf("%s/faults=%d", what, min(nf, 6)))
	})
	processLevel(run, dir)
}

// processLevel is the kernel-level pass: the C06 child (real Witness on file-backed SQLite,
// production pool setting) runs a script while strace makes its N-th storage syscall fail with
// ENOSPC or EIO, for every N. This exercises SQLite's and the driver's own error paths.
func processLevel(run *ev.Run, dir string) {
	if os.Getenv("VERIF_BIN_C06CHILD") == "" {
		run.Inconclusive("c06child binary not provided")
		return
	}
	run.Floor("errno_points", 60)
	const inj = "pwrite64,fsync,fdatasync,unlink,unlinkat,ftruncate"
	w := crash.NewWorld(run.Rand("world", 0))
	w.ChildTimeout = 12 * time.Second // a script takes milliseconds; a child still running then is stuck
	scripts := w.Scripts()
	if !run.Thorough() {
		scripts = scripts[1:4] // growth, refresh, growth after a refused update
	}
	type pt struct {
		sc    crash.Script
		n     int
		errno string
	}
	var pts []pt
	for _, sc := range scripts {
		db := filepath.Join(dir, "edry-"+sc.Name+".db")
		tr := filepath.Join(dir, "etrace-"+sc.Name)
		if _, _, err, out := w.Child(dir, db, sc.Ups, -1, "", false, []string{"strace", "-f", "-o", tr, "-e", "trace=" + inj}); err != nil {
			run.Inconclusive("traced dry run failed: " + err.Error() + string(out))
			return
		}
		tb, _ := os.ReadFile(tr)
		per := map[string]int{}
		for _, ln := range strings.Split(string(tb), "\n") {
			f := strings.Fields(ln)
			if len(f) > 1 && strings.Contains(f[1], "(") {
				per[f[0]]++
			}
		}
		k := 0
		for _, v := range per {
			if v > k {
				k = v
			}
		}
		for n := 1; n <= k; n++ {
			for _, e := range []string{"ENOSPC", "EIO"} {
				pts = append(pts, pt{sc, n, e})
			}
		}
	}
	run.Units("errno", len(pts), 0, func(unit int64, _ *rand.Rand) {
		p := pts[unit]
		db := filepath.Join(dir, fmt.Sprintf("e-%d.db", unit))
		tr := filepath.Join(dir, fmt.Sprintf("e-%d.trace", unit))
		ackp, _, err, out := w.Child(dir, db, p.sc.Ups, -1, "", false, []string{"strace", "-f", "-o", tr, "-e", "trace=" + inj, "-e", fmt.Sprintf("inject=%s:error=%s:when=%d", inj, p.errno, p.n)})
		a := crash.ReadAcks(ackp)
		tb, _ := os.ReadFile(tr)
		hit := ""
		for _, ln := range strings.Split(string(tb), "\n") {
			if strings.Contains(ln, "(INJECTED)") {
				hit = ln
				if len(hit) > 110 {
					hit = hit[:110]
				}
			}
		}
		what := fmt.Sprintf("process/%s/%s", p.sc.Name, p.errno)
		detail := map[string]any{"script": p.sc.Name, "syscall_index": p.n, "errno": p.errno, "injected_into": hit, "acks": a.Order, "naks": len(a.Nak), "child_exit": fmt.Sprint(err), "child_out": string(out)}
		if hit == "" {
			run.Count("errno_points_not_reached")
			return
		}
		run.Count("evaluations")
		run.Count("errno_points")
		run.Distinct("nontrivial", fmt.Sprintf("%s@%d", what, p.n))
		if !a.Ready && strings.Contains(string(out), "witness.New:") {
			// the fault hit table creation at start-up: refusing to start on a failing disk is not an update outcome
			run.Count("errno_hit_startup")
			return
		}
		if err != nil && err.Error() == "watchdog" && a.Ready {
			// the child answered some requests and then stopped answering: on its single-connection store the
			// operation after the failed one never completed
			run.Violate("process_wedged_after_io_error;"+p.sc.Name, fmt.Sprintf("after %s at storage syscall %d the witness process stopped answering (its next storage operation never completed); answered so far: %d ack, %d refused", p.errno, p.n, len(a.Order), len(a.Nak)), unit, detail)
			return
		}
		if err != nil || !a.Done {
			run.Violate("process_died_under_io_error;"+p.sc.Name, fmt.Sprintf("the witness process did not survive %s at storage syscall %d: %v", p.errno, p.n, err), unit, detail)
			return
		}
		// reopen with the plain production driver (faults have stopped)
		h, oerr := sql.Open("sqlite3", db)
		if oerr != nil {
			run.Inconclusive(oerr.Error())
			return
		}
		defer h.Close()
		h.SetMaxOpenConns(1)
		kl, _ := wit.KnownLogs(w.U)
		wt, werr := witness.New(witness.Opts{Persistence: psql.NewPersistence(h), Signers: w.Keys.Signers, KnownLogs: kl})
		if werr != nil {
			run.Violate("store_unusable_after_io_error;"+p.sc.Name, "the store cannot be reopened: "+werr.Error(), unit, detail)
			return
		}
		for _, l := range w.U.Logs {
			stored, rerr := wt.GetCheckpoint(l.ID)
			if rerr != nil && status.Code(rerr) != codes.NotFound {
				run.Violate("read_fails_after_io_error;"+p.sc.Name, "reading the latest checkpoint fails after the errors stopped: "+rerr.Error(), unit, detail)
				return
			}
			lastAck, lastPos := "", -1
			for i, u := range p.sc.Ups {
				if hsh, ok := a.Ack[u.ID]; ok && u.LogID == l.ID {
					lastAck, lastPos = hsh, i
				}
			}
			sum := ""
			if stored != nil {
				sum = fmt.Sprintf("%x", sha256.Sum256(stored))
			}
			ok := sum == lastAck
			if !ok && stored != nil {
				// an update that committed but was reported as failed is the only other legal state
				for i, u := range p.sc.Ups {
					if i > lastPos && u.LogID == l.ID && !u.Refused {
						if _, nak := a.Nak[u.ID]; nak && w.CosignedFormOf(l, stored, u.CP) {
							ok = true
							run.Count("committed_but_reported_failed")
						}
					}
				}
			}
			if !ok {
				d2 := map[string]any{"stored": string(stored), "last_ack_sha256": lastAck}
				for k, v := range detail {
					d2[k] = v
				}
				run.Violate("false_success_under_io_error;"+p.sc.Name, "after the I/O error the stored checkpoint is neither the last acknowledged one nor an update that was reported as failed", unit, d2)
				continue
			}
			if stored == nil {
				continue
			}
			n, _ := refnote.Parse(stored)
			c, _ := refnote.ParseCheckpoint(n.Text)
			if _, err := wt.Update(context.Background(), l.ID, c.Size, l.Honest(1, c.Size+3), l.Branches[1].Consistency(c.Size, c.Size+3)); err == nil {
				run.Violate("fork_accepted_after_io_error;"+p.sc.Name, "after the I/O error a checkpoint inconsistent with the committed state was accepted", unit, detail)
			}
			if _, err := wt.Update(context.Background(), l.ID, c.Size, l.Honest(0, c.Size+2), l.Branches[0].Consistency(c.Size, c.Size+2)); err != nil {
				run.Violate("no_progress_after_io_error;"+p.sc.Name, "after the errors stopped the honest next step from the committed state is refused: "+err.Error(), unit, detail)
			}
		}
		if unit%37 == 0 {
			run.Sample(detail)
		}
		os.Remove(db)
		os.Remove(db + "-journal")
	})
}

// one runs a faulted request and applies monitors (i), (ii), (iv); with disarm != nil also (iii).
func one(run *ev.Run, unit int64, b *bench, q req, what, scen string, disarm func(), fired *bool, op string) bool {
	ctx := context.Background()
	l := b.l
	// state before, read with whatever faults are armed only on write paths: use a direct read of the inner store
	before := b.read()
	if disarm != nil {
		b.plan.Reset() // positions are counted from the start of the faulted request
	}
	var ret []byte
	var err error
	if why := b.guarded(func() { ret, err = b.rn.W.Update(ctx, l.ID, q.old, q.cp, q.proof) }); why != "" {
		if why == "inconclusive" {
			run.Inconclusive("watchdog: faulted Update did not return (" + what + ")")
		} else {
			run.Violate("update_never_returns;"+scen, "the update did not complete: "+why, unit, map[string]any{"plan": what})
		}
		return false
	}
	run.Count("evaluations")
	detail := map[string]any{"plan": what, "err": fmt.Sprint(err), "returned": string(ret), "before": string(before), "fault_reached": *fired}
	if why := b.quiescent(); why != "" {
		run.Violate("not_quiescent;"+scen+";op="+op, "after the faulted Update returned: "+why, unit, detail)
		return false // the next operation on a single-connection store would block
	}
	if disarm != nil {
		disarm()
	}
	after := b.read()
	detail["after"] = string(after)
	if err == nil && !bytes.Equal(after, ret) {
		run.Violate("false_success;"+scen+";op="+op, "Update reported success but a fault-free read does not return the bytes it returned", unit, detail)
	}
	if q.refused {
		if err == nil {
			run.Violate("refusable_request_accepted;"+scen+";op="+op, "a request that must be refused was accepted under a storage fault", unit, detail)
		}
		if !bytes.Equal(after, before) {
			run.Violate("state_changed_by_refusable_request;"+scen+";op="+op, "the stored checkpoint changed although the request must be refused", unit, detail)
		}
		if scen == "tofu_attack" && *fired && (op == seams.OpWGet || op == seams.SQLQuery || op == seams.SQLNext) {
			run.Count("tofu_attack_with_read_fault")
		}
	} else if !bytes.Equal(after, before) {
		// the only other legal state is the cosigned form of the request
		n, perr := refnote.Parse(after)
		sub, _ := refnote.Parse(q.cp)
		if perr != nil || n.Text != sub.Text {
			run.Violate("state_is_neither_old_nor_new;"+scen+";op="+op, "after a faulted update the stored checkpoint is neither the old one nor the submitted one", unit, detail)
		}
	}
	if disarm != nil {
		recover_(run, unit, b, what, scen)
	}
	return true
}

// read returns the stored checkpoint of the bench's log through the innermost store (never faulted).
func (b *bench) read() []byte {
	b.pause.Store(true)
	defer b.pause.Store(false)
	ro, err := b.hook.Inner.ReadOps(b.l.ID)
	if err != nil {
		return nil
	}
	cp, err := ro.GetLatest()
	if err != nil {
		return nil
	}
	return cp
}

// recover_ is monitor (iii)/(v): with faults off, the honest next step from the committed state is accepted.
func recover_(run *ev.Run, unit int64, b *bench, what, scen string) {
	l := b.l
	snap := b.rn.Snap()
	v := b.rn.View(l, snap)
	comp := l.Compatible(v)
	if v.Has && len(comp) == 0 {
		run.Violate("committed_state_unknown;"+scen, "after faults stopped the stored checkpoint is no tree the log ever signed", unit, map[string]any{"plan": what, "stored": string(v.Raw)})
		return
	}
	br := comp[0]
	next := v.Size + 3
	var ret []byte
	var err error
	if why := b.guarded(func() {
		ret, err = b.rn.W.Update(context.Background(), l.ID, v.Size, l.Honest(br, next), l.Branches[br].Consistency(v.Size, next))
	}); why != "" {
		if why == "inconclusive" {
			run.Inconclusive("watchdog: the next Update after faults stopped did not return (" + what + ")")
		} else {
			run.Violate("next_update_never_returns;"+scen, "after faults stopped the next update did not complete: "+why, unit, map[string]any{"plan": what})
		}
		return
	}
	if err != nil {
		run.Violate("no_progress_after_faults_stop;"+scen, fmt.Sprintf("faults stopped; honest step %d -> %d from the committed state was refused: %v", v.Size, next, err), unit, map[string]any{"plan": what, "stored": string(v.Raw)})
		return
	}
	if got := b.read(); !bytes.Equal(got, ret) {
		run.Violate("false_success_after_faults;"+scen, "fault-free update succeeded but the read differs", unit, map[string]any{"plan": what})
	}
	if why := b.quiescent(); why != "" {
		run.Violate("not_quiescent_after_recovery;"+scen, why, unit, map[string]any{"plan": what})
	}
}
