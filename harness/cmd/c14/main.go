// C14: the assembled omniwitness follows honest logs and stops at a fork.
//
// omniwitness.Main is started from a generated configuration (ConfigLogs) of
// stub logs served from generated trees in the SumDB and tlog-tiles layouts;
// progress is judged in logical steps: checkpoint fetches answered by the stub
// after a publication, never wall-clock deadlines.
package main

import (
	"bytes"
	"context"
	"database/sql"
	"encoding/json"
	"fmt"
	"io"
	"math/rand/v2"
	"net"
	"net/http"
	"path/filepath"
	"strings"
	"sync"
	"time"

	_ "github.com/mattn/go-sqlite3"
	"github.com/transparency-dev/witness/internal/persistence"
	"github.com/transparency-dev/witness/internal/persistence/inmemory"
	psql "github.com/transparency-dev/witness/internal/persistence/sql"
	"github.com/transparency-dev/witness/internal/verif/kit/ev"
	"github.com/transparency-dev/witness/internal/verif/kit/refnote"
	"github.com/transparency-dev/witness/internal/verif/kit/reftree"
	"github.com/transparency-dev/witness/internal/verif/kit/stubs"
	"github.com/transparency-dev/witness/internal/verif/kit/wit"
	"github.com/transparency-dev/witness/omniwitness"
	"golang.org/x/mod/sumdb/note"
)

const K = 5 // poll cycles allowed between a publication and the served checkpoint catching up

var cfgMu sync.Mutex // omniwitness.ConfigLogs is process-wide; Main reads it once at start

type svcLog struct {
	stub *stubs.TileLog
	host string
	id   string
	tree *reftree.Tree
	fork *reftree.Tree
	size uint64
}

type service struct {
	logs            []*svcLog
	keys            *wit.WitKeys
	mux             *stubs.HostMux
	dbPath          string
	ln              net.Listener
	cancel          context.CancelFunc
	done            chan error
	addr            string
	yaml            []byte
	db              *sql.DB // the service's own handle (durable services), observed through Stats only
	noClientTimeout bool
}

// client is the HTTP client handed to Main: with an overall timeout for most services, without one for the
// services that meet a hung tile request (there only the feeder's own per-cycle deadline can end the request).
func (s *service) client() *http.Client {
	if s.noClientTimeout {
		return &http.Client{Transport: s.mux}
	}
	return &http.Client{Transport: s.mux, Timeout: 5 * time.Second}
}

func (s *service) persistence() (persistence.LogStatePersistence, func()) {
	if s.dbPath == "" {
		return inmemory.NewPersistence(), func() {}
	}
	db, err := sql.Open("sqlite3", s.dbPath)
	if err != nil {
		panic(err)
	}
	db.SetMaxOpenConns(1)
	s.db = db
	return psql.NewPersistence(db), func() { db.Close() }
}

// start runs omniwitness.Main on the generated configuration and waits until it serves.
func (s *service) start(mem persistence.LogStatePersistence) (func(), error) {
	ln, err := net.Listen("tcp", "127.0.0.1:0")
	if err != nil {
		return nil, err
	}
	s.ln, s.addr = ln, ln.Addr().String()
	p, closeDB := s.persistence()
	if mem != nil {
		p = mem
	}
	ctx, cancel := context.WithCancel(context.Background())
	s.cancel = cancel
	s.done = make(chan error, 1)
	cfgMu.Lock()
	saved := omniwitness.ConfigLogs
	omniwitness.ConfigLogs = s.yaml
	go func() {
		s.done <- omniwitness.Main(ctx, omniwitness.OperatorConfig{
			WitnessKeys:     s.keys.Signers,
			WitnessVerifier: s.keys.Signers[len(s.keys.Signers)-1].(interface{ Verifier() note.Verifier }).Verifier(),
			FeedInterval:    500 * time.Millisecond, // also the deadline of each feed cycle: generous, so a loaded machine does not time cycles out
		}, p, ln, s.client())
	}()
	ok := false
	for i := 0; i < 500 && !ok; i++ {
		select {
		case err := <-s.done:
			omniwitness.ConfigLogs = saved
			cfgMu.Unlock()
			closeDB()
			return nil, fmt.Errorf("Main returned at start-up: %v", err)
		default:
		}
		if r, err := (&http.Client{Timeout: time.Second}).Get("http://" + s.addr + "/witness/v0/logs"); err == nil {
			r.Body.Close()
			ok = r.StatusCode == 200
		} else {
			time.Sleep(10 * time.Millisecond)
		}
	}
	omniwitness.ConfigLogs = saved
	cfgMu.Unlock()
	if !ok {
		cancel()
		return nil, fmt.Errorf("Main did not start serving")
	}
	return closeDB, nil
}

func (s *service) stop(closeDB func()) error {
	s.cancel()
	select {
	case <-s.done:
	case <-time.After(30 * time.Second):
		return fmt.Errorf("Main did not return after its context was cancelled")
	}
	s.ln.Close()
	closeDB()
	return nil
}

func (s *service) served(id string) (int, []byte) {
	r, err := (&http.Client{Timeout: 5 * time.Second}).Get("http://" + s.addr + "/witness/v0/logs/" + id + "/checkpoint")
	if err != nil {
		return 0, nil
	}
	defer r.Body.Close()
	b, _ := io.ReadAll(r.Body)
	return r.StatusCode, b
}

// matches: served bytes are the published text, with a valid log signature and one valid signature per witness key.
func (s *service) matches(l *svcLog, raw []byte, text string) bool {
	n, err := refnote.Parse(raw)
	if err != nil || n.Text != text {
		return false
	}
	if v, _, _ := l.stub.Key.Key(false).ValidSigs(n); len(v) == 0 {
		return false
	}
	for _, k := range s.keys.Keys {
		if v, _, lines := k.ValidSigs(n); len(v) != 1 || lines != 1 {
			return false
		}
	}
	return true
}

func main() {
	wit.Quiet()
	wit.EnsureMetrics(nil)
	run := ev.Start("C14", "exploration")
	defer run.Finish()
	run.Rule(fmt.Sprintf("unit = one omniwitness.Main service started from a generated configuration of 2-4 stub logs (one SumDB-layout log and tlog-tiles logs, served from generated trees through an in-memory transport) with polling on; each log follows its own growth schedule (size 1, repeated sizes, 255/256/257 and, thorough, 65535/65536/65537); after every publication the served GET checkpoint must equal the published text with valid log and witness signatures before the stub has answered %d further checkpoint fetches (bounded progress in logical steps; a 90 s wall-clock watchdog is inconclusive); services on SQLite files are restarted between steps (served checkpoint text identical and validly cosigned across the restart); finally a log switches to a history that does not extend the witnessed one (a larger fork, the same size with another root, a smaller fork, or a rollback on the same history) and the served checkpoint must stay on the witnessed text for the next 6 poll cycles. evaluations = growth steps + restarts + fork observations judged; nontrivial = distinct (feeder type, storage, size class, event)", K+1))
	run.Assume("feeders poll sequentially per log: when fetch K+1 after a publication has been answered, K full feed cycles have completed", "size-0 first checkpoints are avoided (known finding F2)", "Rekor, Pixel and serverless feeders are not served from generated trees (C17/C19 cover their start-up and hostile responses)")
	run.Floor("growth_steps", 60)
	run.Floor("restarts", 2)
	run.Floor("db_lock_episodes", 1)
	run.Floor("hung_tile_episodes", 1)
	run.Floor("services_with_five_forked_logs", 1)
	run.Floor("fork_observations", 2)
	run.Floor("feeder:sumdb", 10)
	run.Floor("feeder:tiles", 10)
	run.Floor("storage:sqlite", 10)
	run.Floor("storage:memory", 10)
	run.Floor("crossed_256", 6)
	dir := run.Scratch()
	run.Units("service", run.Pick(4, 24), 0, func(unit int64, r *rand.Rand) { oneService(run, unit, r, dir) })
}

func oneService(run *ev.Run, unit int64, r *rand.Rand, dir string) {
	s := &service{mux: stubs.NewHostMux()}
	s.keys, _ = wit.NewWitKeys(r, []bool{false, true}, true)
	durable := unit%2 == 0
	if durable {
		s.dbPath = filepath.Join(dir, fmt.Sprintf("omni-%d.db", unit))
	}
	s.noClientTimeout = unit%4 == 1
	nlogs := 2 + r.IntN(3)
	nforks := 1
	if unit%4 == 3 {
		// many logs, most of them misbehaving at once: the honest ones must still be followed
		nlogs, nforks = 7, 5
	}
	var y strings.Builder
	y.WriteString("Logs:\n")
	for i := 0; i < nlogs; i++ {
		var seed [32]byte
		for j := range seed {
			seed[j] = byte(r.Uint32())
		}
		key := refnote.NewSignKey(fmt.Sprintf("stublog%d.example", i), seed)
		origin := fmt.Sprintf("stub.example/log/%d/%x", i, r.Uint32())
		sumdb := i == 0
		if sumdb {
			origin = "go.sum database tree"
		}
		ts := r.Uint64()
		l := &svcLog{tree: &reftree.Tree{Seed: ts, TagA: 1, TagB: 1, Fork: ^uint64(0)}, host: fmt.Sprintf("log%d.stub", i), id: refnote.LogID(origin)}
		l.stub = stubs.NewTileLog(origin, key, l.tree, sumdb)
		s.mux.Handle(l.host, l.stub)
		s.logs = append(s.logs, l)
		o, _ := json.Marshal(origin)
		feeder := "tiles"
		if sumdb {
			feeder = "sumdb"
		}
		fmt.Fprintf(&y, "  - Origin: %s\n    URL: http://%s/\n    PublicKey: %s\n    Feeder: %s\n", o, l.host, key.Vkey(), feeder)
	}
	s.yaml = []byte(y.String())
	// first publication before start: every log starts at a small non-zero size
	for _, l := range s.logs {
		l.size = 1 + uint64(r.IntN(3))
		l.stub.Publish(nil, l.size)
	}
	var mem persistence.LogStatePersistence
	if !durable {
		mem = inmemory.NewPersistence()
	}
	closeDB, err := s.start(mem)
	if err != nil {
		run.Violate("service_does_not_start", "omniwitness.Main on a generated configuration: "+err.Error(), unit, map[string]any{"yaml": string(s.yaml)})
		return
	}
	storage := "memory"
	if durable {
		storage = "sqlite"
	}
	big := run.Thorough() && unit%3 == 0
	schedule := func(l *svcLog) []uint64 {
		sz := []uint64{l.size, l.size + 1, l.size + 1, 100 + uint64(r.IntN(100)), 255, 256, 256, 257, 300 + uint64(r.IntN(300)), 511, 513, 1000 + uint64(r.IntN(3000))}
		if big {
			sz = append(sz, 65535, 65536, 65537, 70000)
		}
		if unit%4 == 1 || big {
			// level-0 tile index 1000: the first index whose path has a second component
			sz = append(sz, 255990, 256010, 256300)
		}
		return sz
	}
	scheds := map[*svcLog][]uint64{}
	steps := 0
	for _, l := range s.logs {
		scheds[l] = schedule(l)
		if len(scheds[l]) > steps {
			steps = len(scheds[l])
		}
	}
	var trace []string
	failed := false
	fail := func(key, what string, extra map[string]any) {
		failed = true
		extra["trace"], extra["storage"], extra["yaml"] = trace, storage, string(s.yaml)
		run.Violate(key, what, unit, extra)
	}
	// converge waits until every log's served checkpoint equals what its stub publishes.
	converge := func(event string) bool {
		type st struct {
			text  string
			since int
			ok    bool
		}
		state := map[*svcLog]*st{}
		for _, l := range s.logs {
			_, text := l.stub.Checkpoint()
			state[l] = &st{text: text, since: l.stub.Fetches()}
		}
		deadline := time.Now().Add(90 * time.Second)
		lastActivity, lastFetches := time.Now(), -1
		lastPoll := map[*svcLog]time.Time{}
		lastCount := map[*svcLog]int{}
		for _, l := range s.logs {
			lastPoll[l], lastCount[l] = time.Now(), l.stub.Fetches()
		}
		for {
			all := true
			total := 0
			for _, l := range s.logs {
				total += l.stub.Fetches()
			}
			if total != lastFetches {
				lastFetches, lastActivity = total, time.Now()
			}
			if s.db != nil && time.Since(lastActivity) > 30*time.Second {
				// Nothing has moved for 60 poll intervals: no stub was polled and no read was answered.
				// Time only triggers the inspection; the verdict is structural: every pooled connection
				// is in use, requests are queued for one, and nobody outside the service holds the file.
				if st := s.db.Stats(); st.MaxOpenConnections > 0 && st.InUse >= st.MaxOpenConnections && st.WaitCount > 0 {
					fail("service_wedged;event="+event, fmt.Sprintf("the service stopped polling and answering reads: its database pool has %d of %d connections in use and %d requests have queued for one (a transaction left open?)", st.InUse, st.MaxOpenConnections, st.WaitCount), map[string]any{})
					return false
				}
			}
			for _, l := range s.logs {
				x := state[l]
				if x.ok {
					continue
				}
				code, raw := s.served(l.id)
				if code != 0 {
					lastActivity = time.Now()
				}
				if f := l.stub.Fetches(); f != lastCount[l] {
					lastCount[l], lastPoll[l] = f, time.Now()
				} else if code != 0 && time.Since(lastPoll[l]) > 30*time.Second {
					// the service answers its API, yet this log has not been polled for 60 poll intervals
					fail(fmt.Sprintf("log_not_polled;feeder_sumdb=%v;event=%s", l.stub.SumDB, event), fmt.Sprintf("%s published size %d; the service is up (its API answers) but has not fetched this log's checkpoint for %d s (poll interval 0.5 s)", l.host, l.size, int(time.Since(lastPoll[l]).Seconds())), map[string]any{"published": x.text})
					return false
				}
				if code == 200 && s.matches(l, raw, x.text) {
					x.ok = true
					n := l.stub.Fetches() - x.since
					run.Count("growth_steps")
					run.Count("evaluations")
					ft := "tiles"
					if l.stub.SumDB {
						ft = "sumdb"
					}
					run.Count("feeder:" + ft)
					run.Count("storage:" + storage)
					sc := "n"
					switch {
					case l.size <= 3:
						sc = "tiny"
					case l.size >= 255 && l.size <= 257:
						sc = "256"
						run.Count("crossed_256")
					case l.size >= 65535 && l.size <= 65537:
						sc = "65536"
						run.Count("crossed_65536")
					}
					run.Distinct("nontrivial", fmt.Sprintf("%s/%s/%s/%s", ft, storage, sc, event))
					trace = append(trace, fmt.Sprintf("%s: %s size %d served after %d post-publication fetches", event, l.host, l.size, n))
					continue
				}
				all = false
				if n := l.stub.Fetches() - x.since; n >= K+1 {
					_, nf, _ := l.stub.Stats()
					fail(fmt.Sprintf("no_progress;feeder_sumdb=%v;event=%s", l.stub.SumDB, event), fmt.Sprintf("%s published size %d; %d poll cycles later the service still serves status %d / another checkpoint", l.host, l.size, n-1, code), map[string]any{"served": string(raw), "published": x.text, "tile_404s": nf})
					return false
				}
			}
			if all {
				return true
			}
			if time.Now().After(deadline) {
				run.Inconclusive("watchdog: no convergence and fewer than K+1 polls within 90 s")
				return false
			}
			time.Sleep(15 * time.Millisecond)
		}
	}
	okSoFar := converge("start")
	restarts := 0
	for i := 1; i < steps && okSoFar; i++ {
		for _, l := range s.logs {
			if i < len(scheds[l]) && scheds[l][i] >= l.size {
				l.size = scheds[l][i]
				l.stub.Publish(nil, l.size)
			}
		}
		okSoFar = converge("growth")
		if okSoFar && s.noClientTimeout && i == 6 {
			// every log accepts one tile request and never answers it; the feeder's cycle deadline must end
			// that request, and the next cycles must catch up
			// (tiles-feeder logs only: the SumDB client takes no context - a hung SumDB request is bounded by the
			// operator's http.Client timeout alone, which cmd/omniwitness always sets; see DESIGN observation O3)
			for _, l := range s.logs {
				l.size += 300 + uint64(r.IntN(300))
				if !l.stub.SumDB {
					l.stub.HangTile(1 + r.IntN(5)) // which of the cycle's tile requests hangs differs per log
				}
				l.stub.Publish(nil, l.size)
			}
			run.Count("hung_tile_episodes")
			trace = append(trace, "every log grew; the tiles-feeder logs left their next tile request hanging")
			okSoFar = converge("after_hung_tile_request")
		}
		// durable services restart twice on their file; in-memory services restart once on the same
		// persistence object (Init is documented as idempotent: what was witnessed must still be there)
		if okSoFar && ((durable && (i == 3 || i == 7)) || (!durable && i == 5)) {
			before := map[string][]byte{}
			for _, l := range s.logs {
				_, before[l.id] = s.served(l.id)
			}
			// stop polling noise: hold the logs so no refresh lands between the two reads
			for _, l := range s.logs {
				l.stub.Hold(true)
			}
			time.Sleep(300 * time.Millisecond)
			for _, l := range s.logs {
				_, before[l.id] = s.served(l.id)
			}
			if err := s.stop(closeDB); err != nil {
				run.Inconclusive(err.Error())
				return
			}
			closeDB, err = s.start(mem)
			if err != nil {
				fail("service_does_not_restart", "restart on the same store: "+err.Error(), map[string]any{})
				return
			}
			for _, l := range s.logs {
				code, after := s.served(l.id)
				// compared on the checkpoint text (+ validity): a refresh that was in flight when the
				// service stopped may legitimately have renewed the timestamped signature
				bt := ""
				if n, err := refnote.Parse(before[l.id]); err == nil {
					bt = n.Text
				}
				if code != 200 || bt == "" || !s.matches(l, after, bt) {
					fail("served_checkpoint_changed_across_restart", fmt.Sprintf("%s: status %d after restart, bytes equal=%v", l.host, code, bytes.Equal(after, before[l.id])), map[string]any{"before": string(before[l.id]), "after": string(after)})
				}
			}
			for _, l := range s.logs {
				l.stub.Hold(false)
			}
			restarts++
			run.Count("restarts")
			run.Count("evaluations")
			run.Distinct("nontrivial", "restart/"+storage)
			trace = append(trace, "restart")
			okSoFar = converge("after_restart")
		}
	}
	// another connection (a backup job, say) holds the database's write lock for a few poll cycles while
	// the logs grow; once it lets go the service must catch up within the usual bound
	if okSoFar && durable {
		other, err := sql.Open("sqlite3", s.dbPath)
		if err == nil {
			other.SetMaxOpenConns(1)
			_, err = other.Exec("BEGIN IMMEDIATE")
		}
		if err != nil {
			run.Count("db_lock_not_obtained")
		} else {
			base := map[*svcLog]int{}
			for _, l := range s.logs {
				l.size += 1 + uint64(r.IntN(5))
				l.stub.Publish(nil, l.size)
				base[l] = l.stub.Fetches()
			}
			held := time.Now()
			for time.Since(held) < 4*time.Second {
				n := 1 << 30
				for _, l := range s.logs {
					if d := l.stub.Fetches() - base[l]; d < n {
						n = d
					}
				}
				if n >= 2 {
					break
				}
				time.Sleep(20 * time.Millisecond)
			}
			_, _ = other.Exec("ROLLBACK")
			trace = append(trace, fmt.Sprintf("another connection held the write lock for %d ms while every log grew", time.Since(held).Milliseconds()))
			run.Count("db_lock_episodes")
			run.Count("evaluations")
			okSoFar = converge("after_db_lock")
		}
		if other != nil {
			other.Close()
		}
	}
	// fork: one log starts serving a history that does not extend the witnessed one
	var alsoForked []*svcLog
	if okSoFar && nforks > 1 {
		// the other misbehaving logs: each switches to a larger history that does not extend the witnessed one
		for _, o := range s.logs[1:nforks] {
			o.fork = &reftree.Tree{Seed: o.tree.Seed, TagA: 1, TagB: 2, Fork: o.size / 2}
			o.stub.Publish(o.fork, o.size+1+uint64(r.IntN(50)))
			alsoForked = append(alsoForked, o)
		}
		run.Count("services_with_five_forked_logs")
	}
	if okSoFar {
		l := s.logs[r.IntN(len(s.logs))]
		if nforks > 1 {
			l = s.logs[0]
		}
		_, witnessed := l.stub.Checkpoint()
		forkAt := l.size / 2
		l.fork = &reftree.Tree{Seed: l.tree.Seed, TagA: 1, TagB: 2, Fork: forkAt}
		variant := []string{"larger_fork", "same_size_other_root", "smaller_fork", "rollback_same_history"}[int(unit+int64(r.IntN(2)))%4]
		switch variant {
		case "larger_fork":
			l.stub.Publish(l.fork, l.size+1+uint64(r.IntN(50)))
		case "same_size_other_root":
			l.stub.Publish(l.fork, l.size)
		case "smaller_fork":
			l.stub.Publish(l.fork, forkAt+1+uint64(r.IntN(int(l.size-forkAt-1))))
		case "rollback_same_history":
			l.stub.Publish(nil, 1+uint64(r.IntN(int(l.size-1))))
		}
		run.Count("fork_variant:" + variant)
		base := l.stub.Fetches()
		deadline := time.Now().Add(90 * time.Second)
		for l.stub.Fetches()-base < 7 {
			select {
			case err := <-s.done:
				s.done <- err
				fail("service_exited_on_fork;"+variant, fmt.Sprintf("%s started serving a history that does not extend the witnessed one (%s): omniwitness.Main returned %v", l.host, variant, err), map[string]any{"witnessed": witnessed})
				return
			default:
			}
			code, raw := s.served(l.id)
			if code != 200 || !s.matches(l, raw, witnessed) {
				fail(fmt.Sprintf("left_witnessed_history;feeder_sumdb=%v;%s", l.stub.SumDB, variant), fmt.Sprintf("%s switched to a fork at leaf %d; the service now serves status %d / a checkpoint that is not the witnessed one", l.host, forkAt, code), map[string]any{"served": string(raw), "witnessed": witnessed})
				break
			}
			if time.Now().After(deadline) {
				run.Inconclusive("watchdog: fewer than 7 polls within 90 s during the fork observation")
				break
			}
			time.Sleep(20 * time.Millisecond)
		}
		run.Count("fork_observations")
		run.Count("evaluations")
		ft := "tiles"
		if l.stub.SumDB {
			ft = "sumdb"
		}
		run.Distinct("nontrivial", "fork/"+ft+"/"+storage+"/"+variant)
		trace = append(trace, fmt.Sprintf("fork on %s at %d: served checkpoint stayed on the witnessed text for %d polls", l.host, forkAt, l.stub.Fetches()-base))
		// the other logs must still make progress
		forked := map[*svcLog]bool{l: true}
		for _, o := range alsoForked {
			forked[o] = true
		}
		for _, o := range s.logs {
			if !forked[o] {
				o.size += 5
				o.stub.Publish(nil, o.size)
			}
		}
		// (the forked logs never converge: exclude them)
		keep := s.logs
		var rest []*svcLog
		for _, o := range s.logs {
			if !forked[o] {
				rest = append(rest, o)
			}
		}
		s.logs = rest
		converge("beside_forked_log")
		s.logs = keep
	}
	if err := s.stop(closeDB); err != nil && !failed {
		run.Inconclusive(err.Error())
	}
	if unit < 2 {
		run.Sample(map[string]any{"storage": storage, "logs": nlogs, "restarts": restarts, "trace": trace})
	}
}
