// C17: the shipped log configuration loads and is coherent.
//
// Decided by RUNNING the start-up path on the files found in the working tree:
// YAML decode, config.NewLog, AsLogMap, every entry's real feeder started against
// a recording transport that refuses every request, and omniwitness.Main itself.
package main

import (
	"bytes"
	"context"
	"crypto/sha256"
	"encoding/json"
	"errors"
	"fmt"
	"io"
	"math/rand/v2"
	"net"
	"net/http"
	"net/url"
	"os"
	"os/exec"
	"path/filepath"
	"runtime/debug"
	"sort"
	"strings"
	"sync"
	"time"

	"github.com/transparency-dev/witness/internal/config"
	"github.com/transparency-dev/witness/internal/persistence/inmemory"
	"github.com/transparency-dev/witness/internal/verif/kit/asmunits"
	"github.com/transparency-dev/witness/internal/verif/kit/ev"
	"github.com/transparency-dev/witness/internal/verif/kit/refnote"
	"github.com/transparency-dev/witness/internal/verif/kit/seams"
	"github.com/transparency-dev/witness/internal/verif/kit/wit"
	"github.com/transparency-dev/witness/omniwitness"
	"golang.org/x/mod/sumdb/note"
	"gopkg.in/yaml.v3"
)

type refusing struct {
	mu   sync.Mutex
	seen []*url.URL
}

var errRefused = errors.New("verif: transport refuses every request")

func (t *refusing) RoundTrip(q *http.Request) (*http.Response, error) {
	t.mu.Lock()
	u := *q.URL
	t.seen = append(t.seen, &u)
	t.mu.Unlock()
	return nil, errRefused
}

type nullWitness struct{}

func (nullWitness) GetLatestCheckpoint(context.Context, string) ([]byte, error) {
	return nil, os.ErrNotExist
}
func (nullWitness) Update(context.Context, string, uint64, []byte, [][]byte) ([]byte, error) {
	return nil, errors.New("null witness")
}

func main() {
	wit.Quiet()
	if name := os.Getenv("VERIF_C17_CHILD"); name != "" {
		// child: start the assembled service on one shipped file, under the Prometheus-backed metric factory
		// the binary installs by default (a start-up panic ends this process, and the parent reports it)
		wit.ProdMetrics()
		run := ev.Start("C17", "exploration")
		defer run.Finish()
		raw := omniwitness.ConfigLogs
		if name != "logs.yaml" {
			var err error
			if raw, err = os.ReadFile(os.Getenv("VERIF_C17_FILE")); err != nil {
				run.Inconclusive(err.Error())
				return
			}
			omniwitness.ConfigLogs = raw
		}
		startMain(run, name, raw)
		return
	}
	wit.EnsureMetrics(nil)
	run := ev.Start("C17", "exploration")
	defer run.Finish()
	run.Exhaustive(true)
	run.Rule("every entry of omniwitness/logs.yaml and omniwitness/logs_test.yaml as found in the working tree (the former compared with the embedded ConfigLogs) is a case: YAML decode, config.NewLog, AsLogMap collision check, known feeder, well-formed http(s) URL, Rekor treeID present; every entry with a feeder has its real FeedFunc run once against a transport that records and refuses every request (must reach a well-formed request to the configured host and fail with the transport's error, no panic); finally omniwitness.Main is started on each shipped configuration with polling and the REST distributor on: it must serve, and the IDs its distributor looks up (Main's own derived log list, observed at the store) must be exactly the witness map's, and the hosts its feeders poll must be exactly the hosts of the entries whose feeder, read as plain text from the YAML, is not none. evaluations = entries + feeder starts + Main starts; nontrivial = distinct entries that have a feeder")
	run.Assume("network access is replaced by a refusing transport; only start-up and the first request of each feeder are exercised")
	run.Floor("entries", 2)
	repo := os.Getenv("VERIF_REPO")
	if repo == "" {
		repo = "/repo"
	}
	for _, f := range []string{"logs.yaml", "logs_test.yaml"} {
		raw, err := os.ReadFile(filepath.Join(repo, "omniwitness", f))
		if err != nil {
			run.Inconclusive("cannot read " + f + ": " + err.Error())
			return
		}
		if f == "logs.yaml" && !bytes.Equal(raw, omniwitness.ConfigLogs) {
			run.Inconclusive("embedded ConfigLogs differs from omniwitness/logs.yaml in the working tree (stale build?)")
			return
		}
		checkFile(run, f, raw)
	}
	if run.ViolationCount() > 0 {
		// Main would fail or crash the process for the reasons already recorded
		return
	}
	// the assembled service is started in a child process per shipped file, as the binary runs it
	self, _ := os.Executable()
	dir := run.Scratch()
	for _, name := range []string{"logs.yaml", "logs_test.yaml"} {
		out := filepath.Join(dir, "child-"+name+".json")
		cmd := exec.Command(self)
		cmd.Env = append(os.Environ(), "VERIF_C17_CHILD="+name, "VERIF_C17_FILE="+filepath.Join(repo, "omniwitness", name), "VERIF_EXPORT="+out, "VERIF_WORKER_TAG=child-"+name+"-")
		cmd.Dir = dir
		o, err := cmd.CombinedOutput()
		if err != nil {
			run.Count("evaluations")
			run.Violate("process_dies_starting_shipped_config;"+name, fmt.Sprintf("%s: the process that starts omniwitness.Main on the shipped configuration (Prometheus metric factory, polling and distributor on) died: %v", name, err), -1, map[string]any{"output": tailOf(string(o), 1500)})
			continue
		}
		if err := run.Merge(out); err != nil {
			run.Inconclusive("child output unreadable: " + err.Error())
		}
	}
	// the witness map and the feeder list must still describe the same logs when the service is started on a
	// store that already holds checkpoints (generated configurations: the shipped logs' keys cannot be signed with)
	run.Floor("assembled_progress_episodes", 5)
	run.Units("asm_restart", run.Pick(6, 24), 6, func(unit int64, r *rand.Rand) {
		asmunits.Progress(run, unit, r, "restart_with_stored_state")
	})
}

func tailOf(s string, n int) string {
	if len(s) > n {
		return s[len(s)-n:]
	}
	return s
}

func checkFile(run *ev.Run, name string, raw []byte) {
	var cfg omniwitness.LogConfig
	if err := yaml.Unmarshal(raw, &cfg); err != nil {
		run.Violate("yaml_does_not_load;"+name, name+" does not decode: "+err.Error(), -1, nil)
		return
	}
	if len(cfg.Logs) == 0 {
		run.Violate("no_entries;"+name, name+" has no log entries", -1, nil)
		return
	}
	m, err := cfg.AsLogMap()
	if err != nil {
		run.Violate("aslogmap_fails;"+name, name+": building the witness map fails: "+err.Error(), -1, nil)
	}
	var feederIDs []string
	seenOrigin := map[string]int{}
	for i, l := range cfg.Logs {
		run.Count("evaluations")
		run.Count("entries")
		ent := fmt.Sprintf("%s#%d(%s)", name, i, l.Origin)
		d := map[string]any{"file": name, "index": i, "origin": l.Origin, "url": l.URL, "public_key": l.PublicKey, "feeder": fmt.Sprint(l.Feeder)}
		if j, dup := seenOrigin[l.Origin]; dup {
			run.Violate("duplicate_origin;"+name, fmt.Sprintf("%s: entries %d and %d share origin %q", name, j, i, l.Origin), -1, d)
		}
		seenOrigin[l.Origin] = i
		if l.Feeder == 0 || l.Feeder > omniwitness.None {
			run.Violate("unknown_feeder;"+ent, ent+": feeder type is not a known one", -1, d)
			continue
		}
		cl, err := config.NewLog(l.Origin, l.PublicKey, l.URL)
		if err != nil {
			run.Violate("key_does_not_parse;"+ent, ent+": public key does not parse into a verifier: "+err.Error(), -1, d)
			continue
		}
		if cl.ID != refnote.LogID(l.Origin) {
			run.Violate("id_mismatch;"+ent, ent+": config ID differs from the origin's ID", -1, d)
		}
		feederIDs = append(feederIDs, cl.ID)
		// the witness map's entry for this ID must describe THIS entry: its origin and its key
		if err == nil {
			info, ok := m[cl.ID]
			switch {
			case !ok:
				run.Violate("witness_map_lacks_entry;"+ent, ent+": the witness map has no entry under this entry's ID", -1, d)
			case info.Origin != l.Origin:
				d["witness_map_origin"] = info.Origin
				run.Violate("witness_map_origin_differs;"+ent, fmt.Sprintf("%s: the witness map files this ID with origin %q", ent, info.Origin), -1, d)
			case info.SigV == nil || info.SigV.Name() != cl.Verifier.Name() || info.SigV.KeyHash() != cl.Verifier.KeyHash():
				run.Violate("witness_map_key_differs;"+ent, ent+": the witness map verifies this ID with another key than the entry's", -1, d)
			}
			run.Count("witness_map_entries_compared")
		}
		if l.Origin == "" || strings.Contains(l.Origin, "\n") {
			run.Violate("bad_origin;"+ent, ent+": origin empty or multi-line", -1, d)
		}
		pu, perr := url.Parse(l.URL)
		fileURL := perr == nil && pu.Scheme == "file" && l.Feeder == omniwitness.Serverless // the serverless feeder also supports file URLs
		if !fileURL && (perr != nil || (pu.Scheme != "http" && pu.Scheme != "https") || pu.Host == "") {
			run.Violate("bad_url;"+ent, fmt.Sprintf("%s: URL %q is not a well-formed http(s) URL", ent, l.URL), -1, d)
			continue
		}
		if l.Feeder == omniwitness.Rekor && pu.Query().Get("treeID") == "" {
			run.Violate("rekor_without_treeid;"+ent, ent+": Rekor URL lacks the treeID query parameter", -1, d)
		}
		if l.Feeder == omniwitness.None {
			continue
		}
		run.Distinct("nontrivial", ent)
		// run the real feeder once against the refusing transport
		tr := &refusing{}
		var ferr error
		var panicked any
		var stack string
		done := make(chan struct{})
		go func() {
			defer close(done)
			defer func() {
				if p := recover(); p != nil {
					panicked, stack = p, string(debug.Stack())
				}
			}()
			ctx, cancel := context.WithTimeout(context.Background(), 10*time.Second)
			defer cancel()
			ferr = l.Feeder.FeedFunc()(ctx, cl, nullWitness{}, &http.Client{Transport: tr}, 0)
		}()
		select {
		case <-done:
		case <-time.After(30 * time.Second):
			run.Inconclusive("watchdog: feeder start for " + ent + " did not return")
			return
		}
		run.Count("evaluations")
		run.Count("feeder_starts")
		d["feeder_error"] = fmt.Sprint(ferr)
		switch {
		case panicked != nil:
			d["stack"] = stack
			run.Violate("feeder_panics;"+ent, fmt.Sprintf("%s: starting the feeder panics: %v", ent, panicked), -1, d)
		case fileURL:
			// nothing to request over HTTP
		case len(tr.seen) == 0:
			run.Violate("feeder_cannot_start;"+ent, fmt.Sprintf("%s: the feeder failed before issuing any request: %v", ent, ferr), -1, d)
		default:
			q := tr.seen[0]
			d["first_request"] = q.String()
			if q.Host != pu.Host || q.Scheme != pu.Scheme {
				run.Violate("feeder_wrong_host;"+ent, fmt.Sprintf("%s: first request goes to %s://%s, configured %s://%s", ent, q.Scheme, q.Host, pu.Scheme, pu.Host), -1, d)
			}
			if ferr == nil || !strings.Contains(ferr.Error(), errRefused.Error()) {
				run.Violate("feeder_error_not_transport;"+ent, fmt.Sprintf("%s: expected the transport's error, got %v", ent, ferr), -1, d)
			}
		}
		if len(tr.seen) > 0 {
			run.Sample(map[string]any{"entry": ent, "feeder": fmt.Sprint(l.Feeder), "first_request": tr.seen[0].String(), "result": fmt.Sprint(ferr)[:min(len(fmt.Sprint(ferr)), 120)]})
		}
	}
	if err == nil {
		var mapIDs []string
		for id := range m {
			mapIDs = append(mapIDs, id)
		}
		sort.Strings(mapIDs)
		sort.Strings(feederIDs)
		if fmt.Sprint(mapIDs) != fmt.Sprint(feederIDs) {
			run.Violate("witness_map_and_feeder_list_differ;"+name, "the witness map and the feeder/bastion list do not describe the same logs", -1, map[string]any{"map": mapIDs, "list": feederIDs})
		}
	}
	rekorShards(run, name, cfg)
}

// recWitness records what a feeder submits; it holds an earlier checkpoint so that the feeder has to ask for a proof.
type recWitness struct {
	mu      sync.Mutex
	latest  []byte
	updates []string // "logID\x00first line of the checkpoint"
}

func (w *recWitness) GetLatestCheckpoint(context.Context, string) ([]byte, error) {
	return w.latest, nil
}
func (w *recWitness) Update(_ context.Context, id string, _ uint64, cp []byte, _ [][]byte) ([]byte, error) {
	w.mu.Lock()
	defer w.mu.Unlock()
	w.updates = append(w.updates, id+"\x00"+strings.SplitN(string(cp), "\n", 2)[0])
	return cp, nil
}

// rekorHost plays one Rekor deployment: its log info lists a signed tree head for every shard configured on this host.
type rekorHost struct {
	mu      sync.Mutex
	info    []byte
	proofs  []string // treeID parameter of every proof request
	unknown []string // requests for anything else
}

func (t *rekorHost) RoundTrip(q *http.Request) (*http.Response, error) {
	t.mu.Lock()
	defer t.mu.Unlock()
	body := []byte("{}")
	code := 200
	switch strings.TrimSuffix(q.URL.Path, "/") {
	case "/api/v1/log":
		body = t.info
	case "/api/v1/log/proof":
		t.proofs = append(t.proofs, q.URL.Query().Get("treeID"))
		body = []byte(`{"hashes":[]}`)
	default:
		t.unknown = append(t.unknown, q.URL.String())
		code = 404
	}
	return &http.Response{StatusCode: code, Status: http.StatusText(code), Proto: "HTTP/1.1", ProtoMajor: 1, ProtoMinor: 1, Header: http.Header{"Content-Type": {"application/json"}},
		Body: io.NopCloser(bytes.NewReader(body)), ContentLength: int64(len(body)), Request: q}, nil
}

// rekorShards: the shipped Rekor entries of one host differ only in the treeID of their URL. Each entry's real feeder,
// started one after the other in this process (as Main does), must work from ITS OWN URL: with the shipped origin and
// URL and a stand-in key (the shipped keys cannot sign), against a host that serves a signed tree head for every
// configured shard, it must ask for a proof in its own tree and submit the checkpoint of its own origin under its own ID.
func rekorShards(run *ev.Run, name string, cfg omniwitness.LogConfig) {
	type shard struct {
		idx            int
		origin, treeID string
		url            string
		key            *refnote.SignKey
		id             string
	}
	byHost := map[string][]*shard{}
	var hosts []string
	for i, l := range cfg.Logs {
		if l.Feeder != omniwitness.Rekor {
			continue
		}
		pu, err := url.Parse(l.URL)
		cl, err2 := config.NewLog(l.Origin, l.PublicKey, l.URL)
		if err != nil || err2 != nil || pu.Query().Get("treeID") == "" {
			continue // reported by the per-entry pass
		}
		var seed [32]byte
		copy(seed[:], fmt.Sprintf("verif-c17-rekor-%s-%d", name, i))
		if _, ok := byHost[pu.Host]; !ok {
			hosts = append(hosts, pu.Host)
		}
		byHost[pu.Host] = append(byHost[pu.Host], &shard{idx: i, origin: l.Origin, treeID: pu.Query().Get("treeID"), url: l.URL, key: refnote.NewSignKey(cl.Verifier.Name(), seed), id: cl.ID})
	}
	for _, h := range hosts {
		shards := byHost[h]
		type inactive struct {
			SignedTreeHead string `json:"signedTreeHead"`
			TreeID         string `json:"treeID"`
			TreeSize       int64  `json:"treeSize"`
		}
		info := struct {
			SignedTreeHead string     `json:"signedTreeHead"`
			RootHash       string     `json:"rootHash"`
			TreeID         string     `json:"treeID"`
			TreeSize       int64      `json:"treeSize"`
			InactiveShards []inactive `json:"inactiveShards"`
		}{}
		sth := func(sh *shard, size uint64) []byte {
			root := sha256.Sum256([]byte(fmt.Sprintf("%s/%d", sh.origin, size)))
			text := refnote.Body(sh.origin, size, root[:])
			return refnote.Assemble(text, sh.key.SigLine(text))
		}
		// the LAST configured shard is the active one, the others are inactive (as on the real deployment)
		for k, sh := range shards {
			if k == len(shards)-1 {
				info.SignedTreeHead, info.TreeID, info.TreeSize = string(sth(sh, 20)), sh.treeID, 20
			} else {
				info.InactiveShards = append(info.InactiveShards, inactive{string(sth(sh, 20)), sh.treeID, 20})
			}
		}
		ib, _ := json.Marshal(info)
		for _, sh := range shards {
			ent := fmt.Sprintf("%s#%d(%s)", name, sh.idx, sh.origin)
			v, err := note.NewVerifier(sh.key.Vkey())
			if err != nil {
				run.Inconclusive("rekor shard unit: cannot build a stand-in verifier for " + ent + ": " + err.Error())
				return
			}
			tr := &rekorHost{info: ib}
			w := &recWitness{latest: sth(sh, 10)}
			var ferr error
			var panicked any
			done := make(chan struct{})
			go func() {
				defer close(done)
				defer func() { panicked = recover() }()
				ctx, cancel := context.WithTimeout(context.Background(), 10*time.Second)
				defer cancel()
				ferr = omniwitness.Rekor.FeedFunc()(ctx, config.Log{ID: sh.id, Origin: sh.origin, URL: sh.url, Verifier: v}, w, &http.Client{Transport: tr}, 0)
			}()
			select {
			case <-done:
			case <-time.After(40 * time.Second):
				run.Inconclusive("watchdog: rekor shard feeder for " + ent + " did not return")
				return
			}
			run.Count("evaluations")
			run.Count("rekor_shard_feeds")
			run.Distinct("nontrivial", "rekor-shard/"+ent)
			d := map[string]any{"entry": ent, "url": sh.url, "tree_id": sh.treeID, "host_shards": len(shards), "feeder_error": fmt.Sprint(ferr), "proof_tree_ids": tr.proofs, "updates": w.updates, "other_requests": tr.unknown}
			want := sh.id + "\x00" + sh.origin
			switch {
			case panicked != nil:
				run.Violate("feeder_panics;"+ent, fmt.Sprintf("%s: the Rekor feeder panics: %v", ent, panicked), -1, d)
			case len(tr.unknown) > 0:
				run.Inconclusive(fmt.Sprintf("rekor shard unit: the feeder for %s asked for %s, which the stand-in host does not play", ent, tr.unknown[0]))
				return
			default:
				for _, u := range w.updates {
					if u != want {
						run.Violate("rekor_feeder_submits_other_shard;"+ent, fmt.Sprintf("%s: the feeder configured with treeID %s submitted %q", ent, sh.treeID, strings.ReplaceAll(u, "\x00", " / ")), -1, d)
					}
				}
				for _, tID := range tr.proofs {
					if tID != sh.treeID {
						run.Violate("rekor_feeder_asks_other_tree;"+ent, fmt.Sprintf("%s: configured treeID %s, proof requested in tree %s", ent, sh.treeID, tID), -1, d)
					}
				}
				if len(w.updates) == 0 && ferr != nil && (errors.Is(ferr, context.DeadlineExceeded) || strings.Contains(ferr.Error(), "deadline exceeded")) {
					run.Inconclusive("watchdog: rekor shard feeder for " + ent + " ran out of time: " + ferr.Error())
					return
				}
				if len(w.updates) == 0 {
					run.Violate("rekor_feeder_does_not_follow_its_shard;"+ent, fmt.Sprintf("%s: the host served a signed tree head for treeID %s (one of %d shards on %s), the feeder submitted nothing: %v", ent, sh.treeID, len(shards), h, ferr), -1, d)
				}
			}
			run.Sample(map[string]any{"entry": ent, "rekor_shard": sh.treeID, "proof_tree_ids": tr.proofs, "submitted": len(w.updates), "result": fmt.Sprint(ferr)})
		}
	}
}

// startMain runs omniwitness.Main on the shipped configuration with polling on.
func startMain(run *ev.Run, name string, raw []byte) {
	keys, _ := wit.NewWitKeys(run.Rand("keys", 0), []bool{false, true}, true)
	ln, err := net.Listen("tcp", "127.0.0.1:0")
	if err != nil {
		run.Inconclusive(err.Error())
		return
	}
	defer ln.Close()
	tr := &refusing{}
	// the store records which log IDs the assembled service asks about: the distributor looks up every log of Main's own list
	store := seams.NewHookStore(inmemory.NewPersistence())
	var lmu sync.Mutex
	looked := map[string]bool{}
	store.SetHook(func(op, id string) error {
		if op == seams.OpReadOps {
			lmu.Lock()
			looked[id] = true
			lmu.Unlock()
		}
		return nil
	})
	ctx, cancel := context.WithCancel(context.Background())
	done := make(chan error, 1)
	var panicked any
	go func() {
		defer func() {
			if p := recover(); p != nil {
				panicked = p
				done <- fmt.Errorf("panic: %v", p)
			}
		}()
		done <- omniwitness.Main(ctx, omniwitness.OperatorConfig{WitnessKeys: keys.Signers, WitnessVerifier: keys.Signers[1].(interface{ Verifier() note.Verifier }).Verifier(), FeedInterval: 100 * time.Millisecond,
			RestDistributorBaseURL: "http://distributor.invalid", DistributeInterval: 150 * time.Millisecond},
			store, ln, &http.Client{Transport: tr})
	}()
	run.Count("evaluations")
	ok := false
	for i := 0; i < 300 && !ok; i++ {
		select {
		case err := <-done:
			run.Violate("main_fails_on_shipped_config", fmt.Sprintf("omniwitness.Main returned %v on the shipped configuration", err), -1, nil)
			cancel()
			return
		default:
		}
		resp, err := (&http.Client{Timeout: time.Second}).Get("http://" + ln.Addr().String() + "/witness/v0/logs")
		if err == nil {
			resp.Body.Close()
			ok = resp.StatusCode == 200
		} else {
			time.Sleep(10 * time.Millisecond)
		}
	}
	// The feeder list Main derives must describe the logs the YAML text describes: read the feeder NAME of
	// every entry as plain text (no enum involved). Hosts of entries with a feeder must be polled; hosts that
	// only belong to entries configured "none" must never be. Waiting is in logical steps: a host is judged
	// never-polled once every other expected host has been polled three times (20 s watchdog: inconclusive).
	var plain struct {
		Logs []struct {
			Origin string `yaml:"Origin"`
			URL    string `yaml:"URL"`
			Feeder string `yaml:"Feeder"`
		} `yaml:"Logs"`
	}
	_ = yaml.Unmarshal(raw, &plain)
	expectHost, noneHost := map[string]string{}, map[string]string{}
	for _, e := range plain.Logs {
		pu, err := url.Parse(e.URL)
		if err != nil || pu.Host == "" {
			continue
		}
		if strings.EqualFold(strings.TrimSpace(e.Feeder), "none") {
			noneHost[pu.Host] = e.Origin
		} else {
			expectHost[pu.Host] = e.Origin
		}
	}
	for h := range expectHost {
		delete(noneHost, h)
	}
	polled := func() map[string]int {
		tr.mu.Lock()
		defer tr.mu.Unlock()
		m := map[string]int{}
		for _, u := range tr.seen {
			m[u.Host]++
		}
		return m
	}
	pollDeadline := time.Now().Add(20 * time.Second)
	var neverPolled []string
	for ok {
		m := polled()
		neverPolled = nil
		others := true
		for h := range expectHost {
			if m[h] == 0 {
				neverPolled = append(neverPolled, h)
			} else if m[h] < 3 {
				others = false
			}
		}
		if len(neverPolled) == 0 || (others && len(neverPolled) < len(expectHost)) {
			break
		}
		if time.Now().After(pollDeadline) {
			run.Inconclusive("watchdog: the feeders of the shipped configuration did not poll within 20 s")
			neverPolled = nil
			break
		}
		time.Sleep(20 * time.Millisecond)
	}
	time.Sleep(200 * time.Millisecond)
	if ok {
		m := polled()
		sort.Strings(neverPolled)
		for _, h := range neverPolled {
			run.Violate("configured_feeder_never_polls;"+name, fmt.Sprintf("%s: %q is configured with a feeder, yet the running service never polled %s while every other feeder completed three cycles", name, expectHost[h], h), -1, map[string]any{"polled": m})
		}
		var wrongly []string
		for h := range noneHost {
			if m[h] > 0 {
				wrongly = append(wrongly, h)
			}
		}
		sort.Strings(wrongly)
		for _, h := range wrongly {
			run.Violate("feeder_none_is_polled;"+name, fmt.Sprintf("%s: %q is configured with feeder none, yet the running service polled %s", name, noneHost[h], h), -1, map[string]any{"polled": m})
		}
		run.Add("feeder_hosts_judged", int64(len(expectHost)+len(noneHost)))
	}
	select {
	case err := <-done:
		run.Violate("main_exits_while_polling", fmt.Sprintf("omniwitness.Main returned %v while polling the shipped logs", err), -1, nil)
		cancel()
		return
	default:
	}
	cancel()
	select {
	case <-done:
	case <-time.After(20 * time.Second):
		run.Inconclusive("watchdog: Main did not return after cancel")
		return
	}
	_ = panicked
	if !ok {
		run.Violate("main_not_serving", "omniwitness.Main did not serve its HTTP API on the shipped configuration", -1, nil)
		return
	}
	// Main's list (seen through the distributor) and the witness map must describe the same logs
	var cfg omniwitness.LogConfig
	if err := yaml.Unmarshal(raw, &cfg); err == nil {
		if m, err := cfg.AsLogMap(); err == nil {
			var missing []string
			lmu.Lock()
			for id, info := range m {
				if !looked[id] {
					missing = append(missing, info.Origin)
				}
			}
			var extra []string
			for id := range looked {
				if _, ok := m[id]; !ok {
					extra = append(extra, id)
				}
			}
			lmu.Unlock()
			sort.Strings(missing)
			if len(missing) > 0 || len(extra) > 0 {
				run.Violate("main_log_list_differs_from_witness_map;"+name, fmt.Sprintf("%s: the running service never distributes %d log(s) the witness knows (%v) and looks up %d unknown ID(s)", name, len(missing), missing, len(extra)), -1, map[string]any{"missing_origins": missing, "extra_ids": extra})
			}
			run.Count("main_list_vs_map_checked")
		}
	}
	tr.mu.Lock()
	hosts := map[string]int{}
	for _, u := range tr.seen {
		hosts[u.Host]++
	}
	tr.mu.Unlock()
	run.Count("main_started")
	run.Extra("main_polled_hosts:"+name, hosts)
}
