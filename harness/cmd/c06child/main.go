// c06child is the process that gets killed: a real Witness on a file-backed
// SQLite store opened through the wrapping driver with the production pool
// setting, executing a script of updates and acknowledging each outcome with a
// single write(2) to an append-only file.
package main

import (
	"context"
	"crypto/sha256"
	"encoding/json"
	"fmt"
	"os"
	"runtime"
	"strconv"
	"strings"
	"syscall"

	f_note "github.com/transparency-dev/formats/note"
	"github.com/transparency-dev/merkle/rfc6962"
	psql "github.com/transparency-dev/witness/internal/persistence/sql"
	"github.com/transparency-dev/witness/internal/verif/kit/seams"
	"github.com/transparency-dev/witness/internal/verif/kit/wit"
	"github.com/transparency-dev/witness/internal/witness"
	"golang.org/x/mod/sumdb/note"
)

// Script is what the parent hands to the child.
type Script struct {
	DB     string
	Ack    string
	OpsLog string
	Logs   []struct{ ID, Origin, Vkey string }
	Skeys  []struct {
		Skey    string
		CosigV1 bool
	}
	Updates []struct {
		ID    int
		LogID string
		Old   uint64
		CP    []byte
		Proof [][]byte
	}
	// KillAt: operation index and phase ("before"/"after") at which the child kills itself; -1 = never.
	KillAt    int
	KillPhase string
	// FailAt >= 0: return an I/O error from that driver operation instead (used by C07's process-level pass).
}

func main() {
	runtime.LockOSThread() // all SQLite syscalls on one thread: syscall-level injection indexes are stable
	wit.Quiet()
	wit.EnsureMetrics(nil)
	b, err := os.ReadFile(os.Args[1])
	if err != nil {
		fmt.Println(err)
		os.Exit(2)
	}
	var sc Script
	if err := json.Unmarshal(b, &sc); err != nil {
		fmt.Println(err)
		os.Exit(2)
	}
	if v := os.Getenv("VERIF_KILL_AT"); v != "" {
		parts := strings.SplitN(v, ":", 2)
		sc.KillAt, _ = strconv.Atoi(parts[0])
		sc.KillPhase = parts[1]
	}
	plan := &seams.SQLPlan{}
	if sc.KillAt >= 0 {
		plan.SetHook(func(op string, idx int, phase string) error {
			if idx == sc.KillAt && phase == sc.KillPhase {
				_ = syscall.Kill(os.Getpid(), syscall.SIGKILL)
				select {} // never reached
			}
			return nil
		})
	}
	db := seams.OpenVSQLite(sc.DB, plan)
	known := map[string]witness.LogInfo{}
	for _, l := range sc.Logs {
		v, err := f_note.NewVerifier(l.Vkey)
		if err != nil {
			fmt.Println(err)
			os.Exit(2)
		}
		known[l.ID] = witness.LogInfo{SigV: v, Origin: l.Origin, Hasher: rfc6962.DefaultHasher}
	}
	var signers []note.Signer
	for _, k := range sc.Skeys {
		var s note.Signer
		if k.CosigV1 {
			s, err = f_note.NewSignerForCosignatureV1(k.Skey)
		} else {
			s, err = note.NewSigner(k.Skey)
		}
		if err != nil {
			fmt.Println(err)
			os.Exit(2)
		}
		signers = append(signers, s)
	}
	ack, err := os.OpenFile(sc.Ack, os.O_WRONLY|os.O_APPEND|os.O_CREATE, 0o644)
	if err != nil {
		fmt.Println(err)
		os.Exit(2)
	}
	w, err := witness.New(witness.Opts{Persistence: psql.NewPersistence(db), Signers: signers, KnownLogs: known})
	if err != nil {
		fmt.Println("witness.New:", err)
		os.Exit(2)
	}
	_, _ = ack.Write([]byte("READY\n"))
	for _, u := range sc.Updates {
		ret, err := w.Update(context.Background(), u.LogID, u.Old, u.CP, u.Proof)
		if err == nil {
			_, _ = ack.Write([]byte(fmt.Sprintf("ACK %d %x\n", u.ID, sha256.Sum256(ret))))
		} else {
			_, _ = ack.Write([]byte(fmt.Sprintf("NAK %d %s\n", u.ID, strings.ReplaceAll(err.Error(), "\n", " "))))
		}
	}
	_, _ = ack.Write([]byte("DONE\n"))
	if sc.OpsLog != "" {
		ob, _ := json.Marshal(plan.Ops())
		_ = os.WriteFile(sc.OpsLog, ob, 0o644)
	}
}
