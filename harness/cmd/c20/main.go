// C20: operational counters tell the truth about update outcomes.
//
// A recording metric factory is installed before the first witness is created
// (the factory and the witness's counters are process-wide, once-only). Around
// every Update the delta of every counter for every label of the unit is taken
// and compared with what the reference model says the outcome was.
package main

import (
	"context"
	"errors"
	"fmt"
	"github.com/transparency-dev/witness/internal/persistence"
	"github.com/transparency-dev/witness/internal/witness"
	"math/rand/v2"
	"sort"
	"sync"
	"sync/atomic"
	"time"

	"github.com/transparency-dev/witness/internal/verif/kit/asm"
	"github.com/transparency-dev/witness/internal/verif/kit/asmunits"
	"github.com/transparency-dev/witness/internal/verif/kit/ev"
	"github.com/transparency-dev/witness/internal/verif/kit/gen"
	"github.com/transparency-dev/witness/internal/verif/kit/refwitness"
	"github.com/transparency-dev/witness/internal/verif/kit/seams"
	"github.com/transparency-dev/witness/internal/verif/kit/wit"
)

const (
	cAttempt      = "witness_update_request"
	cSuccess      = "witness_update_success"
	cInvalid      = "witness_update_invalid_consistency"
	cInconsistent = "witness_update_inconsistent_checkpoints"
)

func main() {
	run := ev.Start("C20", "exploration")
	defer run.Finish()
	rec := seams.NewRecMetrics()
	wit.EnsureMetrics(rec)
	run.Rule("unit = one generated hostile history over 1-4 logs (explicit and region trees, all three stores, storage faults in ~6% of requests); around every Update the delta of all witness counters for all labels of the unit (configured IDs and the ID named in the request) is compared with the reference model's verdict. evaluations = update requests judged; nontrivial = distinct (model class, fault, counter delta vector) tuples")
	run.Assume("log IDs are unique per unit, so process-wide counters are attributable per unit although units run in parallel", "out-of-claim / ambiguous requests (see C09) are judged only on the attempt and success counters")
	for c := refwitness.UnknownLog; c <= refwitness.Accept; c++ {
		run.Floor("class:"+c.String(), 200)
	}
	run.Floor("class:storage_failure", 200)
	dir := run.Scratch()
	if err := asm.SetupTLS(dir); err != nil {
		run.Inconclusive("stub bastion certificate: " + err.Error())
		return
	}
	// the assembled service: counters against requests sent and answers received, identical requests overlapping
	run.Floor("assembled_identical_requests_overlapping", 8)
	run.Units("asm_counters", run.Pick(4, 24), 4, func(unit int64, r *rand.Rand) { asmunits.Counters(run, unit, r, rec) })
	run.Units("hist", run.Pick(2500, 50000), 0, func(unit int64, r *rand.Rand) {
		o := wit.HistOpts{Gen: gen.Opts{NLogs: 1 + r.IntN(4), MaxSize: 40, Branches: 2 + r.IntN(2), ShareKeys: true, Big: unit%6 == 5, BigBits: 50}, MinSteps: 20, MaxSteps: 50, FaultProb: 0.06, DriverFaults: true, Dir: dir}
		expected := map[string]int64{}
		var labels []string
		var before map[string]int64
		var h0 *wit.Hist
		h, err := wit.RunHistory(r, o, func(h *wit.Hist, s *wit.Step, i int) {
			h0 = h
			if labels == nil {
				for _, l := range h.Rn.U.Logs {
					labels = append(labels, l.ID)
				}
				before = map[string]int64{} // all zero: fresh IDs
			}
			ls := labels
			if !s.Known {
				ls = append(append([]string{}, labels...), s.Req.LogID)
			}
			after := rec.ForLabels(ls)
			for k := range before {
				if _, ok := after[k]; !ok {
					after[k] = before[k]
				}
			}
			d := seams.Delta(before, after)
			// keep unknown-ID labels in "before" so a late increment is still seen as a delta
			before = after
			id := s.Req.LogID
			want := map[string]int64{}
			class := s.Class.String()
			full := !s.Ambiguous && !s.OutClaim
			if s.Known {
				want[cAttempt+"|"+id] = 1
			}
			if s.Err == nil {
				want[cSuccess+"|"+id] = 1
			}
			if h.FaultFired != "" {
				class = "storage_failure"
				full = true
			} else if full {
				switch s.Class {
				case refwitness.BadProof:
					want[cInvalid+"|"+id] = 1
				case refwitness.RootMismatch:
					want[cInconsistent+"|"+id] = 1
				}
			}
			run.Count("evaluations")
			run.Count("class:" + class)
			for k, v := range want {
				expected[k] += v
			}
			if !full {
				// judge attempt and success only
				for k := range d {
					if k != cAttempt+"|"+id && k != cSuccess+"|"+id {
						expected[k] += d[k]
						delete(d, k)
					}
				}
			}
			run.Distinct("nontrivial", fmt.Sprintf("%s/%v/%s", class, full, vec(d, id)))
			if !same(d, want) {
				run.Violate(fmt.Sprintf("counter_delta;class=%s;got=%s;want=%s", class, vec(d, id), vec(want, id)),
					fmt.Sprintf("outcome %s (err=%v): counters moved by %s, expected %s", class, s.Err, vec(d, id), vec(want, id)), unit,
					map[string]any{"trace": h.Trace, "store": h.Kind, "delta": d, "want": want, "request": s.Req.String()})
			}
			if unit == 0 && i < 4 {
				run.Sample(map[string]any{"request": s.Req.String(), "class": class, "err": fmt.Sprint(s.Err), "delta": vec(d, id)})
			}
		})
		defer h.Close()
		if err != nil {
			run.Inconclusive(err.Error())
			return
		}
		// totals
		if h0 != nil {
			final := rec.ForLabels(labels)
			for _, l := range labels {
				for _, c := range []string{cAttempt, cSuccess, cInvalid, cInconsistent} {
					k := c + "|" + l
					if final[k] != expected[k] {
						run.Violate("counter_total;"+c, fmt.Sprintf("end of history: %s = %d, sum of expected increments = %d", k, final[k], expected[k]), unit, map[string]any{"trace": h0.Trace})
					}
				}
			}
		}
	})
	run.Floor("concurrent_requests", 2000)
	run.Units("concurrent", run.Pick(120, 1200), 0, func(unit int64, r *rand.Rand) { concurrent(run, unit, r, rec, dir) })
}

// concurrent: 6-16 goroutines send mixed requests for 1-3 logs at once, some under a context that is
// already cancelled or expires while the request runs. Whatever the interleaving, the totals are decided
// by what each request named and by what it got back: attempts = requests that named the (known) log,
// successes = nil errors, invalid-consistency = ErrInvalidProof answers, inconsistent = ErrRootMismatch answers.
func concurrent(run *ev.Run, unit int64, r *rand.Rand, rec *seams.RecMetrics, dir string) {
	u := gen.NewUniverse(r, gen.Opts{NLogs: 1 + r.IntN(3), MaxSize: 60, Branches: 2, Unique: true})
	st, err := wit.NewStore(wit.DrawStore(r), dir)
	if err != nil {
		run.Inconclusive(err.Error())
		return
	}
	defer st.Close()
	keys, _ := wit.NewWitKeys(r, []bool{false, true}, true)
	// a slow store, so that many requests are in flight together
	rn, err := wit.NewRunner(u, keys, st, func(p persistence.LogStatePersistence) persistence.LogStatePersistence {
		h := seams.NewHookStore(p)
		var n atomic.Uint64
		h.SetHook(func(op, id string) error {
			if op == seams.OpWriteOps || op == seams.OpWSet {
				time.Sleep(time.Duration(200+(n.Add(1)*7919)%800) * time.Microsecond)
			}
			return nil
		})
		return h
	})
	if err != nil {
		run.Inconclusive(err.Error())
		return
	}
	base := map[*gen.Log]uint64{}
	var labels []string
	for _, l := range u.Logs {
		labels = append(labels, l.ID)
		base[l] = 1 + r.Uint64N(8)
		if _, err := rn.W.Update(context.Background(), l.ID, 0, l.Honest(0, base[l]), nil); err != nil {
			run.Inconclusive("first update refused: " + err.Error())
			return
		}
	}
	before := rec.ForLabels(labels)
	type outcome struct {
		id  string
		err error
	}
	G := 6 + r.IntN(11)
	per := 3
	outs := make([]outcome, G*per)
	var wg sync.WaitGroup
	start := make(chan struct{})
	for g := 0; g < G; g++ {
		g := g
		gr := rand.New(rand.NewPCG(r.Uint64(), uint64(g)))
		wg.Add(1)
		go func() {
			defer wg.Done()
			<-start
			for k := 0; k < per; k++ {
				l := u.Logs[gr.IntN(len(u.Logs))]
				b := base[l]
				var cp []byte
				var proof [][]byte
				old := b
				switch gr.IntN(5) {
				case 0, 1: // honest growth from the size every goroutine knows (at most one of them wins)
					nx := b + 1 + gr.Uint64N(5)
					cp, proof = l.Honest(0, nx), l.Branches[0].Consistency(b, nx)
				case 2: // genuine checkpoint, junk proof
					nx := b + 1 + gr.Uint64N(5)
					h := make([]byte, 32)
					h[0] = byte(g)
					cp, proof = l.Honest(0, nx), [][]byte{h}
				case 3: // same size, other root
					cp = l.Honest(1, b)
				case 4: // stale old size
					old = b - 1
					cp, proof = l.Honest(0, b+2), l.Branches[0].Consistency(b-1, b+2)
				}
				ctx, cancel := context.Background(), context.CancelFunc(func() {})
				switch gr.IntN(4) {
				case 0:
					ctx, cancel = context.WithCancel(context.Background())
					cancel() // the caller has already given up
				case 1:
					ctx, cancel = context.WithTimeout(context.Background(), time.Duration(gr.IntN(1500))*time.Microsecond)
				}
				_, err := rn.W.Update(ctx, l.ID, old, cp, proof)
				cancel()
				outs[g*per+k] = outcome{l.ID, err}
			}
		}()
	}
	close(start)
	wg.Wait()
	after := rec.ForLabels(labels)
	d := seams.Delta(before, after)
	want := map[string]int64{}
	for _, o := range outs {
		want[cAttempt+"|"+o.id]++
		switch {
		case o.err == nil:
			want[cSuccess+"|"+o.id]++
		case errors.Is(o.err, witness.ErrInvalidProof):
			want[cInvalid+"|"+o.id]++
		case errors.Is(o.err, witness.ErrRootMismatch):
			want[cInconsistent+"|"+o.id]++
		}
	}
	run.Add("evaluations", int64(len(outs)))
	run.Add("concurrent_requests", int64(len(outs)))
	run.Distinct("nontrivial", fmt.Sprintf("concurrent/goroutines=%d/logs=%d/%s", G/4*4, len(u.Logs), st.Kind))
	if !same(d, want) {
		errs := map[string]int{}
		for _, o := range outs {
			errs[fmt.Sprint(o.err)]++
		}
		run.Violate("counter_total;concurrent", fmt.Sprintf("%d requests in %d goroutines: counters moved by %v, the requests and their answers give %v", len(outs), G, d, want), unit, map[string]any{"delta": d, "want": want, "answers": errs, "store": st.Kind})
	}
}

func same(a, b map[string]int64) bool {
	if len(a) != len(b) {
		return false
	}
	for k, v := range a {
		if b[k] != v {
			return false
		}
	}
	return true
}

// vec renders a delta with the request's ID abbreviated, for stable finding keys.
func vec(d map[string]int64, id string) string {
	var ks []string
	for k, v := range d {
		name, label := k, ""
		for i := 0; i < len(k); i++ {
			if k[i] == '|' {
				name, label = k[:i], k[i+1:]
				break
			}
		}
		who := "other"
		if label == id {
			who = "this"
		}
		ks = append(ks, fmt.Sprintf("%s[%s]%+d", name[len("witness_update_"):], who, v))
	}
	sort.Strings(ks)
	return fmt.Sprint(ks)
}
