// C20: operational counters tell the truth about update outcomes.
//
// A recording metric factory is installed before the first witness is created
// (the factory and the witness's counters are process-wide, once-only). Around
// every Update the delta of every counter for every label of the unit is taken
// and compared with what the reference model says the outcome was.
package main

import (
	"fmt"
	"math/rand/v2"
	"sort"

	"github.com/transparency-dev/witness/internal/verif/kit/ev"
	"github.com/transparency-dev/witness/internal/verif/kit/gen"
	"github.com/transparency-dev/witness/internal/verif/kit/refwitness"
	"github.com/transparency-dev/witness/internal/verif/kit/seams"
	"github.com/transparency-dev/witness/internal/verif/kit/wit"
)

const (
	cAttempt      = "witness_update_request"
	cSuccess      = "witness_update_success"
	cInvalid      = "witness_update_invalid_consistency"
	cInconsistent = "witness_update_inconsistent_checkpoints"
)

func main() {
	run := ev.Start("C20", "exploration")
	defer run.Finish()
	rec := seams.NewRecMetrics()
	wit.EnsureMetrics(rec)
	run.Rule("unit = one generated hostile history over 1-4 logs (explicit and region trees, all three stores, storage faults in ~6% of requests); around every Update the delta of all witness counters for all labels of the unit (configured IDs and the ID named in the request) is compared with the reference model's verdict. evaluations = update requests judged; nontrivial = distinct (model class, fault, counter delta vector) tuples")
	run.Assume("log IDs are unique per unit, so process-wide counters are attributable per unit although units run in parallel", "out-of-claim / ambiguous requests (see C09) are judged only on the attempt and success counters")
	for c := refwitness.UnknownLog; c <= refwitness.Accept; c++ {
		run.Floor("class:"+c.String(), 200)
	}
	run.Floor("class:storage_failure", 200)
	dir := run.Scratch()
	run.Units("hist", run.Pick(2500, 50000), 0, func(unit int64, r *rand.Rand) {
		o := wit.HistOpts{Gen: gen.Opts{NLogs: 1 + r.IntN(4), MaxSize: 40, Branches: 2 + r.IntN(2), ShareKeys: true, Big: unit%6 == 5, BigBits: 50}, MinSteps: 20, MaxSteps: 50, FaultProb: 0.06, DriverFaults: true, Dir: dir}
		expected := map[string]int64{}
		var labels []string
		var before map[string]int64
		var h0 *wit.Hist
		h, err := wit.RunHistory(r, o, func(h *wit.Hist, s *wit.Step, i int) {
			h0 = h
			if labels == nil {
				for _, l := range h.Rn.U.Logs {
					labels = append(labels, l.ID)
				}
				before = map[string]int64{} // all zero: fresh IDs
			}
			ls := labels
			if !s.Known {
				ls = append(append([]string{}, labels...), s.Req.LogID)
			}
			after := rec.ForLabels(ls)
			for k := range before {
				if _, ok := after[k]; !ok {
					after[k] = before[k]
				}
			}
			d := seams.Delta(before, after)
			// keep unknown-ID labels in "before" so a late increment is still seen as a delta
			before = after
			id := s.Req.LogID
			want := map[string]int64{}
			class := s.Class.String()
			full := !s.Ambiguous && !s.OutClaim
			if s.Known {
				want[cAttempt+"|"+id] = 1
			}
			if s.Err == nil {
				want[cSuccess+"|"+id] = 1
			}
			if h.FaultFired != "" {
				class = "storage_failure"
				full = true
			} else if full {
				switch s.Class {
				case refwitness.BadProof:
					want[cInvalid+"|"+id] = 1
				case refwitness.RootMismatch:
					want[cInconsistent+"|"+id] = 1
				}
			}
			run.Count("evaluations")
			run.Count("class:" + class)
			for k, v := range want {
				expected[k] += v
			}
			if !full {
				// judge attempt and success only
				for k := range d {
					if k != cAttempt+"|"+id && k != cSuccess+"|"+id {
						expected[k] += d[k]
						delete(d, k)
					}
				}
			}
			run.Distinct("nontrivial", fmt.Sprintf("%s/%v/%s", class, full, vec(d, id)))
			if !same(d, want) {
				run.Violate(fmt.Sprintf("counter_delta;class=%s;got=%s;want=%s", class, vec(d, id), vec(want, id)),
					fmt.Sprintf("outcome %s (err=%v): counters moved by %s, expected %s", class, s.Err, vec(d, id), vec(want, id)), unit,
					map[string]any{"trace": h.Trace, "store": h.Kind, "delta": d, "want": want, "request": s.Req.String()})
			}
			if unit == 0 && i < 4 {
				run.Sample(map[string]any{"request": s.Req.String(), "class": class, "err": fmt.Sprint(s.Err), "delta": vec(d, id)})
			}
		})
		defer h.Close()
		if err != nil {
			run.Inconclusive(err.Error())
			return
		}
		// totals
		if h0 != nil {
			final := rec.ForLabels(labels)
			for _, l := range labels {
				for _, c := range []string{cAttempt, cSuccess, cInvalid, cInconsistent} {
					k := c + "|" + l
					if final[k] != expected[k] {
						run.Violate("counter_total;"+c, fmt.Sprintf("end of history: %s = %d, sum of expected increments = %d", k, final[k], expected[k]), unit, map[string]any{"trace": h0.Trace})
					}
				}
			}
		}
	})
}

func same(a, b map[string]int64) bool {
	if len(a) != len(b) {
		return false
	}
	for k, v := range a {
		if b[k] != v {
			return false
		}
	}
	return true
}

// vec renders a delta with the request's ID abbreviated, for stable finding keys.
func vec(d map[string]int64, id string) string {
	var ks []string
	for k, v := range d {
		name, label := k, ""
		for i := 0; i < len(k); i++ {
			if k[i] == '|' {
				name, label = k[:i], k[i+1:]
				break
			}
		}
		who := "other"
		if label == id {
			who = "this"
		}
		ks = append(ks, fmt.Sprintf("%s[%s]%+d", name[len("witness_update_"):], who, v))
	}
	sort.Strings(ks)
	return fmt.Sprint(ks)
}
