// C18: SumDB tile addressing and proofs match the reference tlog implementation.
package main

import (
	"bytes"
	"context"
	"errors"
	"fmt"
	"io"
	"math/rand/v2"
	"net/http"
	"os"
	"strconv"
	"strings"
	"sync"
	"sync/atomic"
	"time"

	f_note "github.com/transparency-dev/formats/note"
	"github.com/transparency-dev/witness/internal/client"
	"github.com/transparency-dev/witness/internal/config"
	"github.com/transparency-dev/witness/internal/feeder/sumdb"
	"github.com/transparency-dev/witness/internal/verif/kit/asmunits"
	"github.com/transparency-dev/witness/internal/verif/kit/ev"
	"github.com/transparency-dev/witness/internal/verif/kit/gen"
	"github.com/transparency-dev/witness/internal/verif/kit/refnote"
	"github.com/transparency-dev/witness/internal/verif/kit/reftree"
	"github.com/transparency-dev/witness/internal/verif/kit/wit"
	"github.com/transparency-dev/witness/internal/verif/kit/xcheck"
	"golang.org/x/mod/sumdb/tlog"
)

const origin = "go.sum database tree"

type pathRec struct {
	mu   sync.Mutex
	seen []string
}

func (p *pathRec) RoundTrip(q *http.Request) (*http.Response, error) {
	p.mu.Lock()
	p.seen = append(p.seen, q.URL.Path)
	p.mu.Unlock()
	return &http.Response{StatusCode: 200, Body: io.NopCloser(strings.NewReader("x")), ContentLength: 1, Request: q}, nil
}

// hashReader serves tlog stored-hash indexes from a reference tree.
type hashReader struct{ t *reftree.Tree }

func (h hashReader) ReadHashes(idx []int64) ([]tlog.Hash, error) {
	out := make([]tlog.Hash, len(idx))
	for i, x := range idx {
		l, n := tlog.SplitStoredHashIndex(x)
		out[i] = tlog.Hash(h.t.Complete(uint8(l), uint64(n)))
	}
	return out, nil
}

var feedFailures atomic.Int64

// stubSumDB serves exactly the size-N prefix of a tree in the SumDB layout.
type stubSumDB struct {
	t     *reftree.Tree
	key   *refnote.SignKey
	size  uint64
	mu    sync.Mutex
	cache map[string][]byte
	n404  int
	stop  context.CancelFunc // called on the first request outside the served tree so the feeder's retry loop ends
	paths []string
	// flaky: "partial" / "full" - the first request for a tile of that kind is answered 503 once (a transient
	// failure of the server); whatever the client does next must still only ask for reference paths
	flaky  string
	flaked int
	// prefix: the log is configured with a URL that has a path component (a SumDB reached through a proxy);
	// every request must be made below it
	prefix string
}

func (s *stubSumDB) latest() []byte {
	rt := s.t.Root(s.size)
	text := string(tlog.FormatTree(tlog.Tree{N: int64(s.size), Hash: tlog.Hash(rt)}))
	return refnote.Assemble(text, s.key.SigLine(text))
}

func (s *stubSumDB) RoundTrip(q *http.Request) (*http.Response, error) {
	p := q.URL.Path
	mk := func(code int, b []byte) (*http.Response, error) {
		cl := int64(len(b))
		if len(b) > 2048 {
			cl = -1 // like net/http's server for handlers that do not set Content-Length: long bodies go out chunked
		}
		return &http.Response{StatusCode: code, Status: strconv.Itoa(code) + " x", Body: io.NopCloser(bytes.NewReader(b)), ContentLength: cl, Request: q}, nil
	}
	s.mu.Lock()
	s.paths = append(s.paths, p)
	rep := 0
	for _, q := range s.paths {
		if q == p {
			rep++
		}
	}
	s.mu.Unlock()
	if rep > 4 && s.stop != nil {
		s.stop() // the same path for the fifth time in one feed: a retry loop that cannot succeed - end it
	}
	if s.prefix != "" {
		if !strings.HasPrefix(p, s.prefix+"/") {
			s.mu.Lock()
			s.n404++
			s.mu.Unlock()
			if s.stop != nil {
				s.stop()
			}
			return mk(404, nil) // outside the configured base URL
		}
		p = strings.TrimPrefix(p, s.prefix)
	}
	if p == "/latest" {
		return mk(200, s.latest())
	}
	tile, err := tlog.ParseTilePath(strings.TrimPrefix(p, "/"))
	if err != nil || tile.H != 8 || tile.L < 0 {
		s.mu.Lock()
		s.n404++
		s.mu.Unlock()
		if s.stop != nil {
			s.stop()
		}
		return mk(404, nil)
	}
	// hashes available at this tile level for the served size
	avail := s.size >> (8 * uint(tile.L))
	if uint64(tile.N)*256+uint64(tile.W) > avail {
		s.mu.Lock()
		s.n404++
		s.mu.Unlock()
		if s.stop != nil {
			s.stop()
		}
		return mk(404, nil) // beyond the served tree: an over-wide or mis-addressed request
	}
	s.mu.Lock()
	if s.flaked == 0 && ((s.flaky == "partial" && tile.W < 256) || (s.flaky == "full" && tile.W == 256)) {
		s.flaked++
		s.mu.Unlock()
		return mk(503, []byte("try again"))
	}
	s.mu.Unlock()
	s.mu.Lock()
	b, ok := s.cache[p]
	s.mu.Unlock()
	if !ok {
		b, err = tlog.ReadTileData(tile, hashReader{s.t})
		if err != nil {
			return mk(500, nil)
		}
		s.mu.Lock()
		s.cache[p] = b
		s.mu.Unlock()
	}
	return mk(200, b)
}

type recWitness struct {
	latest []byte
	old    uint64
	cp     []byte
	proof  [][]byte
	calls  int
}

func (w *recWitness) GetLatestCheckpoint(context.Context, string) ([]byte, error) {
	if w.latest == nil {
		return nil, os.ErrNotExist
	}
	return w.latest, nil
}

func (w *recWitness) Update(_ context.Context, _ string, old uint64, cp []byte, p [][]byte) ([]byte, error) {
	w.calls++
	w.old, w.cp, w.proof = old, cp, p
	return cp, nil
}

func main() {
	wit.Quiet()
	wit.EnsureMetrics(nil)
	run := ev.Start("C18", "exploration")
	defer run.Finish()
	N := uint64(run.Pick(300, 1200))
	run.Rule(fmt.Sprintf("paths: the exported SumDB client (TileData, FullLeavesAtOffset, PartialLeavesAtOffset) is called with a recording transport for levels 0-7, widths 1-256 and indices {0..2100, 10^k+-1 and 999*10^k carry boundaries up to 10^9, PRNG}; the requested path must equal '/'+tlog.Tile{H:8,...}.Path(). proofs: for every pair 1 <= from < to <= %d (plus sampled pairs up to 2^20 in thorough) the real sumdb.FeedLog runs once against a stub SumDB serving exactly the size-`to` prefix of a generated tree (tiles beyond it are 404) and a recording witness holding the size-`from` checkpoint; the proof passed to Update must be accepted by kit/reftree, by tlog.CheckTree and by a real Witness holding `from`; chains: one long-lived polling feeder follows a growth schedule (partial tiles widening, tile boundaries) and every step must reach the witness with a valid proof within 6 polls. evaluations = path checks + size pairs; nontrivial = distinct (level, index digit count, width class) for paths and distinct (from, to) pairs", N))
	run.Assume("stub tiles are produced by x/mod tlog.ReadTileData over the harness tree (tlog is the property's stated reference)")
	if err := xcheck.SelfCheck(uint64(run.Seed), 200); err != nil {
		run.Inconclusive("reference verifiers disagree: " + err.Error())
		return
	}
	run.Floor("path_checks", 20000)
	run.Floor("pairs", int64(N*(N-1)/2))
	run.Floor("pairs_crossing_256", 1000)
	paths(run)
	key := refnote.NewSignKey("sum.example", [32]byte{9, 9, 9})
	tree := &reftree.Tree{Seed: uint64(run.Seed) + 1234, TagA: 1, TagB: 1, Fork: ^uint64(0)}
	tree.Root(N + 10)
	run.Exhaustive(false)
	// the assembled service: one damaged answer per complete tile, correct answers ever after
	run.Floor("assembled_progress_episodes", 5)
	run.Units("asm_progress", run.Pick(6, 48), 6, func(unit int64, r *rand.Rand) {
		asmunits.Progress(run, unit, r, "first_answer_to_each_full_tile_damaged")
	})
	run.Units("pairs", int(N), 0, func(unit int64, r *rand.Rand) {
		to := uint64(unit) + 1
		for from := uint64(1); from < to && !run.Aborted(); from++ {
			pair(run, unit, tree, key, from, to, from == to-1 && to%50 == 0)
		}
	})
	// sampled pairs on a region tree (uniform leaves per region): cheap at any size, reaches full tiles at levels 1-3
	run.Floor("pairs_full_level1_tile", 100)
	run.Units("sampled_region", run.Pick(600, 20000), 0, func(unit int64, r *rand.Rand) {
		bits := 17 + uint(r.IntN(16))
		to := (uint64(1) << bits) + r.Uint64N(uint64(1)<<bits)
		from := 1 + r.Uint64N(to-1)
		switch unit % 4 {
		case 0:
			from = (from >> 16) << 16 // level-1 tile boundary
		case 1:
			from = ((from >> 8) << 8) + uint64(r.IntN(3))
		}
		if from == 0 || from >= to {
			from = 65536
		}
		t := &reftree.Tree{Seed: uint64(run.Seed) + uint64(unit), TagA: 1, TagB: 2, Fork: r.Uint64N(to), Uniform: true}
		run.Count("pairs_full_level1_tile")
		pair(run, unit, t, key, from, to, unit == 0)
	})
	// successive growth under ONE long-lived polling feeder (state kept between cycles must not go stale)
	run.Floor("chain_steps", 60)
	// the server fails one tile request transiently: the retry (wherever it happens) must ask for reference paths only
	run.Floor("pairs_with_transient_tile_failure", 24)
	run.Units("flaky_pairs", run.Pick(64, 512), 64, func(unit int64, r *rand.Rand) {
		to := 2 + r.Uint64N(3000)
		if unit%2 == 1 {
			to = 300 + r.Uint64N(70000)
		}
		from := 1 + r.Uint64N(to-1)
		pairFlaky(run, unit, tree, key, from, to, true, []string{"partial", "full"}[unit%2], "")
	})
	// the log's configured URL has a path component
	run.Floor("pairs_with_base_url_path", 24)
	run.Units("base_url_path", run.Pick(48, 400), 0, func(unit int64, r *rand.Rand) {
		to := 2 + r.Uint64N(3000)
		from := 1 + r.Uint64N(to-1)
		pairFlaky(run, unit, tree, key, from, to, true, "", []string{"/sumdb/sum.example.org", "/mirror"}[unit%2])
	})
	// the witness moves (another feeder got there first) between two submission attempts of one checkpoint:
	// the retry must carry a proof from the witness's NEW size
	run.Floor("moving_witness_cycles", 24)
	run.Units("moving_witness", run.Pick(48, 400), 48, func(unit int64, r *rand.Rand) { movingWitness(run, unit, r, tree, key) })
	run.Units("chains", run.Pick(24, 240), 0, func(unit int64, r *rand.Rand) { chain(run, unit, r, tree, key) })
	if run.Thorough() {
		big := &reftree.Tree{Seed: uint64(run.Seed) + 99, TagA: 1, TagB: 1, Fork: ^uint64(0)}
		run.Units("sampled", 20000, 0, func(unit int64, r *rand.Rand) {
			to := 2 + r.Uint64N(1<<20)
			from := 1 + r.Uint64N(to-1)
			if unit%3 == 0 {
				from = (from>>8)<<8 | uint64(r.IntN(3)) // around tile boundaries
				if from == 0 || from >= to {
					from = 1
				}
			}
			pair(run, unit, big, key, from, to, false)
		})
	}
}

func paths(run *ev.Run) {
	pr := &pathRec{}
	v, _ := f_note.NewVerifier(refnote.NewSignKey("sum.example", [32]byte{9, 9, 9}).Vkey())
	c := client.NewSumDB(8, v, "http://sumdb.invalid", &http.Client{Transport: pr})
	var idx []int
	for i := 0; i <= 2100; i++ {
		idx = append(idx, i)
	}
	for p := 1000; p <= 1000000000; p *= 10 {
		idx = append(idx, p-1, p, p+1, 999*(p/1000), 999*(p/1000)+1)
	}
	r := run.Rand("paths", 0)
	for i := 0; i < 12000; i++ {
		idx = append(idx, int(r.Uint64N(uint64(1)<<uint(10+i%21))))
	}
	last := func() string { pr.mu.Lock(); defer pr.mu.Unlock(); return pr.seen[len(pr.seen)-1] }
	check := func(kind string, got string, t tlog.Tile) {
		want := "/" + t.Path()
		run.Count("evaluations")
		run.Count("path_checks")
		wc := "partial"
		if t.W == 256 {
			wc = "full"
		}
		run.Distinct("nontrivial", fmt.Sprintf("path/%s/%d/%d/%s", kind, t.L, len(strconv.FormatInt(t.N, 10)), wc))
		if got != want {
			run.Violate(fmt.Sprintf("tile_path;%s;full=%v", kind, t.W == 256), fmt.Sprintf("%s level %d index %d width %d: requested %q, tlog assigns %q", kind, t.L, t.N, t.W, got, want), -1, map[string]any{"got": got, "want": want})
		}
	}
	for k, n := range idx {
		lvl := k % 8
		w := 1 + (k*37)%256
		if k%5 == 0 {
			w = 256
		}
		arg := w
		if w == 256 {
			arg = -1 // how the feeder asks for a full tile
		}
		_, _ = c.TileData(lvl, n, arg)
		check("hash", last(), tlog.Tile{H: 8, L: lvl, N: int64(n), W: w})
		if k%3 == 0 {
			_, _ = c.FullLeavesAtOffset(n)
			check("data_full", last(), tlog.Tile{H: 8, L: -1, N: int64(n), W: 256})
			pw := 1 + (k*13)%255
			_, _ = c.PartialLeavesAtOffset(n, pw)
			check("data_partial", last(), tlog.Tile{H: 8, L: -1, N: int64(n), W: pw})
		}
	}
	run.Sample(map[string]any{"part": "paths", "example_request": last()})
}

func pair(run *ev.Run, unit int64, tree *reftree.Tree, key *refnote.SignKey, from, to uint64, sample bool) {
	pairFlaky(run, unit, tree, key, from, to, sample, "", "")
}

func pairFlaky(run *ev.Run, unit int64, tree *reftree.Tree, key *refnote.SignKey, from, to uint64, sample bool, flaky, prefix string) {
	stub := &stubSumDB{t: tree, key: key, size: to, cache: map[string][]byte{}, flaky: flaky, prefix: prefix}
	if prefix != "" {
		run.Count("pairs_with_base_url_path")
	}
	if flaky != "" {
		defer func() {
			if stub.flaked > 0 {
				run.Count("pairs_with_transient_tile_failure")
			}
		}()
	}
	rt := tree.Root(from)
	ftext := string(tlog.FormatTree(tlog.Tree{N: int64(from), Hash: tlog.Hash(rt)}))
	w := &recWitness{latest: refnote.Assemble(ftext, key.SigLine(ftext))}
	cl, err := config.NewLog(origin, key.Vkey(), "http://sumdb.invalid"+stub.prefix)
	if err != nil {
		run.Inconclusive(err.Error())
		return
	}
	ctx, cancel := context.WithTimeout(context.Background(), 20*time.Second)
	defer cancel()
	stub.stop = cancel
	err = sumdb.FeedLog(ctx, cl, w, &http.Client{Transport: stub}, 0)
	run.Count("evaluations")
	run.Count("pairs")
	if from>>8 != to>>8 {
		run.Count("pairs_crossing_256")
	}
	run.Distinct("nontrivial", fmt.Sprintf("pair/%d/%d", from, to))
	detail := map[string]any{"from": from, "to": to, "err": fmt.Sprint(err), "requests": stub.paths, "not_found": stub.n404}
	if err != nil || w.calls != 1 {
		if feedFailures.Add(1) >= 12 {
			run.Abort() // every further pair would only repeat the wait
		}
		run.Violate(fmt.Sprintf("feed_failed;404s=%v", stub.n404 > 0), fmt.Sprintf("%d -> %d: the feeder returned %v after %d Update calls (%d tile requests were outside the served tree)", from, to, err, w.calls, stub.n404), unit, detail)
		return
	}
	r1, r2 := tree.Root(from), tree.Root(to)
	okRef := reftree.VerifyConsistency(from, to, r1[:], r2[:], w.proof)
	okTlog := xcheck.TlogVerify(from, to, r1[:], r2[:], w.proof)
	if w.old != from || !okRef || !okTlog {
		detail["proof_len"] = len(w.proof)
		run.Violate(fmt.Sprintf("proof_rejected;ref=%v;tlog=%v;old_ok=%v", okRef, okTlog, w.old == from), fmt.Sprintf("%d -> %d: the feeder's proof (%d hashes, old size %d) is rejected by an independent verifier", from, to, len(w.proof), w.old), unit, detail)
		return
	}
	// and by the real witness
	u := &gen.Universe{MaxSize: 0, Lazy: true}
	l := gen.NewLog(u, 0, origin, refnote.LogID(origin), key, tree)
	u.Logs = []*gen.Log{l}
	u.Foreign = []*refnote.SignKey{key, key}
	st, _ := wit.NewStore("mem", "")
	defer st.Close()
	keys, _ := wit.NewWitKeys(rand.New(rand.NewPCG(1, 2)), []bool{false}, false)
	rn, err := wit.NewRunner(u, keys, st, nil)
	if err != nil {
		run.Inconclusive(err.Error())
		return
	}
	if _, err := rn.W.Update(context.Background(), l.ID, 0, w.latest, nil); err != nil {
		run.Inconclusive("real witness refuses the `from` checkpoint: " + err.Error())
		return
	}
	if _, err := rn.W.Update(context.Background(), l.ID, w.old, w.cp, w.proof); err != nil {
		run.Violate("proof_rejected_by_witness", fmt.Sprintf("%d -> %d: the real witness refuses the feeder's submission: %v", from, to, err), unit, detail)
	}
	if sample {
		run.Sample(map[string]any{"part": "proof", "from": from, "to": to, "proof_hashes": len(w.proof), "tile_requests": stub.paths})
	}
}

// chainWitness accepts what it is given (like a witness holding exactly that log) and records the steps.
type chainWitness struct {
	mu     sync.Mutex
	latest []byte
	size   uint64
	steps  []string
	bad    string
	tree   *reftree.Tree
}

func (w *chainWitness) GetLatestCheckpoint(context.Context, string) ([]byte, error) {
	w.mu.Lock()
	defer w.mu.Unlock()
	if w.latest == nil {
		return nil, os.ErrNotExist
	}
	return w.latest, nil
}

func (w *chainWitness) Update(_ context.Context, _ string, old uint64, cp []byte, p [][]byte) ([]byte, error) {
	w.mu.Lock()
	defer w.mu.Unlock()
	n, err := refnote.Parse(cp)
	if err != nil {
		return nil, err
	}
	t, err := tlog.ParseTree([]byte(n.Text))
	if err != nil {
		return nil, err
	}
	to := uint64(t.N)
	if old != w.size {
		w.bad = fmt.Sprintf("old size %d, witness holds %d", old, w.size)
		return nil, fmt.Errorf("stale")
	}
	if w.size > 0 && to > w.size {
		r1, r2 := w.tree.Root(w.size), w.tree.Root(to)
		if !reftree.VerifyConsistency(w.size, to, r1[:], r2[:], p) || !xcheck.TlogVerify(w.size, to, r1[:], r2[:], p) {
			w.bad = fmt.Sprintf("proof %d -> %d (%d hashes) rejected by an independent verifier", w.size, to, len(p))
			return nil, fmt.Errorf("bad proof")
		}
	}
	w.steps = append(w.steps, fmt.Sprintf("%d->%d", w.size, to))
	w.latest, w.size = cp, to
	return cp, nil
}

func chain(run *ev.Run, unit int64, r *rand.Rand, tree *reftree.Tree, key *refnote.SignKey) {
	// schedules that make partial tiles widen, cross tile boundaries and revisit coordinates
	scheds := [][]uint64{
		{300, 700, 1200}, {1000, 1001, 1002, 1003}, {256, 512, 768, 1024}, {1, 2, 3, 255, 256, 257}, {5, 250, 260, 511, 513, 770},
	}
	var sched []uint64
	if int(unit) < len(scheds) {
		sched = scheds[unit]
	} else {
		cur := uint64(1 + r.IntN(300))
		for i := 0; i < 5; i++ {
			sched = append(sched, cur)
			cur += uint64(1 + r.IntN(400))
		}
	}
	// keep the schedule strictly increasing and inside the prepared tree
	maxN := uint64(1210)
	for i := range sched {
		if sched[i] > maxN || (i > 0 && sched[i] <= sched[i-1]) {
			sched = sched[:i]
			break
		}
	}
	if len(sched) < 2 {
		sched = []uint64{200, 300, 520}
	}
	stub := &stubSumDB{t: tree, key: key, size: sched[0], cache: map[string][]byte{}}
	w := &chainWitness{tree: tree}
	cl, _ := config.NewLog(origin, key.Vkey(), "http://sumdb.invalid")
	ctx, cancel := context.WithCancel(context.Background())
	defer cancel()
	done := make(chan error, 1)
	go func() { done <- sumdb.FeedLog(ctx, cl, w, &http.Client{Transport: stub}, 40*time.Millisecond) }()
	latestFetches := func() int {
		stub.mu.Lock()
		defer stub.mu.Unlock()
		n := 0
		for _, p := range stub.paths {
			if p == "/latest" {
				n++
			}
		}
		return n
	}
	for i, size := range sched {
		stub.mu.Lock()
		stub.size = size
		stub.mu.Unlock()
		base := latestFetches()
		deadline := time.Now().Add(60 * time.Second)
		for {
			w.mu.Lock()
			got, bad := w.size, w.bad
			w.mu.Unlock()
			if got == size {
				run.Count("evaluations")
				run.Count("chain_steps")
				run.Distinct("nontrivial", fmt.Sprintf("chain/%d/%d", i, size))
				break
			}
			if n := latestFetches() - base; n >= 7 {
				stub.mu.Lock()
				reqs := append([]string{}, stub.paths...)
				stub.mu.Unlock()
				run.Violate(fmt.Sprintf("chain_stuck;step=%d", i), fmt.Sprintf("one polling feeder, log grown %v: %d polls after size %d was published the witness is still at %d (%s)", sched[:i+1], n-1, size, got, bad), unit, map[string]any{"schedule": sched, "requests_tail": reqs[max(0, len(reqs)-12):]})
				return
			}
			if time.Now().After(deadline) {
				run.Inconclusive("watchdog: chain step did not converge and fewer than 7 polls happened in 60 s")
				return
			}
			time.Sleep(5 * time.Millisecond)
		}
	}
	if unit == 0 {
		run.Sample(map[string]any{"part": "chain", "schedule": sched, "steps": w.steps})
	}
}

// moving is a witness stub that holds size a, refuses the first Update as stale while moving to size b
// (a < b < to), and accepts the first later Update whose old size and proof fit what it then holds.
type moving struct {
	mu      sync.Mutex
	t       *reftree.Tree
	key     *refnote.SignKey
	cur, b  uint64
	moved   bool
	updates []string
	bad     []string
	done    bool
}

func (w *moving) cp(n uint64) []byte {
	rt := w.t.Root(n)
	text := string(tlog.FormatTree(tlog.Tree{N: int64(n), Hash: tlog.Hash(rt)}))
	return refnote.Assemble(text, w.key.SigLine(text))
}

func (w *moving) GetLatestCheckpoint(context.Context, string) ([]byte, error) {
	w.mu.Lock()
	defer w.mu.Unlock()
	return w.cp(w.cur), nil
}

func (w *moving) Update(_ context.Context, _ string, old uint64, cp []byte, p [][]byte) ([]byte, error) {
	w.mu.Lock()
	defer w.mu.Unlock()
	n, err := refnote.Parse(cp)
	if err != nil {
		return nil, err
	}
	tr, err := tlog.ParseTree([]byte(n.Text))
	if err != nil {
		return nil, err
	}
	to := uint64(tr.N)
	w.updates = append(w.updates, fmt.Sprintf("old=%d to=%d proof=%d hashes (witness at %d)", old, to, len(p), w.cur))
	if !w.moved {
		w.moved = true
		w.cur = w.b // someone else advanced the witness just before this request landed
		return w.cp(w.cur), errors.New("old size != current")
	}
	if old != w.cur {
		w.bad = append(w.bad, fmt.Sprintf("retry passed old size %d, the witness reported %d", old, w.cur))
		return w.cp(w.cur), errors.New("old size != current")
	}
	rc, rt := w.t.Root(w.cur), w.t.Root(to)
	if !reftree.VerifyConsistency(w.cur, to, rc[:], rt[:], p) {
		w.bad = append(w.bad, fmt.Sprintf("retry carried a proof of %d hashes that is no consistency proof %d -> %d", len(p), w.cur, to))
		return w.cp(w.cur), errors.New("consistency proof invalid")
	}
	w.cur, w.done = to, true
	return cp, nil
}

func movingWitness(run *ev.Run, unit int64, r *rand.Rand, tree *reftree.Tree, key *refnote.SignKey) {
	to := 10 + r.Uint64N(3000)
	a := 1 + r.Uint64N(to-2)
	b := a + 1 + r.Uint64N(to-a-1)
	stub := &stubSumDB{t: tree, key: key, size: to, cache: map[string][]byte{}}
	w := &moving{t: tree, key: key, cur: a, b: b}
	cl, err := config.NewLog(origin, key.Vkey(), "http://sumdb.invalid")
	if err != nil {
		run.Inconclusive(err.Error())
		return
	}
	ctx, cancel := context.WithTimeout(context.Background(), 20*time.Second)
	defer cancel()
	stub.stop = cancel
	ferr := sumdb.FeedLog(ctx, cl, w, &http.Client{Transport: stub}, 0)
	run.Count("evaluations")
	run.Count("moving_witness_cycles")
	run.Distinct("nontrivial", fmt.Sprintf("moving/%d", min(to/256, 12)))
	w.mu.Lock()
	defer w.mu.Unlock()
	detail := map[string]any{"held": a, "moved_to": b, "log_size": to, "updates": w.updates, "err": fmt.Sprint(ferr), "requests": stub.paths}
	for _, bd := range w.bad {
		run.Violate("retry_after_witness_moved;stale_proof_or_old_size", fmt.Sprintf("witness at %d moved to %d while size %d was being submitted: %s", a, b, to, bd), unit, detail)
		return
	}
	if ferr != nil || !w.done {
		run.Violate("retry_after_witness_moved;never_succeeds", fmt.Sprintf("witness at %d moved to %d while size %d was being submitted: the feeder returned %v and the witness ended at %d", a, b, to, ferr, w.cur), unit, detail)
	}
}
