// C11: request and proof text formats parse back to exactly what was written.
package main

import (
	"bytes"
	"encoding/base64"
	"encoding/json"
	"fmt"
	"io"
	"math/rand/v2"
	"os"
	"os/exec"
	"path/filepath"
	"strconv"
	"strings"
	"testing/iotest"
	"time"

	"github.com/transparency-dev/witness/internal/feeder/bastion"
	"github.com/transparency-dev/witness/internal/verif/kit/ev"
	"github.com/transparency-dev/witness/internal/verif/kit/refbody"
	"github.com/transparency-dev/witness/internal/verif/kit/wit"
	"github.com/transparency-dev/witness/internal/witness"
)

func write(old string, hashes [][]byte, cp []byte) []byte {
	var b bytes.Buffer
	b.WriteString("old " + old + "\n")
	for _, h := range hashes {
		b.WriteString(base64.StdEncoding.EncodeToString(h) + "\n")
	}
	b.WriteString("\n")
	b.Write(cp)
	return b.Bytes()
}

// chunkReader delivers its bytes in PRNG-sized pieces (network fragmentation).
type chunkReader struct {
	b []byte
	r *rand.Rand
}

func (c *chunkReader) Read(p []byte) (int, error) {
	if len(c.b) == 0 {
		return 0, io.EOF
	}
	n := 1 + c.r.IntN(200)
	if n > len(p) {
		n = len(p)
	}
	if n > len(c.b) {
		n = len(c.b)
	}
	copy(p, c.b[:n])
	c.b = c.b[n:]
	return n, nil
}

func eqHashes(a, b [][]byte) bool {
	if len(a) != len(b) {
		return false
	}
	for i := range a {
		if !bytes.Equal(a[i], b[i]) {
			return false
		}
	}
	return true
}

func randBytes(r *rand.Rand, n int) []byte {
	b := make([]byte, n)
	for i := range b {
		b[i] = byte(r.Uint32())
	}
	return b
}

func drawSize(r *rand.Rand) uint64 {
	switch r.IntN(6) {
	case 0:
		return 0
	case 1:
		return 1
	case 2:
		return ^uint64(0)
	case 3:
		k := r.UintN(64)
		return (uint64(1) << k) + uint64(r.IntN(3)) - 1
	case 4:
		return r.Uint64N(1000)
	}
	return r.Uint64()
}

func drawCP(r *rand.Rand) []byte {
	base := "example.com/log\n123\nq83vEjRWeJCrze8SNFZ4kKvN7xI0VniQq83vEjRWeJA=\n\n— example.com/log AAAAAGx4bnRlc3RzaWduYXR1cmU=\n"
	switch r.IntN(10) {
	case 9:
		// percent signs and printf verbs are ordinary bytes of a checkpoint (percent-escaped origins exist)
		return []byte(strings.Replace(base, "example.com/log\n", "example.com/logs/a%2Fb %s %d %v %!x(MISSING) 100%\n", 1))
	case 0:
		return []byte(base)
	case 1:
		return []byte(strings.TrimSuffix(base, "\n")) // no trailing newline
	case 2:
		return []byte("\n" + base) // begins with a blank line
	case 3:
		return []byte(base + "\n\n\n")
	case 4:
		return randBytes(r, r.IntN(300)) // arbitrary incl. non-UTF-8
	case 5:
		return []byte(strings.ReplaceAll(base, "\n", "\r\n"))
	case 6:
		return []byte{}
	case 7:
		return []byte("old 7\nAAAA\n\n" + base) // looks like another body
	}
	return append(randBytes(r, r.IntN(50)), []byte(base)...)
}

func main() {
	wit.Quiet()
	run := ev.Start("C11", "exploration")
	defer run.Finish()
	run.Rule("round trip: bodies written by an independent writer (old sizes 0,1,2^k+-1,2^64-1,uniform; 0-64 hashes of 1-64 bytes; checkpoint bytes incl. blank lines, no trailing newline, non-UTF-8, CR; delivered whole, a byte at a time, in halves and in random chunks; incl. headers longer than one 4 KiB buffer) must parse to exactly (size, hashes, bytes); refusal: bodies of the three unambiguous malformed classes must be refused; proof text format: Marshal then Unmarshal of every generated list incl. the empty one; the repository's own writer (cmd/feedbastion bastionClient.Update) is captured and parsed; differential sweep: mutated and random bodies against a reference reader, judged only where the reference verdict is definite. evaluations = parser calls judged; nontrivial = distinct (part, class, hash count, cp shape / malformed form)")
	run.Assume("variants the format texts leave open (leading zeros, several spaces/tab after 'old', CRLF, lines over 4 KiB) are judged only by: if accepted, the value is the decimal value of the digits")
	run.Floor("roundtrip", 20000)
	run.Floor("roundtrip_header_over_4KiB", 500)
	run.Floor("refusal_a", 40)
	run.Floor("refusal_b", 40)
	run.Floor("refusal_c", 40)
	run.Floor("proof_roundtrip", 5000)
	run.Floor("own_writer_bodies", 50)
	run.Floor("own_writer_bodies_concurrent", 50)
	run.Floor("diff_definite", 50000)

	run.Units("roundtrip", run.Pick(64, 1024), 0, func(unit int64, r *rand.Rand) {
		for i := 0; i < 1000; i++ {
			size := drawSize(r)
			var hs [][]byte
			nh := r.IntN(65)
			if i%7 == 0 {
				nh = 0
			}
			for j := 0; j < nh; j++ {
				hs = append(hs, randBytes(r, 1+r.IntN(64)))
			}
			if i%9 == 4 {
				// the corner of the stated range: many long hashes (header beyond one 4 KiB buffer)
				hs = hs[:0]
				for j, n := 0, 40+r.IntN(25); j < n; j++ {
					hs = append(hs, randBytes(r, 56+r.IntN(9)))
				}
				nh = len(hs)
			}
			cp := drawCP(r)
			body := write(strconv.FormatUint(size, 10), hs, cp)
			// the body may reach the parser in any fragmentation
			var rd io.Reader = bytes.NewReader(body)
			delivery := "whole"
			switch i % 5 {
			case 1:
				rd, delivery = iotest.OneByteReader(bytes.NewReader(body)), "byte_at_a_time"
			case 2:
				rd, delivery = iotest.HalfReader(bytes.NewReader(body)), "half_reads"
			case 3:
				rd, delivery = &chunkReader{b: body, r: r}, "random_chunks"
			}
			gs, gh, gc, err := bastion.VerifParseBody(rd)
			run.Count("evaluations")
			run.Count("roundtrip")
			run.Distinct("nontrivial", fmt.Sprintf("rt/%d/%d/%v/%s", nh, len(cp)%7, size > 1<<32, delivery))
			if len(body)-len(cp) > 4096 {
				run.Count("roundtrip_header_over_4KiB")
			}
			if err != nil || gs != size || !eqHashes(gh, hs) || !bytes.Equal(gc, cp) {
				what := "differs"
				switch {
				case err != nil:
					what = "refused"
				case gs != size:
					what = "size"
				case !eqHashes(gh, hs):
					what = "hashes"
				case !bytes.Equal(gc, cp):
					what = "checkpoint"
				}
				run.Violate("roundtrip_"+what+";delivery="+delivery+fmt.Sprintf(";header_over_4KiB=%v", len(body)-len(cp) > 4096), fmt.Sprintf("well-formed body parsed to something else (%s): err=%v size %d vs %d, %d vs %d hashes", what, err, gs, size, len(gh), len(hs)), unit, map[string]any{"body_b64": base64.StdEncoding.EncodeToString(body), "delivery": delivery})
			}
			if unit == 0 && i == 1 {
				run.Sample(map[string]any{"part": "roundtrip", "body": string(body[:min(len(body), 200)])})
			}
		}
	})

	// refusal classes
	cpOK := "example.com/log\n1\nAAAA\n\n— k AAAAAAAA\n"
	var bad []struct{ class, body string }
	for _, l := range []string{"5", "new 5", "old5", "Old 5", "OLD 5", "old -5", "old +5", "old 18446744073709551616", "old 99999999999999999999999999", "old ", "old", "old 5abc", "old 0x10", "old 1_000", "old 5 6", "old 5 ", "old five", " old 5", "old 5.0", "old 1e3", "dlo 5", "old: 5", "old=5", "", "old ٥"} {
		bad = append(bad, struct{ class, body string }{"a", l + "\n\n" + cpOK}, struct{ class, body string }{"a", l + "\nAAAA\n\n" + cpOK})
	}
	for _, l := range []string{"!!!!", "AAA", "AAAA AAAA", "=AAA", "AA=A", "AAAA=", "A", "AAAA-", "AAAA_AAA", "*", "AAAAA", "QUJD.A==", "— k AAAAAAAA", "old 5", "example.com/log", "AAA=AAAA", "====", "AA==AA=="} {
		bad = append(bad, struct{ class, body string }{"b", "old 5\n" + l + "\n\n" + cpOK}, struct{ class, body string }{"b", "old 5\nAAAA\n" + l + "\n\n" + cpOK}, struct{ class, body string }{"b", "old 5\n" + l + "\nAAAA\n\n" + cpOK})
	}
	for _, b := range []string{"", "old 5", "old 5\n", "old 5\nAAAA", "old 5\nAAAA\n", "old 5\nAAAA\nBBBB\n", "old 5\nAAAA\nBBBB", "old 0\nq83vEjRWeJCrze8SNFZ4kKvN7xI0VniQq83vEjRWeJA=\n"} {
		bad = append(bad, struct{ class, body string }{"c", b})
	}
	for i := 1; i <= 40; i++ { // valid body cut before its separator at every proof-line boundary
		var hs [][]byte
		r := run.Rand("cut", int64(i))
		for j := 0; j < i; j++ {
			hs = append(hs, randBytes(r, 32))
		}
		full := write("77", hs, nil)
		bad = append(bad, struct{ class, body string }{"c", string(full[:len(full)-1])})
	}
	for _, c := range bad {
		s, h, cp, err := bastion.VerifParseBody(strings.NewReader(c.body))
		run.Count("evaluations")
		run.Count("refusal_" + c.class)
		run.Distinct("nontrivial", "bad/"+c.class+"/"+c.body[:min(len(c.body), 24)])
		if err == nil {
			first := strings.SplitN(c.body, "\n", 2)[0]
			key := "malformed_accepted;class=" + c.class
			if c.class == "a" {
				key += ";line=" + first
			}
			run.Violate(key, fmt.Sprintf("malformed body (class %s) was accepted as old=%d, %d hashes, %d checkpoint bytes: %q", c.class, s, len(h), len(cp), c.body[:min(len(c.body), 60)]), -1, map[string]any{"body": c.body})
		}
	}
	run.Sample(map[string]any{"part": "refusal", "examples": []string{bad[0].body, bad[60].body, bad[len(bad)-1].body[:40]}})

	// Proof.Marshal / Unmarshal
	run.Units("proof", run.Pick(16, 256), 0, func(unit int64, r *rand.Rand) {
		// reuse: one receiver per unit that keeps whatever the previous Unmarshal left in it - "stores the result in
		// the Proof" holds whatever the receiver held before (a decoder that is handed a used value)
		var reuse witness.Proof
		for i := 0; i < 500; i++ {
			n := r.IntN(65)
			if i%10 == 0 {
				n = 0
			}
			p := witness.Proof{}
			for j := 0; j < n; j++ {
				p = append(p, randBytes(r, 1+r.IntN(64)))
			}
			if unit == 0 && i == 1 {
				p = nil
			}
			txt := p.Marshal()
			var q witness.Proof
			err := q.Unmarshal([]byte(txt))
			run.Count("evaluations")
			run.Count("proof_roundtrip")
			run.Distinct("nontrivial", fmt.Sprintf("proof/%d", n))
			if err != nil || !eqHashes(p, q) {
				run.Violate(fmt.Sprintf("proof_roundtrip;empty=%v", len(p) == 0), fmt.Sprintf("Proof of %d hashes: Marshal then Unmarshal gave err=%v and %d hashes", len(p), err, len(q)), unit, map[string]any{"text": txt})
			}
			before := len(reuse)
			err = reuse.Unmarshal([]byte(txt))
			run.Count("evaluations")
			run.Count("proof_roundtrip_reused_receiver")
			run.Distinct("nontrivial", fmt.Sprintf("proof-reused/%v->%v", before == 0, n == 0))
			if err != nil || !eqHashes(p, reuse) {
				run.Violate(fmt.Sprintf("proof_roundtrip_reused_receiver;empty=%v;receiver_was_empty=%v", len(p) == 0, before == 0), fmt.Sprintf("Proof of %d hashes unmarshalled into a receiver that held %d hashes from the previous call: err=%v and %d hashes read back", len(p), before, err, len(reuse)), unit, map[string]any{"text": txt})
			}
		}
	})

	ownWriter(run)
	if run.Thorough() {
		run.Fuzz("FuzzParseBody", 2000000, 30*time.Minute)
		run.Fuzz("FuzzProofUnmarshal", 500000, 15*time.Minute)
	}

	// differential sweep
	run.Units("diff", run.Pick(64, 1600), 0, func(unit int64, r *rand.Rand) {
		for i := 0; i < 3200; i++ {
			var hs [][]byte
			for j := r.IntN(5); j > 0; j-- {
				hs = append(hs, randBytes(r, 1+r.IntN(40)))
			}
			body := write(strconv.FormatUint(drawSize(r), 10), hs, drawCP(r))
			for k := 1 + r.IntN(3); k > 0; k-- {
				body = mutate(r, body)
			}
			rv, rs, rh, rc := refbody.Parse(body)
			gs, gh, gc, err := bastion.VerifParseBody(bytes.NewReader(body))
			run.Count("evaluations")
			detail := map[string]any{"body_b64": base64.StdEncoding.EncodeToString(body), "body": string(body[:min(len(body), 300)])}
			switch rv {
			case refbody.Accept:
				run.Count("diff_definite")
				if err != nil || gs != rs || !eqHashes(gh, rh) || !bytes.Equal(gc, rc) {
					run.Violate("diff_wellformed_misparsed", fmt.Sprintf("reference reads old=%d, %d hashes, %d bytes; parser: err=%v old=%d, %d hashes, %d bytes", rs, len(rh), len(rc), err, gs, len(gh), len(gc)), unit, detail)
				}
			case refbody.Refuse:
				run.Count("diff_definite")
				if err == nil {
					first := string(body[:min(len(body), 16)])
					if i := strings.IndexByte(first, '\n'); i >= 0 {
						first = first[:i]
					}
					cls := "other"
					if !strings.HasPrefix(first, "old ") {
						cls = "no_old_prefix"
					} else if _, e := strconv.ParseUint(strings.TrimPrefix(first, "old "), 10, 64); e != nil {
						cls = "bad_old_number"
					}
					run.Violate("diff_malformed_accepted;"+cls, fmt.Sprintf("reference refuses, parser accepted old=%d, %d hashes: %q", gs, len(gh), string(body[:min(len(body), 50)])), unit, detail)
				}
			case refbody.Open:
				run.Count("diff_open")
			}
			run.Distinct("nontrivial", fmt.Sprintf("diff/%d/%v/%d", rv, err == nil, len(rh)))
		}
	})
}

func mutate(r *rand.Rand, b []byte) []byte {
	b = append([]byte{}, b...)
	if len(b) == 0 {
		return []byte("old 1\n\n")
	}
	head := len(b)
	if i := bytes.Index(b, []byte("\n\n")); i >= 0 && r.IntN(4) != 0 {
		head = i + 2 // mostly edit the header part
	}
	switch r.IntN(9) {
	case 0:
		b[r.IntN(head)] ^= 1 << r.UintN(8)
	case 1:
		i := r.IntN(head)
		b = append(b[:i], b[i+1:]...)
	case 2:
		i := r.IntN(head)
		b = append(b[:i], append([]byte{"\n \t\r=0aZ-+/9x"[r.IntN(13)]}, b[i:]...)...)
	case 3:
		b = b[:r.IntN(len(b))]
	case 4:
		i := bytes.IndexByte(b, '\n')
		if i > 4 {
			b = append(append(append([]byte{}, b[:i]...), []byte([]string{"abc", " 6", "0", " ", "_0", "e3", ".0", "\r"}[r.IntN(8)])...), b[i:]...)
		}
	case 5:
		b = bytes.Replace(b, []byte("\n\n"), []byte("\n"), 1)
	case 6:
		b = bytes.Replace(b, []byte("old "), []byte([]string{"old", "Old ", "old  ", "old\t", "old 0", "old -", "old +"}[r.IntN(7)]), 1)
	case 7:
		i := r.IntN(head)
		b[i] = "AQgw=!_- \n"[r.IntN(10)]
	case 8:
		b = append(randBytes(r, r.IntN(4)), b...)
	}
	return b
}

// ownWriter runs the repository's own writer of the body format (cmd/feedbastion) under a capture server.
func ownWriter(run *ev.Run) {
	bin := os.Getenv("VERIF_BIN_FEEDBASTION")
	if bin == "" {
		run.Inconclusive("feedbastion test binary not provided")
		return
	}
	type c struct {
		CP    []byte
		Proof [][]byte
	}
	r := run.Rand("own", 0)
	var cases []c
	for i := 0; i < 120; i++ {
		var hs [][]byte
		for j := r.IntN(12); j > 0; j-- {
			hs = append(hs, randBytes(r, 32))
		}
		cp := drawCP(r)
		cases = append(cases, c{CP: cp, Proof: hs})
	}
	dir := run.Scratch()
	in, out := filepath.Join(dir, "own-in.json"), filepath.Join(dir, "own-out.json")
	b, _ := json.Marshal(cases)
	_ = os.WriteFile(in, b, 0o644)
	cmd := exec.Command(bin, "-test.run", "^TestVerifCaptureBodies$", "-test.count=1")
	cout := filepath.Join(dir, "own-out-concurrent.json")
	cmd.Env = append(os.Environ(), "VERIF_CAPTURE_IN="+in, "VERIF_CAPTURE="+out, "VERIF_CAPTURE_CONCURRENT="+cout)
	if o, err := cmd.CombinedOutput(); err != nil {
		run.Inconclusive("feedbastion capture failed: " + err.Error() + ": " + string(o[:min(len(o), 300)]))
		return
	}
	var bodies [][]byte
	ob, err := os.ReadFile(out)
	if err != nil || json.Unmarshal(ob, &bodies) != nil || len(bodies) != len(cases) {
		run.Inconclusive("feedbastion capture unreadable")
		return
	}
	for i, body := range bodies {
		gs, gh, gc, err := bastion.VerifParseBody(bytes.NewReader(body))
		run.Count("evaluations")
		run.Count("own_writer_bodies")
		run.Distinct("nontrivial", fmt.Sprintf("own/%d/%d", len(cases[i].Proof), len(cases[i].CP)%5))
		want := cases[i].Proof
		if want == nil {
			want = [][]byte{}
		}
		if err != nil || gs != 0 || !eqHashes(gh, want) || !bytes.Equal(gc, cases[i].CP) {
			run.Violate("own_writer_misparsed", fmt.Sprintf("body written by cmd/feedbastion parsed to err=%v old=%d, %d/%d hashes, checkpoint equal=%v", err, gs, len(gh), len(want), bytes.Equal(gc, cases[i].CP)), int64(i), map[string]any{"body_b64": base64.StdEncoding.EncodeToString(body)})
		}
	}
	run.Sample(map[string]any{"part": "own_writer", "body": string(bodies[0][:min(len(bodies[0]), 160)])})
	// concurrent pass: eight goroutines share the one client value, as the feeders of cmd/feedbastion do;
	// what reached the server must be, as a multiset, exactly the bodies of the sequential pass
	var cbodies [][]byte
	cb, err := os.ReadFile(cout)
	if err != nil || json.Unmarshal(cb, &cbodies) != nil {
		run.Inconclusive("feedbastion concurrent capture unreadable")
		return
	}
	want := map[string]int{}
	for _, b := range bodies {
		want[string(b)]++
	}
	missing, foreign := 0, 0
	var example []byte
	for _, b := range cbodies {
		run.Count("evaluations")
		run.Count("own_writer_bodies_concurrent")
		if want[string(b)] > 0 {
			want[string(b)]--
		} else {
			foreign++
			example = b
		}
	}
	for _, n := range want {
		missing += n
	}
	if foreign > 0 || missing > 0 || len(cbodies) != len(bodies) {
		run.Violate("own_writer_concurrent_bodies_differ", fmt.Sprintf("with 8 Update calls in flight on one client, %d of %d bodies that reached the server are not what the writer produces for its input one at a time (%d expected bodies never arrived)", foreign, len(cbodies), missing), -1, map[string]any{"example_b64": base64.StdEncoding.EncodeToString(example)})
	}
}
