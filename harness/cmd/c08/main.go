// C08: an honest log can always move the witness forward.
//
// After every generated history (accepted and refused requests of every kind)
// an honest probe is submitted for every log: a clean log-signed checkpoint of
// equal or larger size on a branch whose leaves extend what the witness holds,
// old size = the witness's size, proof = the reference tree's consistency
// proof. The probe must be accepted.
package main

import (
	"context"
	"errors"
	"fmt"
	"math/rand/v2"
	"strings"
	"sync/atomic"

	"github.com/transparency-dev/witness/internal/verif/kit/ev"
	"github.com/transparency-dev/witness/internal/verif/kit/gen"
	"github.com/transparency-dev/witness/internal/verif/kit/refnote"
	"github.com/transparency-dev/witness/internal/verif/kit/reftree"
	"github.com/transparency-dev/witness/internal/verif/kit/wit"
	"github.com/transparency-dev/witness/internal/verif/kit/xcheck"
	"github.com/transparency-dev/witness/internal/witness"
)

func main() {
	run := ev.Start("C08", "exploration")
	defer run.Finish()
	run.Rule("unit = one generated prior history (hostile requests of every kind incl. checkpoints with 90-99 extra signature lines, extension lines, a first checkpoint of size 0; explicit trees with sizes 0..40 and 0..2^16, region trees to 2^40) followed by honest probes for every log: growth and refresh, twice in a row. evaluations = probes; nontrivial = distinct (stored size class, probe size class, probe kind, prior-history feature, store)")
	run.Assume("an honest log never signs a root that is no tree (probes are skipped for logs whose stored checkpoint is a phantom root signed by a misbehaving log)", "both kit verifiers (reftree, x/mod tlog) accept the probe's proof before it is submitted")
	if err := xcheck.SelfCheck(uint64(run.Seed), 300); err != nil {
		run.Inconclusive("reference verifiers disagree: " + err.Error())
		return
	}
	run.Floor("probe_after_padded", 300)
	run.Floor("probe_after_size0_first", 300)
	run.Floor("probe_size_gt_2^32", 300)
	run.Floor("probe_growth", 3000)
	run.Floor("probe_refresh", 1000)
	// A witness whose store no longer answers accepts nothing, whatever the honest log submits: here a
	// proven wedge (pool exhausted by a transaction an earlier, finished request left open) is the violation.
	var wedges atomic.Int64
	wit.WedgeHandler = func(desc string, proven bool) {
		if !proven {
			run.Inconclusive("a witness call never returned: " + desc)
			run.Abort()
			return
		}
		run.Violate("honest_update_can_never_be_accepted;store_wedged", "after a prior history of accepted and refused submissions every further call on the witness blocks forever: "+desc, -1, map[string]any{"pool": desc})
		if wedges.Add(1) >= 2 {
			run.Abort()
		}
	}
	dir := run.Scratch()
	run.Units("hist", run.Pick(2500, 100000), 0, func(unit int64, r *rand.Rand) {
		o := wit.HistOpts{Gen: gen.Opts{NLogs: 1 + r.IntN(3), MaxSize: 40, Branches: 2 + r.IntN(2), ShareKeys: true}, MinSteps: 5, MaxSteps: 40, Dir: dir}
		switch unit % 5 {
		case 3:
			o.Gen.Big, o.Gen.BigBits = true, 40
		case 4:
			o.Gen.MaxSize = 1 << 16
		}
		padded := false
		h, err := wit.RunHistory(r, o, func(h *wit.Hist, s *wit.Step, i int) {
			if s.Err == nil && s.Req.CPKind == "honest" {
				if n, err := refnote.Parse(s.Req.CP); err == nil && len(n.Sigs) >= 90 {
					padded = true
				}
			}
		})
		if errors.Is(err, wit.ErrWedged) {
			run.Violate("honest_update_can_never_be_accepted;store_wedged", "the witness stopped answering during the prior history: "+err.Error(), unit, map[string]any{"trace": h.Trace, "store": h.Kind})
			return
		}
		if err != nil {
			run.Inconclusive(err.Error())
			return
		}
		defer h.Close()
		feat := "plain"
		if padded {
			feat = "padded"
		}
		probeAll(run, unit, r, h.Rn, h.Kind, feat, h.Trace)
	})
	run.Units("padded", run.Pick(500, 5000), 0, func(unit int64, r *rand.Rand) { scripted(run, unit, r, dir, "padded") })
	run.Units("zero", run.Pick(500, 5000), 0, func(unit int64, r *rand.Rand) { scripted(run, unit, r, dir, "size0_first") })
	// long runs of refusals of ONE kind (a replayed genuine checkpoint with a junk proof, a fork, stale old
	// sizes, forgeries...): no amount of refused traffic may turn the witness against the honest log
	run.Floor("probe_after_flood", 200)
	run.Units("flood", run.Pick(120, 1200), 0, func(unit int64, r *rand.Rand) { scripted(run, unit, r, dir, "flood") })
}

// scripted builds the two prior histories the statement names explicitly.
func scripted(run *ev.Run, unit int64, r *rand.Rand, dir, what string) {
	u := gen.NewUniverse(r, gen.Opts{NLogs: 1 + r.IntN(2), MaxSize: 40, Branches: 2})
	kind := wit.DrawStore(r)
	st, err := wit.NewStore(kind, dir)
	if err != nil {
		run.Inconclusive(err.Error())
		return
	}
	defer st.Close()
	sc := [][]bool{{false}, {true}, {false, true}, {false, true, false}}[r.IntN(4)]
	keys, _ := wit.NewWitKeys(r, sc, len(sc) == 2)
	rn, err := wit.NewRunner(u, keys, st, nil)
	if err != nil {
		run.Inconclusive(err.Error())
		return
	}
	var trace []string
	ctx := context.Background()
	for _, l := range u.Logs {
		switch what {
		case "padded":
			// 0-2 honest steps, then a checkpoint padded with junk signature lines so that
			// (log line + junk) stays within the note format's 100-line limit
			cur := uint64(0)
			for i := r.IntN(3); i > 0; i-- {
				nx := cur + 1 + r.Uint64N(5)
				_, err := rn.W.Update(ctx, l.ID, cur, l.Honest(0, nx), l.Branches[0].Consistency(cur, nx))
				trace = append(trace, fmt.Sprintf("honest %d->%d err=%v", cur, nx, err))
				if err == nil {
					cur = nx
				}
			}
			nx := cur + r.Uint64N(4)
			junk := 90 + r.IntN(10)
			text := refnote.Body(l.Origin, nx, l.Root(0, nx))
			cp := l.Note(r, l.Key, text, gen.Deco{UnknownSig: junk})
			_, err := rn.W.Update(ctx, l.ID, cur, cp, l.Branches[0].Consistency(cur, nx))
			trace = append(trace, fmt.Sprintf("padded junk=%d witness_keys=%d %d->%d err=%v", junk, len(sc), cur, nx, err))
		case "size0_first":
			_, err := rn.W.Update(ctx, l.ID, 0, l.Honest(r.IntN(2), 0), nil)
			trace = append(trace, fmt.Sprintf("first checkpoint of size 0 err=%v", err))
		case "flood":
			cur := 1 + r.Uint64N(10)
			if _, err := rn.W.Update(ctx, l.ID, 0, l.Honest(0, cur), nil); err != nil {
				run.Inconclusive("first update refused: " + err.Error())
				return
			}
			n := 33 + r.IntN(100)
			class := []string{"junk_proof_replay", "fork_same_size", "fork_larger_with_its_own_proof", "stale_old_size", "old_size_too_large", "forged_signature", "mixed_refusals"}[unit%7]
			refused := 0
			for i := 0; i < n; i++ {
				c := class
				if c == "mixed_refusals" {
					c = []string{"junk_proof_replay", "fork_same_size", "fork_larger_with_its_own_proof"}[r.IntN(3)]
				}
				var err error
				switch c {
				case "junk_proof_replay":
					nx := cur + 1 + r.Uint64N(8)
					junk := make([][]byte, 1+r.IntN(4))
					for j := range junk {
						junk[j] = make([]byte, 32)
						for k := range junk[j] {
							junk[j][k] = byte(r.Uint32())
						}
					}
					_, err = rn.W.Update(ctx, l.ID, cur, l.Honest(0, nx), junk)
				case "fork_same_size":
					_, err = rn.W.Update(ctx, l.ID, cur, l.Honest(1, cur), nil)
				case "fork_larger_with_its_own_proof":
					nx := cur + 1 + r.Uint64N(8)
					_, err = rn.W.Update(ctx, l.ID, cur, l.Honest(1, nx), l.Branches[1].Consistency(cur, nx))
				case "stale_old_size":
					_, err = rn.W.Update(ctx, l.ID, cur-1, l.Honest(0, cur+2), l.Branches[0].Consistency(cur-1, cur+2))
				case "old_size_too_large":
					_, err = rn.W.Update(ctx, l.ID, cur+50, l.Honest(0, cur+2), nil)
				case "forged_signature":
					text := refnote.Body(l.Origin, cur+3, l.Root(0, cur+3))
					_, err = rn.W.Update(ctx, l.ID, cur, refnote.Assemble(text, u.Foreign[0].SigLine(text)), l.Branches[0].Consistency(cur, cur+3))
				}
				if err != nil {
					refused++
				}
			}
			trace = append(trace, fmt.Sprintf("first checkpoint at %d, then %d consecutive requests of kind %s (%d refused)", cur, n, class, refused))
			run.Distinct("nontrivial", "flood/"+class)
		}
	}
	probeAll(run, unit, r, rn, kind, what, trace)
}

func sizeClass(s uint64) string {
	switch {
	case s == 0:
		return "0"
	case s == 1:
		return "1"
	case s&(s-1) == 0:
		return "pow2"
	case s > 1<<32:
		return ">2^32"
	case s > 1<<16:
		return ">2^16"
	}
	return "n"
}

func probeAll(run *ev.Run, unit int64, r *rand.Rand, rn *wit.Runner, kind, feat string, trace []string) {
	u := rn.U
	ctx := context.Background()
	for _, l := range u.Logs {
		for round := 0; round < 2; round++ {
			var snap *wit.Snapshot
			if wd := rn.Store.Guarded(func() { snap = rn.Snap() }); wd != "" {
				return
			}
			v := rn.View(l, snap)
			comp := l.Compatible(v)
			if v.Has && len(comp) == 0 {
				run.Count("skipped_phantom_stored")
				break
			}
			b := comp[r.IntN(len(comp))]
			var size uint64
			pk := "growth"
			switch {
			case v.Has && r.IntN(4) == 0:
				size, pk = v.Size, "refresh"
			case u.Big:
				size = v.Size + 1 + r.Uint64N(1<<uint(1+r.IntN(40)))
			default:
				if v.Size >= u.MaxSize {
					size, pk = v.Size, "refresh"
				} else {
					size = v.Size + 1 + r.Uint64N(u.MaxSize-v.Size)
				}
			}
			if !v.Has {
				pk = "first"
			}
			proof := [][]byte{}
			if v.Has && v.Size > 0 && size > v.Size {
				proof = l.Branches[b].Consistency(v.Size, size)
				rt := l.Root(b, size)
				if !reftree.VerifyConsistency(v.Size, size, v.Root, rt, proof) || !xcheck.TlogVerify(v.Size, size, v.Root, rt, proof) {
					run.Inconclusive(fmt.Sprintf("kit verifiers reject the probe's own proof %d->%d", v.Size, size))
					return
				}
			}
			cp := l.Honest(b, size)
			var ret []byte
			var err error
			if wd := rn.Store.Guarded(func() { ret, err = rn.W.Update(ctx, l.ID, v.Size, cp, proof) }); wd != "" {
				return
			}
			run.Count("evaluations")
			run.Count("probe_" + pk)
			if feat == "padded" {
				run.Count("probe_after_padded")
			}
			if feat == "size0_first" {
				run.Count("probe_after_size0_first")
			}
			if feat == "flood" {
				run.Count("probe_after_flood")
			}
			if size > 1<<32 {
				run.Count("probe_size_gt_2^32")
			}
			run.Distinct("nontrivial", fmt.Sprintf("%s/%s/%s/%s/%s/%d", sizeClass(v.Size), sizeClass(size), pk, feat, kind, round))
			detail := map[string]any{"trace": trace, "store": kind, "stored": string(v.Raw), "probe": string(cp), "old_size": v.Size, "proof_len": len(proof), "err": fmt.Sprint(err), "returned": string(ret)}
			if err != nil {
				verdict := "other_error"
				if strings.Contains(err.Error(), "parse stored checkpoint") {
					verdict = "stored_checkpoint_unreadable"
				}
				for name, e := range map[string]error{"ErrInvalidProof": witness.ErrInvalidProof, "ErrCheckpointStale": witness.ErrCheckpointStale, "ErrOldSizeInvalid": witness.ErrOldSizeInvalid, "ErrRootMismatch": witness.ErrRootMismatch, "ErrNoValidSignature": witness.ErrNoValidSignature, "ErrUnknownLog": witness.ErrUnknownLog} {
					if errors.Is(err, e) {
						verdict = name
					}
				}
				stored := "n"
				if v.Has && v.Size == 0 {
					stored = "0"
				}
				if !v.Has {
					stored = "none"
				}
				key := fmt.Sprintf("stored_size=%s;probe=%s;verdict=%s", stored, pk, verdict)
				run.Violate(key, fmt.Sprintf("honest probe refused: stored size %d, probe size %d (%s), proof of %d hashes: %v", v.Size, size, pk, len(proof), err), unit, detail)
				break
			}
			n, perr := refnote.Parse(ret)
			if perr != nil {
				run.Violate("probe_returned_unparsable", "accepted probe returned an unparsable note", unit, detail)
				break
			}
			if c, cerr := refnote.ParseCheckpoint(n.Text); cerr != nil || c.Size != size {
				run.Violate("probe_returned_wrong_size", "accepted probe returned a checkpoint of another size", unit, detail)
			}
			if unit == 0 && round == 0 {
				run.Sample(map[string]any{"feature": feat, "stored_size": v.Size, "probe_size": size, "kind": pk, "proof_hashes": len(proof), "store": kind})
			}
		}
	}
}
