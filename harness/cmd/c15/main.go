// C15: the distributor pushes only verified, unmodified witnessed checkpoints.
package main

import (
	"bytes"
	"context"
	"errors"
	"fmt"
	"io"
	"math/rand/v2"
	"net/http"
	"net/http/httptest"
	"net/url"
	"os"
	"strings"
	"sync"
	"time"

	f_note "github.com/transparency-dev/formats/note"
	"github.com/transparency-dev/witness/internal/config"
	"github.com/transparency-dev/witness/internal/distribute/rest"
	"github.com/transparency-dev/witness/internal/verif/kit/asm"
	"github.com/transparency-dev/witness/internal/verif/kit/asmunits"
	"github.com/transparency-dev/witness/internal/verif/kit/ev"
	"github.com/transparency-dev/witness/internal/verif/kit/gen"
	"github.com/transparency-dev/witness/internal/verif/kit/refnote"
	"github.com/transparency-dev/witness/internal/verif/kit/wit"
)

var witnessAnswers = []string{"valid", "missing", "wrong_log_key", "no_witness_sig", "invalid_witness_sig", "corrupted", "other_logs_checkpoint", "valid_two_keys", "wrong_origin", "witness_error", "witness_timeout"}
var distAnswers = []string{"200", "400", "404", "500", "reset", "302_to_200", "307_to_404", "307_to_200", "timeout", "200_big_body", "200_body_after_headers"}

// wait sleeps d unless ctx ends first.
func wait(ctx context.Context, d time.Duration) error {
	if d <= 0 {
		return ctx.Err()
	}
	select {
	case <-time.After(d):
		return nil
	case <-ctx.Done():
		return ctx.Err()
	}
}

type stubWitness struct {
	delay   map[string]time.Duration
	mu      sync.Mutex
	answers map[string][]byte // nil = not exist
	errs    map[string]error
	asked   []string
}

func (w *stubWitness) GetLatestCheckpoint(ctx context.Context, id string) ([]byte, error) {
	w.mu.Lock()
	w.asked = append(w.asked, id)
	d := w.delay[id]
	w.mu.Unlock()
	if err := wait(ctx, d); err != nil {
		return nil, err
	}
	w.mu.Lock()
	defer w.mu.Unlock()
	if e := w.errs[id]; e != nil {
		return nil, e
	}
	cp, ok := w.answers[id]
	if !ok || cp == nil {
		return nil, os.ErrNotExist
	}
	return cp, nil
}

// ServeHTTP lets the same stub sit behind a real listener (httptest.Server): the request then crosses the real
// net/http client transport, which - unlike a RoundTripper stub - honours Content-Length and GetBody.
func (d *stubDist) ServeHTTP(w http.ResponseWriter, q *http.Request) {
	resp, err := d.RoundTrip(q)
	if err != nil {
		if hj, ok := w.(http.Hijacker); ok {
			if c, _, e := hj.Hijack(); e == nil {
				c.Close() // connection reset / transport-level failure
				return
			}
		}
		w.WriteHeader(http.StatusBadGateway)
		return
	}
	for k, v := range resp.Header {
		w.Header()[k] = v
	}
	slow := resp.Header.Get("X-Stub-Body-After-Headers") != ""
	w.WriteHeader(resp.StatusCode)
	if slow {
		// the headers go out first; the (short) body follows in a later packet
		if f, ok := w.(http.Flusher); ok {
			f.Flush()
		}
		time.Sleep(30 * time.Millisecond)
	}
	_, _ = io.Copy(w, resp.Body)
}

type seenReq struct {
	Method, Path string
	Body         []byte
}

type stubDist struct {
	delay  time.Duration
	mu     sync.Mutex
	answer map[string]string // by log ID (from the path)
	seen   []seenReq
}

func (d *stubDist) RoundTrip(q *http.Request) (*http.Response, error) {
	var body []byte
	if q.Body != nil {
		body, _ = io.ReadAll(q.Body)
		q.Body.Close()
	}
	if err := wait(q.Context(), d.delay); err != nil {
		return nil, err // the request never reaches the service
	}
	d.mu.Lock()
	defer d.mu.Unlock()
	p := q.URL.EscapedPath()
	d.seen = append(d.seen, seenReq{q.Method, p, body})
	mk := func(code int, hdr map[string]string) (*http.Response, error) {
		h := http.Header{}
		for k, v := range hdr {
			h.Set(k, v)
		}
		return &http.Response{StatusCode: code, Status: fmt.Sprintf("%d x", code), Header: h, Body: io.NopCloser(strings.NewReader("stub")), ContentLength: 4, Request: q}, nil
	}
	if strings.HasPrefix(p, "/redirected/") {
		code := 200
		if strings.HasPrefix(p, "/redirected/404/") {
			code = 404
		}
		return mk(code, nil)
	}
	parts := strings.Split(p, "/")
	id := ""
	if len(parts) > 4 {
		id = parts[4]
	}
	switch d.answer[id] {
	case "200":
		return mk(200, nil)
	case "200_big_body":
		// a verbose distributor (or a proxy in front of it): 96 KiB of body with the 200
		r, err := mk(200, nil)
		r.Body = io.NopCloser(strings.NewReader(strings.Repeat("accepted; thank you for your checkpoint\n", 2400)))
		return r, err
	case "200_body_after_headers":
		return mk(200, map[string]string{"X-Stub-Body-After-Headers": "1"})
	case "400":
		return mk(400, nil)
	case "404":
		return mk(404, nil)
	case "500":
		return mk(500, nil)
	case "reset":
		return nil, errors.New("read: connection reset by peer")
	case "timeout":
		// a deadline that expired inside the transport for this one request; the cycle's context is alive
		return nil, fmt.Errorf("awaiting response headers: %w", context.DeadlineExceeded)
	case "302_to_200":
		return mk(302, map[string]string{"Location": "/redirected/200/" + id})
	case "307_to_404":
		return mk(307, map[string]string{"Location": "/redirected/404/" + id})
	case "307_to_200":
		return mk(307, map[string]string{"Location": "/redirected/200/" + id})
	}
	return mk(200, nil)
}

func main() {
	wit.Quiet()
	wit.EnsureMetrics(nil)
	run := ev.Start("C15", "exploration")
	defer run.Finish()
	run.Rule("unit = one DistributeOnce cycle of the real distributor over 1-6 logs against a stub witness (per log one of: valid, missing, wrong log key, no witness signature, invalid witness signature, corrupted, another log's checkpoint, valid with two witness keys, wrong origin, witness error, a witness error that wraps a context error while the cycle's context is alive) and a stub distributor (200, 400, 404, 500, connection reset, a transport-level deadline error, 200 with a 96 KiB body, 200 whose body follows the headers later, 302->GET 200, 307->404, 307->200); all witness x distributor answer pairs are enumerated for single logs, sets are PRNG-drawn. Every request reaching the stub is judged (method, path, body identical to the witness's answer, body verifies by kit/refnote); per-log failure accounting is compared with DistributeOnce's result; one to three rounds run on the same Distributor instance, the witness's checkpoints changing (size and byte length) between rounds, and the last one is judged. evaluations = (log, cycle) pairs; nontrivial = distinct (witness answer, distributor answer, set size)")
	run.Assume("307 -> 200 is executed but its success/failure is not judged (the statement leaves it open)")
	run.Floor("pairs_single", int64(len(witnessAnswers)*len(distAnswers)))
	run.Floor("pushed_valid", 200)
	run.Floor("withheld_invalid", 500)
	run.Floor("checkpoint_changed_between_rounds", 200)
	run.Floor("cycles_over_a_real_listener", 200)
	type pair struct{ w, d string }
	var pairs []pair
	for _, w := range witnessAnswers {
		for _, d := range distAnswers {
			pairs = append(pairs, pair{w, d})
		}
	}
	asmDir := run.Scratch()
	if err := asm.SetupTLS(asmDir); err != nil {
		run.Inconclusive("stub bastion certificate: " + err.Error())
		return
	}
	// the assembled service: a distributor read parked across an accepted update
	run.Floor("assembled_distributor_episodes", 4)
	run.Units("asm_distributor", run.Pick(3, 24), 3, func(unit int64, r *rand.Rand) { asmunits.Distributor(run, unit, r) })
	run.Units("single", len(pairs), 0, func(unit int64, r *rand.Rand) {
		cycle(run, unit, r, []string{pairs[unit].w}, []string{pairs[unit].d})
		run.Count("pairs_single")
	})
	run.Units("sets", run.Pick(1500, 40000), 0, func(unit int64, r *rand.Rand) {
		n := 1 + r.IntN(6)
		var ws, ds []string
		for i := 0; i < n; i++ {
			w := witnessAnswers[r.IntN(len(witnessAnswers))]
			if r.IntN(2) == 0 {
				w = "valid"
			}
			ws = append(ws, w)
			ds = append(ds, distAnswers[r.IntN(len(distAnswers))])
		}
		cycle(run, unit, r, ws, ds)
	})
}

func cycle(run *ev.Run, unit int64, r *rand.Rand, ws, ds []string) {
	u := gen.NewUniverse(r, gen.Opts{NLogs: len(ws) + 1, MaxSize: 10, Branches: 1, ShareKeys: true})
	extra := u.Logs[len(ws)] // a log that is not in the distributor's list
	logs := u.Logs[:len(ws)]
	var seed [32]byte
	for i := range seed {
		seed[i] = byte(r.Uint32())
	}
	wk := refnote.NewSignKey("witness.example/w "+fmt.Sprint(r.IntN(9)), seed)
	wk.Name = strings.ReplaceAll(wk.Name, " ", "_")
	if r.IntN(3) == 0 {
		wk.Name = "wítness/with/slash" // the path must escape it
	}
	signer, err := f_note.NewSignerForCosignatureV1(wk.Skey())
	if err != nil {
		run.Inconclusive(err.Error())
		return
	}
	witV := signer.Verifier()
	sw := &stubWitness{answers: map[string][]byte{}, errs: map[string]error{}, delay: map[string]time.Duration{}}
	sd := &stubDist{answer: map[string]string{}}
	latency := len(ws) > 1 && r.IntN(2) == 0 // realistic latencies: a failure of one log must not abort the others
	if latency {
		sd.delay = time.Duration(r.IntN(4)) * time.Millisecond
	}
	var clogs []config.Log
	digits := 1 // decimal length of the sizes drawn: later rounds publish checkpoints of another length
	cosign := func(l *gen.Log, k *refnote.SignKey, origin string, wsig string) []byte {
		size := 1 + r.Uint64N(9)
		for d := 1; d < digits; d++ {
			size = size*10 + r.Uint64N(10)
		}
		text := refnote.Body(origin, size, l.Root(0, size))
		lines := []string{k.SigLine(text)}
		switch wsig {
		case "v1":
			lines = append(lines, wk.CosigLine(text, 1700000000+r.Uint64N(1000)))
		case "two":
			lines = append(lines, wk.SigLine(text), wk.CosigLine(text, 1700000000))
		case "bad":
			good := wk.CosigLine(text, 1700000000)
			other := wk.CosigLine(text+"x", 1700000000)
			_ = good
			lines = append(lines, other) // right key identity, signature over another text
		case "foreignwitness":
			lines = append(lines, u.Foreign[1].CosigLine(text, 1700000000))
		}
		return refnote.Assemble(text, lines...)
	}
	for i, l := range logs {
		cl, err := config.NewLog(l.Origin, l.Key.Vkey(), "http://unused.invalid/")
		if err != nil {
			run.Inconclusive(err.Error())
			return
		}
		clogs = append(clogs, cl)
		sd.answer[cl.ID] = ds[i]
		if latency && (ws[i] == "valid" || ws[i] == "valid_two_keys") {
			sw.delay[cl.ID] = time.Duration(r.IntN(6)) * time.Millisecond
		}
		switch ws[i] {
		case "valid":
			sw.answers[cl.ID] = cosign(l, l.Key, l.Origin, "v1")
		case "valid_two_keys":
			sw.answers[cl.ID] = cosign(l, l.Key, l.Origin, "two")
		case "missing":
		case "wrong_log_key":
			sw.answers[cl.ID] = cosign(l, u.Foreign[0], l.Origin, "v1")
		case "no_witness_sig":
			if r.IntN(2) == 0 {
				sw.answers[cl.ID] = cosign(l, l.Key, l.Origin, "none")
			} else {
				sw.answers[cl.ID] = cosign(l, l.Key, l.Origin, "foreignwitness")
			}
		case "invalid_witness_sig":
			sw.answers[cl.ID] = cosign(l, l.Key, l.Origin, "bad")
		case "corrupted":
			good := cosign(l, l.Key, l.Origin, "v1")
			sw.answers[cl.ID] = gen.Mutate(r, good)
			if a, _ := l.Judge(sw.answers[cl.ID]); a {
				sw.answers[cl.ID] = good[:len(good)/2]
			}
		case "other_logs_checkpoint":
			sw.answers[cl.ID] = cosign(extra, extra.Key, extra.Origin, "v1")
		case "wrong_origin":
			sw.answers[cl.ID] = cosign(l, l.Key, l.Origin+"/v2", "v1")
		case "witness_error":
			sw.errs[cl.ID] = errors.New("witness unavailable")
		case "witness_timeout":
			// the witness's own storage deadline expired for this one read; the cycle's context is alive
			sw.errs[cl.ID] = fmt.Errorf("reading checkpoint: %w", []error{context.DeadlineExceeded, context.Canceled}[r.IntN(2)])
		}
	}
	base, hc := "http://distributor.invalid", &http.Client{Transport: sd}
	if unit%4 == 3 {
		// a real listener and the real client transport
		srv := httptest.NewServer(sd)
		defer srv.Close()
		base, hc = srv.URL, &http.Client{Timeout: 20 * time.Second}
		run.Count("cycles_over_a_real_listener")
	}
	d, err := rest.NewDistributor(base, hc, clogs, witV, sw)
	if err != nil {
		run.Inconclusive(err.Error())
		return
	}
	derr := d.DistributeOnce(context.Background())
	// the same distributor is polled again and again in production: state kept between rounds must not change the verdicts
	rounds := 1 + int(unit%3)
	// what the distributor service has acknowledged (a PUT answered 200 directly) in earlier rounds of this
	// instance: not sending those very bytes again is no failure - the service already holds them
	acked := map[string][]byte{}
	noteAcks := func() {
		sd.mu.Lock()
		defer sd.mu.Unlock()
		for i := range logs {
			if !strings.HasPrefix(ds[i], "200") {
				continue
			}
			id := clogs[i].ID
			for _, q := range sd.seen {
				if q.Method == http.MethodPut && strings.Contains(q.Path, "/logs/"+id+"/") {
					acked[id] = q.Body
				}
			}
		}
	}
	for k := 1; k < rounds; k++ {
		noteAcks()
		sd.mu.Lock()
		sd.seen = nil
		sd.mu.Unlock()
		sw.mu.Lock()
		sw.asked = nil
		// between rounds the logs grow: the witness now holds newer checkpoints, of another byte length
		digits = 1 + r.IntN(4) // (explicit trees: keep the sizes below 10^4)
		for i, l := range logs {
			if r.IntN(2) == 0 {
				continue
			}
			switch ws[i] {
			case "valid":
				sw.answers[clogs[i].ID] = cosign(l, l.Key, l.Origin, "v1")
				run.Count("checkpoint_changed_between_rounds")
			case "valid_two_keys":
				sw.answers[clogs[i].ID] = cosign(l, l.Key, l.Origin, "two")
				run.Count("checkpoint_changed_between_rounds")
			}
		}
		sw.mu.Unlock()
		derr = d.DistributeOnce(context.Background())
	}
	run.Count(fmt.Sprintf("rounds_%d", rounds))

	wkKey := wk.Key(true)
	expectFail, judgeErr := 0, true
	for i, l := range logs {
		id := refnote.LogID(l.Origin)
		run.Count("evaluations")
		run.Distinct("nontrivial", fmt.Sprintf("%s/%s/%d", ws[i], ds[i], len(logs)))
		valid := ws[i] == "valid" || ws[i] == "valid_two_keys"
		wantPath := "/distributor/v0/logs/" + id + "/byWitness/" + url.PathEscape(wk.Name) + "/checkpoint"
		var mine []seenReq
		for _, q := range sd.seen {
			if strings.Contains(q.Path, "/logs/"+id+"/") || strings.HasSuffix(q.Path, "/"+id) {
				mine = append(mine, q)
			}
		}
		detail := map[string]any{"round": rounds, "witness_answer": ws[i], "distributor_answer": ds[i], "logs": len(logs), "answer": string(sw.answers[id]), "seen": fmt.Sprint(len(mine)), "err": fmt.Sprint(derr), "all_ws": ws, "all_ds": ds}
		asked := false
		for _, a := range sw.asked {
			if a == id {
				asked = true
			}
		}
		if !asked {
			run.Violate("log_not_attempted", fmt.Sprintf("log %d of %d was never looked up at the witness (an earlier failure stopped the cycle?)", i, len(logs)), unit, detail)
		}
		if !valid {
			expectFail++
			run.Count("withheld_invalid")
			if len(mine) != 0 {
				run.Violate("pushed_unverified;witness="+ws[i], fmt.Sprintf("witness answer %q must not be pushed; %d request(s) reached the distributor", ws[i], len(mine)), unit, detail)
			}
			continue
		}
		if len(mine) == 0 {
			if a, ok := acked[id]; ok && bytes.Equal(a, sw.answers[id]) {
				run.Count("unchanged_acknowledged_bytes_not_resent")
				continue
			}
			run.Violate("valid_not_pushed", "a valid witnessed checkpoint produced no request (and the service had not acknowledged these bytes in an earlier round)", unit, detail)
			expectFail++
			continue
		}
		run.Count("pushed_valid")
		q := mine[0]
		if q.Method != http.MethodPut || q.Path != wantPath {
			detail["got_path"], detail["want_path"] = q.Path, wantPath
			run.Violate("wrong_method_or_path", fmt.Sprintf("first request was %s %s, want PUT %s", q.Method, q.Path, wantPath), unit, detail)
		}
		if !bytes.Equal(q.Body, sw.answers[id]) {
			run.Violate("body_modified", "the pushed body is not byte-identical to what the witness reported", unit, detail)
		}
		for _, rq := range mine[1:] {
			// a PUT re-sent to a redirect target carries the same, current bytes
			if rq.Method == http.MethodPut && !bytes.Equal(rq.Body, sw.answers[id]) {
				run.Violate("body_modified;resent_after_redirect", "the PUT re-sent after a redirect does not carry what the witness reported in this round", unit, detail)
			}
		}
		n, perr := refnote.Parse(q.Body)
		okBody := perr == nil
		if okBody {
			a, _ := l.Judge(q.Body)
			v, _, _ := wkKey.ValidSigs(n)
			okBody = a && len(v) >= 1
		}
		if !okBody {
			run.Violate("pushed_body_does_not_verify", "the pushed body does not verify under the log's key/origin and the witness key", unit, detail)
		}
		switch ds[i] {
		case "200", "200_big_body", "200_body_after_headers":
		case "307_to_200":
			judgeErr = false
		default:
			expectFail++
		}
	}
	if judgeErr && (derr != nil) != (expectFail > 0) {
		run.Violate(fmt.Sprintf("overall_result_wrong;err=%v;failed=%d", derr != nil, expectFail), fmt.Sprintf("DistributeOnce returned %v although %d of %d logs failed", derr, expectFail, len(logs)), unit, map[string]any{"ws": ws, "ds": ds})
	}
	if unit < 3 && len(sd.seen) > 0 {
		run.Sample(map[string]any{"witness_answers": ws, "distributor_answers": ds, "first_request": sd.seen[0].Method + " " + sd.seen[0].Path, "result": fmt.Sprint(derr)})
	}
}
