// c05stress is layer (c) of C05: many goroutines hammer one real Witness with
// PRNG-chosen delays at the storage yield points; built with -race. Each short
// history is checked with porcupine against the reference model.
package main

import (
	"bytes"
	"context"
	"encoding/json"
	"errors"
	"fmt"
	"math/rand/v2"
	"os"
	"runtime"
	"strconv"
	"sync"
	"sync/atomic"
	"time"

	"github.com/anishathalye/porcupine"
	"github.com/transparency-dev/witness/internal/persistence"
	"github.com/transparency-dev/witness/internal/verif/kit/gen"
	"github.com/transparency-dev/witness/internal/verif/kit/lin"
	"github.com/transparency-dev/witness/internal/verif/kit/refnote"
	"github.com/transparency-dev/witness/internal/verif/kit/refwitness"
	"github.com/transparency-dev/witness/internal/verif/kit/wit"
	"github.com/transparency-dev/witness/internal/witness"
	"google.golang.org/grpc/codes"
	"google.golang.org/grpc/status"
)

type delayStore struct {
	inner persistence.LogStatePersistence
	n     atomic.Uint64
	seed  uint64
	// rendezvous: instead of a random delay, writers meet in pairs right before Set and enter it at the
	// same instant on different CPUs (spin barrier): interleavings INSIDE one storage operation, which yield
	// points between operations cannot produce.
	rendezvous bool
	waiting    atomic.Int64
	gen        atomic.Uint64
	met        atomic.Int64
}

func (d *delayStore) meet() {
	g := d.gen.Load()
	if d.waiting.Add(1) >= 2 {
		d.waiting.Store(0)
		d.met.Add(1)
		d.gen.Add(1)
		return
	}
	deadline := time.Now().Add(2 * time.Millisecond)
	for i := 0; d.gen.Load() == g; i++ {
		if i%256 == 255 && time.Now().After(deadline) {
			if d.gen.CompareAndSwap(g, g+1) {
				d.waiting.Store(0)
			}
			return
		}
	}
}

func (d *delayStore) jitter() {
	x := d.n.Add(1) * 0x9E3779B97F4A7C15
	x ^= d.seed
	x ^= x >> 29
	switch x % 7 {
	case 0, 1:
		runtime.Gosched()
	case 2:
		time.Sleep(time.Duration(x>>40%50) * time.Microsecond)
	}
}

func (d *delayStore) Init() error             { return d.inner.Init() }
func (d *delayStore) Logs() ([]string, error) { d.jitter(); return d.inner.Logs() }
func (d *delayStore) ReadOps(id string) (persistence.LogStateReadOps, error) {
	d.jitter()
	r, err := d.inner.ReadOps(id)
	if err != nil {
		return nil, err
	}
	return dr{d, r}, nil
}
func (d *delayStore) WriteOps(id string) (persistence.LogStateWriteOps, error) {
	d.jitter()
	w, err := d.inner.WriteOps(id)
	if err != nil {
		return nil, err
	}
	return dw{d, w}, nil
}

type dr struct {
	d *delayStore
	r persistence.LogStateReadOps
}

func (r dr) GetLatest() ([]byte, error) { r.d.jitter(); return r.r.GetLatest() }

type dw struct {
	d *delayStore
	w persistence.LogStateWriteOps
}

func (w dw) GetLatest() ([]byte, error) { w.d.jitter(); return w.w.GetLatest() }
func (w dw) Set(c []byte) error {
	if w.d.rendezvous {
		w.d.meet()
	} else {
		w.d.jitter()
	}
	return w.w.Set(c)
}
func (w dw) Close() error { w.d.jitter(); return w.w.Close() }

type rec struct {
	in        lin.In
	out       lin.Out
	ret       []byte
	call, end int64
}

func classify(err error) string {
	if err == nil {
		return "accepted"
	}
	for n, e := range map[string]error{"unknown_log": witness.ErrUnknownLog, "bad_signature": witness.ErrNoValidSignature, "old_too_large": witness.ErrOldSizeInvalid, "stale": witness.ErrCheckpointStale, "root_mismatch": witness.ErrRootMismatch, "bad_proof": witness.ErrInvalidProof} {
		if errors.Is(err, e) {
			return "refused:" + n
		}
	}
	return "storage_error"
}

func main() {
	wit.Quiet()
	round, _ := strconv.Atoi(os.Getenv("VERIF_STRESS_ROUND"))
	nh, _ := strconv.Atoi(os.Getenv("VERIF_STRESS_HIST"))
	if nh == 0 {
		nh = 100
	}
	seed, _ := strconv.ParseUint(os.Getenv("VERIF_SEED"), 10, 64)
	dir := os.Getenv("VERIF_STRESS_DIR")
	res := map[string]any{}
	outcomes := map[string]int{}
	var illegal []map[string]any
	unknown, totalOps := 0, 0
	pairsMet := int64(0)
	for h := 0; h < nh; h++ {
		r := rand.New(rand.NewPCG(seed*1000+uint64(round), uint64(h)))
		u := gen.NewUniverse(r, gen.Opts{NLogs: 3, MaxSize: 40, Branches: 2, Unique: true})
		kind := []string{"mem", "mem", "sqlmem", "sqlfile"}[r.IntN(4)]
		st, err := wit.NewStore(kind, dir)
		if err != nil {
			panic(err)
		}
		keys, _ := wit.NewWitKeys(r, []bool{false}, false)
		ds := &delayStore{seed: r.Uint64(), rendezvous: h%3 == 2}
		rn, err := wit.NewRunner(u, keys, st, func(p persistence.LogStatePersistence) persistence.LogStatePersistence { ds.inner = p; return ds })
		if err != nil {
			panic(err)
		}
		var clock atomic.Int64
		G := 8 << r.IntN(4) // 8..64 goroutines
		opsPer := 40 / G
		if opsPer == 0 {
			opsPer = 1
		}
		total := G * opsPer
		if total > 40 {
			G, total = 40, 40
			opsPer = 1
		}
		recs := make([]*rec, total)
		var wg sync.WaitGroup
		start := make(chan struct{})
		for g := 0; g < G; g++ {
			g := g
			gr := rand.New(rand.NewPCG(r.Uint64(), uint64(g)))
			wg.Add(1)
			go func() {
				defer wg.Done()
				<-start
				for k := 0; k < opsPer; k++ {
					idx := g*opsPer + k
					l := u.Logs[gr.IntN(len(u.Logs))]
					rc := &rec{}
					recs[idx] = rc
					if gr.IntN(4) == 0 {
						rc.in = lin.In{Read: true, LogID: l.ID, Idx: idx, Desc: "read"}
						rc.call = clock.Add(1)
						cp, err := rn.W.GetCheckpoint(l.ID)
						rc.end = clock.Add(1)
						rc.ret = cp
						rc.out = lin.Out{Kind: "read", Has: cp != nil}
						if err != nil && status.Code(err) != codes.NotFound {
							rc.out.Kind = "read_error"
						}
						continue
					}
					// look at the witness, then try a step from what was seen (it may be stale by the time it lands)
					cur, _ := rn.W.GetCheckpoint(l.ID)
					var v gen.View
					if cur != nil {
						if n, err := refnote.Parse(cur); err == nil {
							if c, err := refnote.ParseCheckpoint(n.Text); err == nil {
								v = gen.View{Has: true, Size: c.Size, Root: c.Root}
							}
						}
					}
					br := gr.IntN(2)
					if comp := l.Compatible(v); len(comp) > 0 && gr.IntN(5) != 0 {
						br = comp[gr.IntN(len(comp))]
					}
					size := v.Size + uint64(gr.IntN(4))
					if size == 0 {
						size = 1 + uint64(gr.IntN(3))
					}
					if size > u.MaxSize {
						size = u.MaxSize
					}
					old := v.Size
					if gr.IntN(8) == 0 && old > 0 {
						old--
					}
					cp := l.Honest(br, size)
					proof := l.Branches[br].Consistency(v.Size, size)
					_, body := l.Judge(cp)
					rc.in = lin.In{LogID: l.ID, Idx: idx, Desc: fmt.Sprintf("update l%d b%d old=%d size=%d", l.Idx, br, old, size),
						Req: refwitness.Req{Known: true, Authentic: true, Size: body.Size, Root: body.Root, OldSize: old, Proof: proof}}
					rc.call = clock.Add(1)
					ret, err := rn.W.Update(context.Background(), l.ID, old, cp, proof)
					rc.end = clock.Add(1)
					rc.ret = ret
					rc.out = lin.Out{Kind: classify(err)}
				}
			}()
		}
		close(start)
		wg.Wait()
		// final reads
		for _, l := range u.Logs {
			cp, _ := rn.W.GetCheckpoint(l.ID)
			recs = append(recs, &rec{in: lin.In{Read: true, LogID: l.ID, Idx: len(recs), Desc: "final read"}, out: lin.Out{Kind: "read", Has: cp != nil}, ret: cp, call: clock.Add(1), end: clock.Add(1)})
		}
		var ops []porcupine.Operation
		for i, rc := range recs {
			rc.out.Cur = -2
			if rc.ret != nil {
				rc.out.Cur = -3
				for j, o := range recs {
					if !o.in.Read && o.out.Kind == "accepted" && bytes.Equal(o.ret, rc.ret) {
						rc.out.Cur = j
					}
				}
			}
			// stored size 0 then growth is out of the model's claim (known finding); sizes start at 1 here
			ops = append(ops, porcupine.Operation{ClientId: i, Input: rc.in, Call: rc.call, Output: rc.out, Return: rc.end})
			outcomes[rc.out.Kind]++
		}
		totalOps += len(ops)
		pairsMet += ds.met.Load()
		lin.MarkOverlaps(ops)
		switch lin.Check(lin.Model(map[string]lin.State{}), ops, 60*time.Second) {
		case "illegal":
			var desc []string
			for _, o := range ops {
				desc = append(desc, fmt.Sprintf("[%d,%d] %s -> %+v", o.Call, o.Return, o.Input.(lin.In).Desc, o.Output.(lin.Out)))
			}
			illegal = append(illegal, map[string]any{"history": h, "store": kind, "goroutines": G, "ops": desc})
		case "unknown":
			unknown++
		}
		st.Close()
	}
	res["Histories"], res["Operations"], res["Illegal"], res["Unknown"], res["Outcomes"] = nh, totalOps, illegal, unknown, outcomes
	res["PairsMet"] = pairsMet
	b, _ := json.Marshal(res)
	_ = os.WriteFile(os.Getenv("VERIF_STRESS_OUT"), b, 0o644)
}
