package main

import (
	"context"
	"fmt"
	"math/rand/v2"
	"strconv"

	"github.com/transparency-dev/witness/internal/config"
	"github.com/transparency-dev/witness/internal/feeder/bastion"
	"github.com/transparency-dev/witness/internal/verif/kit/ev"
	"github.com/transparency-dev/witness/internal/verif/kit/gen"
	"github.com/transparency-dev/witness/internal/verif/kit/refnote"
	"github.com/transparency-dev/witness/internal/verif/kit/reftree"
	"github.com/transparency-dev/witness/internal/verif/kit/wit"
	"github.com/transparency-dev/witness/omniwitness"
)

// rotated: the store was written in an earlier process life under ANOTHER witness key list (before the
// cosignature/v1 key was added, or before a key rotation); the service is restarted on it with the current
// keys and requests arrive through the add-checkpoint handler. Whatever the handler makes of a stored
// checkpoint it cannot verify with its current key, a request that is not answered 200 must leave the served
// state byte for byte what it was, and a 200 must be a valid cosignature over the submitted text.
// (The status of the refusals is not judged here: with an unverifiable stored checkpoint the pinned handler
// answers 500 where the protocol says 409/422, which C10's statement does not cover.)
func rotated(run *ev.Run, unit int64, r *rand.Rand, dir string) {
	u := gen.NewUniverse(r, gen.Opts{NLogs: 1 + r.IntN(2), MaxSize: 30, Branches: 2, Unique: true})
	for _, l := range u.Logs {
		l.ReplaceBranch(1, &reftree.Tree{Seed: l.Branches[0].Seed, TagA: 1, TagB: 3, Fork: 1})
	}
	st, err := wit.NewStore(wit.DrawStore(r), dir)
	if err != nil {
		run.Inconclusive(err.Error())
		return
	}
	defer st.Close()
	oldSchemes := [][]bool{{false}, {false, true}, {true}}[unit%3]
	oldKeys, _ := wit.NewWitKeys(r, oldSchemes, false)
	rn1, err := wit.NewRunner(u, oldKeys, st, nil)
	if err != nil {
		run.Inconclusive(err.Error())
		return
	}
	a, b := map[int]uint64{}, map[int]uint64{}
	for _, l := range u.Logs {
		a[l.Idx] = 1 + r.Uint64N(8)
		b[l.Idx] = a[l.Idx] + 1 + r.Uint64N(8)
		if _, err := rn1.W.Update(context.Background(), l.ID, 0, l.Honest(0, a[l.Idx]), nil); err != nil {
			run.Inconclusive("earlier life: " + err.Error())
			return
		}
		if _, err := rn1.W.Update(context.Background(), l.ID, a[l.Idx], l.Honest(0, b[l.Idx]), l.Branches[0].Consistency(a[l.Idx], b[l.Idx])); err != nil {
			run.Inconclusive("earlier life: " + err.Error())
			return
		}
	}
	keys, _ := wit.NewWitKeys(r, []bool{false, true}, true)
	rn, err := wit.NewRunner(u, keys, st, nil)
	if err != nil {
		run.Violate("rotated_keys_service_does_not_restart", "a witness with the current key list on the store an earlier key list wrote: "+err.Error(), unit, nil)
		return
	}
	var logs []config.Log
	for _, l := range u.Logs {
		cl, err := config.NewLog(l.Origin, l.Key.Vkey(), "http://unused.example/")
		if err != nil {
			run.Inconclusive(err.Error())
			return
		}
		logs = append(logs, cl)
	}
	e := &env{rn: rn, key: keys.Keys[1]}
	e.h = bastion.VerifNewHandler(omniwitness.VerifWitnessAdapter(rn.W), logs, keys.Signers[1].(interface{ Verifier() noteVerifier }).Verifier(), 1e9)
	run.Count("rotated_key_sessions")
	for _, l := range u.Logs {
		sa, sb := a[l.Idx], b[l.Idx]
		sc := sb + 1 + r.Uint64N(6)
		junk := [][]byte{make([]byte, 32)}
		junk[0][3] = 9
		type rq struct {
			what  string
			old   uint64
			cp    []byte
			proof [][]byte
		}
		text := refnote.Body(l.Origin, sc, l.Root(0, sc))
		var seed [32]byte
		seed[0] = byte(unit)
		imp := refnote.NewSignKey(l.Key.Name, seed)
		reqs := []rq{
			{"stale_old_size", sa, l.Honest(0, sc), l.Branches[0].Consistency(sa, sc)},
			{"old_size_too_large", sc + 5, l.Honest(0, sc), nil},
			{"same_size_other_root", sb, l.Honest(1, sb), nil},
			{"bad_proof", sb, l.Honest(0, sc), junk},
			{"forged", sb, refnote.Assemble(text, imp.SigLine(text)), l.Branches[0].Consistency(sb, sc)},
			{"first_use_shaped", 0, l.Honest(0, sa), nil},
		}
		r.Shuffle(len(reqs), func(i, j int) { reqs[i], reqs[j] = reqs[j], reqs[i] })
		reqs = append(reqs, rq{"honest_growth", sb, l.Honest(0, sc), l.Branches[0].Consistency(sb, sc)})
		for _, q := range reqs {
			before := rn.Snap()
			rec := e.post(body(strconv.FormatUint(q.old, 10), q.proof, q.cp))
			after := rn.Snap()
			run.Count("evaluations")
			run.Count("rotated_key_requests")
			run.Distinct("nontrivial", fmt.Sprintf("rotated/%v/%s/%d/%s", oldSchemes, q.what, rec.Code, st.Kind))
			d := map[string]any{"earlier_key_schemes_cosig_v1": oldSchemes, "request": q.what, "status": rec.Code, "resp_body": rec.Body.String(), "store": st.Kind, "log": l.Origin}
			switch rec.Code {
			case 200:
				if why := check200(e.key, l, q.cp, rec.Body.String(), after); why != "" {
					run.Violate("bad_200;rotated_keys;"+q.what, "200 but "+why, unit, d)
				}
				if q.what != "honest_growth" {
					run.Violate("refusable_request_accepted;rotated_keys;"+q.what, "a request that the update rules refuse was answered 200", unit, d)
				}
			case 400, 403, 404, 409, 422, 429, 500:
				if !after.Equal(before) {
					run.Violate("state_changed_on_non_200;rotated_keys;"+q.what, fmt.Sprintf("the store was written under an earlier witness key list; a %s request answered %d changed what the witness serves", q.what, rec.Code), unit, d)
				}
			default:
				run.Violate("undocumented_status;rotated_keys", fmt.Sprintf("endpoint answered %d", rec.Code), unit, d)
			}
		}
	}
}
