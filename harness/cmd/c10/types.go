package main

import "golang.org/x/mod/sumdb/note"

type noteVerifier = note.Verifier
