package main

import (
	"context"
	"crypto/ed25519"
	crand "crypto/rand"
	"crypto/tls"
	"encoding/json"
	"fmt"
	"io"
	"math/rand/v2"
	"net"
	"net/http"
	"os"
	"sort"
	"strconv"
	"strings"
	"sync"
	"time"

	"github.com/transparency-dev/witness/internal/persistence/inmemory"
	"github.com/transparency-dev/witness/internal/verif/kit/ev"
	"github.com/transparency-dev/witness/internal/verif/kit/gen"
	"github.com/transparency-dev/witness/internal/verif/kit/refwitness"
	"github.com/transparency-dev/witness/internal/verif/kit/stubs"
	"github.com/transparency-dev/witness/internal/verif/kit/wit"
	"github.com/transparency-dev/witness/omniwitness"
	"golang.org/x/mod/sumdb/note"
)

var (
	stubTLS *stubs.BastionTLS
	cfgMu   sync.Mutex // omniwitness.ConfigLogs is process-wide; Main reads it once at start
)

// setupTLS creates the stub bastion's certificate and makes this process trust it. It must
// run before the first TLS use of the process (the system root pool is loaded once).
func setupTLS(dir string) error {
	t, err := stubs.NewBastionTLS(dir)
	if err != nil {
		return err
	}
	os.Setenv("SSL_CERT_FILE", t.CAFile)
	os.Setenv("SSL_CERT_DIR", t.EmptyDir)
	stubTLS = t
	return nil
}

// e2e drives one omniwitness.Main through a stub bastion: TLS 1.3, ALPN bastion/0, client
// certificate, then HTTP/2 with the roles reversed (the stub is the HTTP/2 client).
func e2e(run *ev.Run, unit int64, r *rand.Rand, dir string) {
	// every fourth session pair runs with a real rate limit as FeedBastion itself builds it from the
	// operator configuration (0: nothing may ever be served; 2/s and 5/s: burst + refill)
	limit := 1e6
	switch unit % 4 {
	case 2:
		limit = 0
	case 3:
		limit = []float64{2, 5}[(unit/4)%2]
	}
	u := gen.NewUniverse(r, gen.Opts{NLogs: 1 + r.IntN(3), MaxSize: 30, Branches: 2 + r.IntN(2), ShareKeys: true, SameKeyNames: true})
	keys, _ := wit.NewWitKeys(r, []bool{false, true}, true)
	var y strings.Builder
	y.WriteString("Logs:\n")
	for _, l := range u.Logs {
		o, _ := json.Marshal(l.Origin)
		fmt.Fprintf(&y, "  - Origin: %s\n    URL: http://unused.invalid/\n    PublicKey: %s\n    Feeder: none\n", o, l.Key.Vkey())
	}
	bl, err := stubs.ListenBastion(stubTLS)
	if err != nil {
		run.Inconclusive(err.Error())
		return
	}
	defer bl.Close()
	api, err := net.Listen("tcp", "127.0.0.1:0")
	if err != nil {
		run.Inconclusive(err.Error())
		return
	}
	defer api.Close()
	_, bkey, _ := ed25519.GenerateKey(crand.Reader)
	ctx, cancel := context.WithCancel(context.Background())
	defer cancel()
	done := make(chan error, 1)
	cfgMu.Lock()
	saved := omniwitness.ConfigLogs
	omniwitness.ConfigLogs = []byte(y.String())
	go func() {
		done <- omniwitness.Main(ctx, omniwitness.OperatorConfig{
			WitnessKeys: keys.Signers, WitnessVerifier: keys.Signers[1].(interface{ Verifier() note.Verifier }).Verifier(),
			BastionAddr: bl.Addr(), BastionKey: bkey, BastionRateLimit: limit,
		}, inmemory.NewPersistence(), api, http.DefaultClient)
	}()
	apiURL := "http://" + api.Addr().String()
	hc := &http.Client{Timeout: 5 * time.Second}
	up := false
	for i := 0; i < 300 && !up; i++ {
		if resp, err := hc.Get(apiURL + "/witness/v0/logs"); err == nil {
			resp.Body.Close()
			up = resp.StatusCode == 200
		} else {
			time.Sleep(10 * time.Millisecond)
		}
	}
	omniwitness.ConfigLogs = saved
	cfgMu.Unlock()
	if !up {
		run.Inconclusive("Main did not start serving")
		return
	}
	// the backend connects on its 5 s reconnect ticker
	type accRes struct {
		k   *stubs.Backend
		err error
	}
	ach := make(chan accRes, 1)
	go func() { k, err := bl.Accept(60 * time.Second); ach <- accRes{k, err} }()
	var be *stubs.Backend
	select {
	case a := <-ach:
		if a.err != nil {
			if strings.Contains(a.err.Error(), "handshake") {
				run.Violate("e2e_handshake_failed", "TLS handshake with the stub bastion failed: "+a.err.Error(), unit, nil)
			} else {
				run.Inconclusive("stub bastion: " + a.err.Error())
			}
			return
		}
		be = a.k
	case err := <-done:
		run.Violate("e2e_main_exited", fmt.Sprintf("omniwitness.Main returned %v before connecting to the bastion", err), unit, nil)
		return
	}
	cs := be.State
	if cs.Version != tls.VersionTLS13 || cs.NegotiatedProtocol != "bastion/0" || len(cs.PeerCertificates) != 1 {
		run.Violate("e2e_connection_parameters", fmt.Sprintf("reverse connection: TLS version %x, ALPN %q, %d client certificates (want TLS 1.3, bastion/0, 1)", cs.Version, cs.NegotiatedProtocol, len(cs.PeerCertificates)), unit, nil)
		return
	}
	if !be.ClientKeyIs(bkey.Public().(ed25519.PublicKey)) {
		run.Violate("e2e_client_certificate_key", "the client certificate does not carry the configured bastion key", unit, nil)
		return
	}
	run.Count("e2e_sessions")
	post := func(b []byte) (int, string, string) {
		code, ct, rb, err := be.Post(b, 30*time.Second)
		if err != nil {
			return -1, "", "transport: " + err.Error()
		}
		return code, ct, rb
	}
	snap := func() *wit.Snapshot {
		s := &wit.Snapshot{CP: map[string][]byte{}, Err: map[string]string{}}
		if resp, err := hc.Get(apiURL + "/witness/v0/logs"); err == nil {
			b, _ := io.ReadAll(resp.Body)
			resp.Body.Close()
			_ = json.Unmarshal(b, &s.Logs)
			sort.Strings(s.Logs)
		}
		for _, l := range u.Logs {
			resp, err := hc.Get(apiURL + "/witness/v0/logs/" + l.ID + "/checkpoint")
			if err != nil {
				s.Err[l.ID] = err.Error()
				continue
			}
			b, _ := io.ReadAll(resp.Body)
			resp.Body.Close()
			if resp.StatusCode == 200 {
				s.CP[l.ID] = b
			} else {
				s.CP[l.ID] = nil
			}
		}
		return s
	}
	t := &target{u: u, key: keys.Keys[1], post: post, snap: snap, model: map[string]refwitness.LogState{}, sess: map[int]*gen.Session{}, kind: "mem", mode: "e2e"}
	for _, l := range u.Logs {
		t.sess[l.Idx] = &gen.Session{WitnessSigners: 2}
	}
	if limit == 1e6 {
		drive(run, unit, r, t, 60)
	} else {
		e2eBurst(run, unit, r, t, limit)
	}
	// the stub closes its side first (while a bastion connection is up, cancelling the context does not end Main)
	be.Close()
	cancel()
	select {
	case <-done:
	case <-time.After(40 * time.Second):
		run.Inconclusive("watchdog: Main did not return after the bastion connection was closed and its context cancelled")
	}
}

// e2eBurst sends 40 requests back to back through the reverse connection of a service configured with a
// small rate limit. Sound bound: processed <= burst(int(limit)) + limit*elapsed + 1, elapsed measured from
// before the first request to after the last answer; a 429 must leave the served state unchanged.
func e2eBurst(run *ev.Run, unit int64, r *rand.Rand, t *target, limit float64) {
	l := t.u.Logs[0]
	start := time.Now()
	processed, limited := 0, 0
	cur := uint64(0)
	for i := 0; i < 40; i++ {
		before := t.snap()
		nx := cur + uint64(r.IntN(2))
		if cur == 0 {
			nx = 1 + uint64(r.IntN(2))
		}
		b := body(strconv.FormatUint(cur, 10), l.Branches[0].Consistency(cur, nx), l.Honest(0, nx))
		if r.IntN(5) == 0 {
			b = []byte("garbage")
		}
		code, _, rb := t.post(b)
		run.Count("evaluations")
		run.Count("e2e_limited_requests")
		switch {
		case code == 429:
			limited++
			run.Count("expect:429")
			if !t.snap().Equal(before) || rb != "" {
				run.Violate("e2e_429_but_processed", "a request answered 429 changed the served state or carried a body", unit, map[string]any{"limit": limit})
			}
		case code < 0:
			run.Inconclusive("e2e burst: " + rb)
			return
		default:
			processed++
			if code == 200 {
				cur = nx
			}
		}
	}
	el := time.Since(start).Seconds()
	run.Distinct("nontrivial", fmt.Sprintf("e2e_limit/%v/processed=%v", limit, processed > 0))
	d := map[string]any{"limit": limit, "processed": processed, "limited": limited, "elapsed_s": el}
	if limit == 0 {
		if processed != 0 {
			run.Violate("e2e_limit0_processed", fmt.Sprintf("configured rate 0: %d of 40 requests were processed instead of answered 429", processed), unit, d)
		}
	} else if float64(processed) > float64(int(limit))+limit*el+1 {
		run.Violate("e2e_limit_exceeded", fmt.Sprintf("configured rate %v/s: %d of 40 requests processed in %.3fs", limit, processed, el), unit, d)
	}
	run.Sample(d)
}
