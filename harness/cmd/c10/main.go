// C10: the bastion add-checkpoint endpoint speaks the tlog-witness protocol.
//
// The real handler (built exactly as FeedBastion builds it) sits on the real
// witness through the real adapter omniwitness.Main uses; requests go through
// ServeHTTP. The reference model predicts the verdict class from the witness
// state reached by the previous requests through the same endpoint.
package main

import (
	"bytes"
	"context"
	"encoding/base64"
	"fmt"
	"math/rand/v2"
	"net/http"
	"net/http/httptest"
	"strconv"
	"strings"
	"sync"
	"sync/atomic"
	"time"

	"github.com/transparency-dev/witness/internal/config"
	"github.com/transparency-dev/witness/internal/feeder"
	"github.com/transparency-dev/witness/internal/feeder/bastion"
	"github.com/transparency-dev/witness/internal/verif/kit/ev"
	"github.com/transparency-dev/witness/internal/verif/kit/gen"
	"github.com/transparency-dev/witness/internal/verif/kit/refnote"
	"github.com/transparency-dev/witness/internal/verif/kit/refwitness"
	"github.com/transparency-dev/witness/internal/verif/kit/wit"
	"github.com/transparency-dev/witness/omniwitness"
	"golang.org/x/time/rate"
)

// countingWitness counts calls that reach the witness behind the handler.
type countingWitness struct {
	inner   feeder.Witness
	updates atomic.Int64
}

func (c *countingWitness) GetLatestCheckpoint(ctx context.Context, id string) ([]byte, error) {
	return c.inner.GetLatestCheckpoint(ctx, id)
}
func (c *countingWitness) Update(ctx context.Context, id string, old uint64, cp []byte, p [][]byte) ([]byte, error) {
	c.updates.Add(1)
	return c.inner.Update(ctx, id, old, cp, p)
}

type env struct {
	rn  *wit.Runner
	cw  *countingWitness
	h   http.Handler
	key refnote.Key // the witness's published (cosignature/v1) key
}

func newEnv(r *rand.Rand, dir string, limit rate.Limit, nlogs int) (*env, error) {
	u := gen.NewUniverse(r, gen.Opts{NLogs: nlogs, MaxSize: 30, Branches: 2 + r.IntN(2), ShareKeys: true, SameKeyNames: true})
	st, err := wit.NewStore(wit.DrawStore(r), dir)
	if err != nil {
		return nil, err
	}
	keys, err := wit.NewWitKeys(r, []bool{false, true}, true) // production pair
	if err != nil {
		return nil, err
	}
	rn, err := wit.NewRunner(u, keys, st, nil)
	if err != nil {
		return nil, err
	}
	var logs []config.Log
	for _, l := range u.Logs {
		cl, err := config.NewLog(l.Origin, l.Key.Vkey(), "http://unused.example/")
		if err != nil {
			return nil, err
		}
		logs = append(logs, cl)
	}
	cw := &countingWitness{inner: omniwitness.VerifWitnessAdapter(rn.W)}
	h := bastion.VerifNewHandler(cw, logs, keys.Signers[1].(interface{ Verifier() noteVerifier }).Verifier(), limit)
	return &env{rn: rn, cw: cw, h: h, key: keys.Keys[1]}, nil
}

func body(old string, proof [][]byte, cp []byte) []byte {
	var b bytes.Buffer
	b.WriteString("old " + old + "\n")
	for _, h := range proof {
		b.WriteString(base64.StdEncoding.EncodeToString(h) + "\n")
	}
	b.WriteString("\n")
	b.Write(cp)
	return b.Bytes()
}

func (e *env) post(b []byte) *httptest.ResponseRecorder {
	rec := httptest.NewRecorder()
	req := httptest.NewRequest(http.MethodPost, "/", bytes.NewReader(b))
	e.h.ServeHTTP(rec, req)
	return rec
}

func main() {
	wit.EnsureMetrics(nil) // before anything can reach witness.New (the e2e sessions start in their own goroutine)
	run := ev.Start("C10", "exploration")
	defer run.Finish()
	run.Rule("unit = one witness (1-3 logs, production key pair, drawn store) driven only through the add-checkpoint handler by 10-40 requests: bodies written by an independent writer for every verdict class (generated hostile requests as in C01) plus malformed bodies (bad old line, bad base64, missing separator, checkpoint without newline, empty); status/content-type/body/state are judged against the reference model. The same request classes are sent end to end: omniwitness.Main connects to a stub bastion (TLS 1.3, ALPN bastion/0, client certificate carrying the configured key), the stub then speaks HTTP/2 as the client over the accepted connection, 60 requests per session incl. bodies over the 16 KiB cap. Separate units judge the rate limiter (limit 0, 1e9, and bursts at 2/s and 5/s judged by inequalities on measured elapsed time). evaluations = HTTP requests; nontrivial = distinct (expected status, model class, stored?, malformed form, store)")
	run.Assume("end-to-end sessions observe the witness state through the service's own HTTP read API", "fractional rate limits are not judged")
	for _, s := range []string{"200", "400_malformed", "400_old_too_large", "403", "404", "409_stale", "409_root_mismatch", "422", "429"} {
		run.Floor("expect:"+s, 100)
	}
	dir := run.Scratch()
	if err := setupTLS(dir); err != nil {
		run.Inconclusive("cannot create the stub bastion certificate: " + err.Error())
		return
	}
	run.Floor("e2e_sessions", 1)
	var e2eDone sync.WaitGroup
	e2eDone.Add(1)
	go func() { // end-to-end sessions run beside the in-process units (each waits ~5 s for the backend's reconnect ticker)
		defer e2eDone.Done()
		run.Units("e2e", run.Pick(4, 32), 8, func(unit int64, r *rand.Rand) { e2e(run, unit, r, dir) })
	}()
	defer e2eDone.Wait()
	run.Units("seq", run.Pick(1200, 30000), 0, func(unit int64, r *rand.Rand) { sequence(run, unit, r, dir) })
	// sizes at the top of the uint64 range: the stale-old-size answer must carry the true current size
	run.Floor("huge_size_stale_answers", 30)
	run.Floor("in_rate_requests_after_a_refused_burst", 8)
	run.Units("huge", run.Pick(36, 360), 0, func(unit int64, r *rand.Rand) { hugeSizes(run, unit, r, dir) })
	run.Units("limit", run.Pick(24, 200), 8, func(unit int64, r *rand.Rand) { limiter(run, unit, r, dir) })
	// a store written under an earlier witness key list, the service restarted on it with the current keys
	run.Floor("rotated_key_requests", 200)
	run.Units("rotated", run.Pick(30, 300), 0, func(unit int64, r *rand.Rand) { rotated(run, unit, r, dir) })
}

// target is what a request sequence is driven against: the in-process handler or the
// end-to-end path through a stub bastion.
type target struct {
	u       *gen.Universe
	key     refnote.Key
	post    func(b []byte) (int, string, string)
	snap    func() *wit.Snapshot
	updates func() int64 // witness invocations so far (nil: not observable)
	model   map[string]refwitness.LogState
	sess    map[int]*gen.Session
	kind    string
	mode    string
}

func sequence(run *ev.Run, unit int64, r *rand.Rand, dir string) {
	e, err := newEnv(r, dir, 1e9, 1+r.IntN(3))
	if err != nil {
		run.Inconclusive(err.Error())
		return
	}
	defer e.rn.Store.Close()
	t := &target{u: e.rn.U, key: e.key, snap: e.rn.Snap, updates: e.cw.updates.Load, model: e.rn.Model, sess: e.rn.Sess, kind: e.rn.Store.Kind, mode: "inproc",
		post: func(b []byte) (int, string, string) {
			rec := e.post(b)
			return rec.Code, rec.Header().Get("Content-Type"), rec.Body.String()
		}}
	drive(run, unit, r, t, 10+r.IntN(31))
}

// drive sends n generated requests to the target and judges every response.
func drive(run *ev.Run, unit int64, r *rand.Rand, t *target, n int) {
	u := t.u
	var trace []string
	snap := t.snap()
	for i := 0; i < n; i++ {
		l := u.Logs[r.IntN(len(u.Logs))]
		v := wit.ViewOf(l, snap)
		q := u.Next(r, l, v, t.sess[l.Idx])
		malformed := ""
		old := strconv.FormatUint(q.OldSize, 10)
		b := body(old, q.Proof, q.CP)
		switch x := r.IntN(40); x {
		case 0:
			malformed = "old_line"
			b = body([]string{"5abc", "", "-1", "18446744073709551616", "0x10", "1 2"}[r.IntN(6)], q.Proof, q.CP)
			if r.IntN(2) == 0 {
				b = append([]byte("size 5\n\n"), q.CP...)
			}
		case 1:
			malformed = "bad_base64"
			b = []byte("old " + old + "\n!!notbase64!!\n\n" + string(q.CP))
		case 2:
			malformed = "no_separator"
			b = bytes.Replace(b, []byte("\n\n"), []byte("\n"), 1)
			if bytes.Contains(b, []byte("\n\n")) { // the checkpoint's own blank line would act as separator
				b = []byte("old " + old + "\n")
			}
		case 3:
			malformed = "cp_without_newline"
			b = body(old, q.Proof, []byte("no newline at all"))
		case 4:
			malformed = "empty_body"
			b = nil
		case 5:
			malformed = "empty_checkpoint"
			b = body(old, q.Proof, nil)
		}
		// reference side: which log does the body name, and what does the model say?
		var target *gen.Log
		first, _, hasNL := strings.Cut(string(q.CP), "\n")
		for _, lg := range u.Logs {
			if hasNL && lg.Origin == first {
				target = lg
			}
		}
		expect, class := "", ""
		judgeStatus := true
		var pre refwitness.LogState
		switch {
		case malformed != "":
			expect = "400_malformed"
		case !hasNL:
			expect = "400_malformed"
		case target == nil:
			expect = "404"
		default:
			auth, bodyCP := target.Judge(q.CP)
			pre = t.model[target.ID]
			mr := refwitness.Req{Known: true, Authentic: auth, OldSize: q.OldSize, Proof: q.Proof}
			if bodyCP != nil {
				mr.Size, mr.Root = bodyCP.Size, bodyCP.Root
			}
			c, _ := refwitness.Step(pre, mr)
			class = c.String()
			if refwitness.OutOfClaim(pre, mr) || q.Ambiguous || (auth && (q.CPKind == "mutated" || q.CPKind == "garbage")) {
				judgeStatus = false
			}
			switch c {
			case refwitness.BadSignature:
				expect = "403"
			case refwitness.AcceptFirst, refwitness.Accept:
				expect = "200"
			case refwitness.OldTooLarge:
				expect = "400_old_too_large"
			case refwitness.Stale:
				expect = "409_stale"
			case refwitness.RootMismatch:
				expect = "409_root_mismatch"
			case refwitness.BadProof:
				expect = "422"
			}
		}
		var calls int64
		if t.updates != nil {
			calls = t.updates()
		}
		if t.mode == "e2e" && i%11 == 5 {
			// over the 16 KiB cap of the reverse connection: must be refused as malformed
			b = append(b, bytes.Repeat([]byte("A"), 17*1024)...)
			malformed, expect, judgeStatus = "over_16KiB", "400_malformed", true
		}
		code, ctype, respBody := t.post(b)
		after := t.snap()
		run.Count("evaluations")
		if judgeStatus {
			run.Count("expect:" + expect)
		}
		trace = append(trace, fmt.Sprintf("%d: %s malformed=%q -> expect %s got %d", i, q, malformed, expect, code))
		stored := "stored"
		if !pre.Has {
			stored = "nothing"
		}
		run.Distinct("nontrivial", fmt.Sprintf("%s/%s/%s/%s/%s", expect, class, stored, malformed, t.kind+"/"+t.mode))
		detail := map[string]any{"trace": trace, "body": string(b), "status": code, "content_type": ctype, "resp_body": respBody, "expect": expect, "class": class, "store": t.kind + "/" + t.mode}
		wantCode, _ := strconv.Atoi(expect[:3])
		key := func(k string) string {
			return fmt.Sprintf("%s;expect=%s;got=%d;stored=%s", k, expect, code, stored)
		}
		if judgeStatus && code != wantCode {
			run.Violate(key("wrong_status"), fmt.Sprintf("expected %s for class %q, endpoint answered %d", expect, class, code), unit, detail)
		}
		switch code {
		case 200, 400, 403, 404, 409, 422, 429, 500:
		default:
			run.Violate(key("undocumented_status"), fmt.Sprintf("endpoint answered %d", code), unit, detail)
		}
		if code != 200 && !after.Equal(snap) {
			run.Violate(key("state_changed_on_non_200"), fmt.Sprintf("status %d but the witness state changed", code), unit, detail)
		}
		if code == 200 {
			why := check200(t.key, target, q.CP, respBody, after)
			if why != "" {
				run.Violate("bad_200;"+strings.SplitN(why, ":", 2)[0], "200 but "+why, unit, detail)
			}
		}
		if code == 409 && judgeStatus && expect == "409_stale" {
			cur := wit.ViewOf(target, after)
			want := fmt.Sprintf("%d\n", cur.Size)
			if ct := ctype; ct != "text/x.tlog.size" || respBody != want {
				run.Violate("stale_409_body", fmt.Sprintf("409 for a stale old size must carry text/x.tlog.size and %q; got %q %q", want, ct, respBody), unit, detail)
			}
		}
		if t.updates != nil && t.updates() != calls && (expect == "400_malformed" || expect == "404") {
			run.Violate("witness_invoked_for_unroutable_body", "a malformed/unknown-origin body reached Witness.Update", unit, detail)
		}
		if target != nil {
			vw := wit.ViewOf(target, after)
			t.model[target.ID] = refwitness.LogState{Has: vw.Has, Size: vw.Size, Root: vw.Root}
			if code == 200 {
				t.sess[target.Idx].LastProof = q.Proof
			}
		}
		snap = after
		if unit == 0 && i < 3 || t.mode == "e2e" && i < 2 {
			run.Sample(map[string]any{"mode": t.mode, "body": string(b[:min(len(b), 220)]), "expect": expect, "status": code, "resp": respBody})
		}
	}
}

// check200 verifies the 200 clauses: body = cosignature line(s) verifying under the
// witness's published key over the submitted text; the witness now holds that checkpoint.
func check200(key refnote.Key, target *gen.Log, cp []byte, bs string, after *wit.Snapshot) string {
	if target == nil {
		return "no_target: 200 for an origin that is not configured"
	}
	sub, err := refnote.Parse(cp)
	if err != nil {
		return "unparsable_submission: accepted a submission the reference reader cannot parse"
	}
	if bs == "" || !strings.HasSuffix(bs, "\n") {
		return "body_shape: body is empty or unterminated"
	}
	for _, line := range strings.Split(strings.TrimSuffix(bs, "\n"), "\n") {
		n, err := refnote.Parse(refnote.Assemble(sub.Text, line))
		if err != nil || len(n.Sigs) != 1 {
			return fmt.Sprintf("body_line_malformed: %q", line)
		}
		if ok, _ := key.Verify(sub.Text, n.Sigs[0]); !ok {
			return fmt.Sprintf("body_line_does_not_verify: %q does not verify under the witness key over the submitted text", line)
		}
	}
	stored := after.CP[target.ID]
	sn, err := refnote.Parse(stored)
	if err != nil || sn.Text != sub.Text {
		return "not_stored: the witness does not hold the accepted checkpoint afterwards"
	}
	return ""
}

func limiter(run *ev.Run, unit int64, r *rand.Rand, dir string) {
	mode := unit % 4
	limit := rate.Limit(0)
	switch mode {
	case 1:
		limit = 1e9
	case 2:
		limit = 2
	case 3:
		limit = 5
	}
	e, err := newEnv(r, dir, limit, 1)
	if err != nil {
		run.Inconclusive(err.Error())
		return
	}
	defer e.rn.Store.Close()
	l := e.rn.U.Logs[0]
	start := time.Now()
	processed, limited := 0, 0
	cur := uint64(0)
	for i := 0; i < 40; i++ {
		snap := e.rn.Snap()
		calls := e.cw.updates.Load()
		nx := cur + uint64(r.IntN(2))
		b := body(strconv.FormatUint(cur, 10), l.Branches[0].Consistency(cur, nx), l.Honest(0, nx))
		if r.IntN(5) == 0 {
			b = []byte("garbage") // rate limiting applies before parsing
		}
		rec := e.post(b)
		run.Count("evaluations")
		if rec.Code == 429 {
			limited++
			run.Count("expect:429")
			if e.cw.updates.Load() != calls || !e.rn.Snap().Equal(snap) || rec.Body.Len() != 0 {
				run.Violate("429_but_processed", "a request answered 429 reached the witness or changed state", unit, map[string]any{"limit": float64(limit)})
			}
		} else {
			processed++
			if rec.Code == 200 {
				cur = nx
			}
		}
	}
	el := time.Since(start).Seconds()
	if mode >= 2 {
		// refused requests must not be charged to the budget: 1.2 s after the burst (2.4 and 6 tokens refilled,
		// at most 2 resp. 5 kept) one more request is well within the configured rate and must be processed
		time.Sleep(1200 * time.Millisecond)
		rec := e.post(body(strconv.FormatUint(cur, 10), nil, l.Honest(0, cur)))
		run.Count("evaluations")
		run.Count("in_rate_requests_after_a_refused_burst")
		if rec.Code == 429 {
			run.Violate("limited_although_within_rate;after_refused_burst", fmt.Sprintf("limit %v/s: %d requests of a burst were refused; a single request 1.2 s later was answered 429 although it is within the configured rate", float64(limit), limited), unit, map[string]any{"limit": float64(limit), "limited_in_burst": limited})
		}
	}
	run.Distinct("nontrivial", fmt.Sprintf("limit/%v/%d", float64(limit), processed))
	d := map[string]any{"limit": float64(limit), "processed": processed, "limited": limited, "elapsed_s": el}
	switch mode {
	case 0:
		if processed != 0 {
			run.Violate("limit0_processed", "limit 0 must answer every request 429", unit, d)
		}
	case 1:
		if limited != 0 {
			run.Violate("limit_huge_limited", "limit 1e9 must not answer 429", unit, d)
		}
	default:
		if float64(processed) > float64(limit)+float64(limit)*el+1 {
			run.Violate("limit_exceeded", fmt.Sprintf("limit %v/s: %d of 40 requests processed in %.3fs", float64(limit), processed, el), unit, d)
		}
		if processed == 0 {
			run.Violate("limit_starved", fmt.Sprintf("limit %v/s: no request of a burst of 40 was processed", float64(limit)), unit, d)
		}
	}
	if unit < 4 {
		run.Sample(d)
	}
}

// hugeSizes: the witness takes a first checkpoint whose size is near the top of the range (any root is
// acceptable on first use); then a stale old size, an old size above the checkpoint size and a same-size
// different root are answered. The 409 stale body must be the decimal true size.
func hugeSizes(run *ev.Run, unit int64, r *rand.Rand, dir string) {
	e, err := newEnv(r, dir, 1e9, 1)
	if err != nil {
		run.Inconclusive(err.Error())
		return
	}
	defer e.rn.Store.Close()
	l := e.rn.U.Logs[0]
	sizes := []uint64{1 << 32, 1 << 62, 1<<63 - 1, 1 << 63, 1<<63 + 5, 1<<64 - 2, 1<<64 - 1, 1<<63 + r.Uint64N(1<<62), r.Uint64() | 1<<63}
	size := sizes[int(unit)%len(sizes)]
	mk := func(sz uint64, seed byte) []byte {
		root := make([]byte, 32)
		for i := range root {
			root[i] = seed + byte(i)
		}
		text := refnote.Body(l.Origin, sz, root)
		return refnote.Assemble(text, l.Key.SigLine(text))
	}
	cp := mk(size, 1)
	rec := e.post(body("0", nil, cp))
	run.Count("evaluations")
	detail := map[string]any{"size": size, "first_status": rec.Code, "first_body": rec.Body.String()}
	if rec.Code != 200 {
		run.Violate("huge_first_checkpoint_refused", fmt.Sprintf("first checkpoint of size %d (valid log signature): status %d", size, rec.Code), unit, detail)
		return
	}
	olds := []uint64{0, 5, size - 1, size / 2}
	for _, old := range olds {
		if old >= size {
			continue
		}
		rec := e.post(body(strconv.FormatUint(old, 10), nil, cp))
		run.Count("evaluations")
		run.Count("huge_size_stale_answers")
		run.Distinct("nontrivial", fmt.Sprintf("huge/top_bit=%v/old=%d", size>>63 == 1, min(old, 6)))
		want := strconv.FormatUint(size, 10) + "\n"
		if rec.Code != 409 || rec.Header().Get("Content-Type") != "text/x.tlog.size" || rec.Body.String() != want {
			d := map[string]any{"size": size, "old": old, "status": rec.Code, "content_type": rec.Header().Get("Content-Type"), "resp_body": rec.Body.String(), "want_body": want}
			run.Violate("stale_409_body;huge_size", fmt.Sprintf("witness holds size %d, old size %d: want 409 text/x.tlog.size %q, got %d %q %q", size, old, want, rec.Code, rec.Header().Get("Content-Type"), rec.Body.String()), unit, d)
		}
	}
	if size < 1<<64-1 {
		rec := e.post(body(strconv.FormatUint(size+1, 10), nil, cp))
		run.Count("evaluations")
		if rec.Code != 400 {
			run.Violate("wrong_status;expect=400_old_too_large;huge_size", fmt.Sprintf("old size %d above checkpoint size %d: status %d", size+1, size, rec.Code), unit, detail)
		}
	}
	rec = e.post(body(strconv.FormatUint(size, 10), nil, mk(size, 77)))
	run.Count("evaluations")
	if rec.Code != 409 {
		run.Violate("wrong_status;expect=409_root_mismatch;huge_size", fmt.Sprintf("same size %d, different root: status %d", size, rec.Code), unit, detail)
	}
}
