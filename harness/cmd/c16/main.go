// C16: the read API serves exactly the stored state.
package main

import (
	"bytes"
	"context"
	"encoding/json"
	"errors"
	"fmt"
	"github.com/transparency-dev/witness/internal/persistence"
	"github.com/transparency-dev/witness/internal/verif/kit/seams"
	"io"
	"math/rand/v2"
	"net/http"
	"net/http/httptest"
	"net/url"
	"os"
	"sort"
	"strings"
	"sync"
	"time"

	"github.com/gorilla/mux"
	whttp "github.com/transparency-dev/witness/client/http"
	ihttp "github.com/transparency-dev/witness/internal/http"
	"github.com/transparency-dev/witness/internal/verif/kit/asmunits"
	"github.com/transparency-dev/witness/internal/verif/kit/ev"
	"github.com/transparency-dev/witness/internal/verif/kit/gen"
	"github.com/transparency-dev/witness/internal/verif/kit/refnote"
	"github.com/transparency-dev/witness/internal/verif/kit/wit"
)

type inmem struct{ h http.Handler }

func (t inmem) RoundTrip(q *http.Request) (*http.Response, error) {
	rec := httptest.NewRecorder()
	t.h.ServeHTTP(rec, q)
	resp := rec.Result()
	resp.Request = q
	return resp, nil
}

var oddIDs = []string{"abc_def", "abc.def", "abc%20def", "abc~", "log%C3%BCid", "0123+4567", "a,b", "a=b", "a@b", "%00", "a%5Cb", "deadbeef;x", "a:b", "%E6%97%A5"}

func main() {
	run := ev.Start("C16", "exploration")
	defer run.Finish()
	run.Rule("unit = one generated hostile history over 1-4 logs (IDs from the repository's origin-to-ID function, all stores); after every request, for every configured ID: GET through the real gorilla router vs Witness.GetCheckpoint (200 + exact bytes, or 404), the bundled client/http result (bytes or os.ErrNotExist), and the decoded log list vs the set of IDs for which an update has been accepted; plus unknown hex IDs and syntactically odd IDs (must be 404 and never carry a stored checkpoint). evaluations = HTTP GETs judged; nontrivial = distinct (kind of GET, status, stored?, store, logs listed)")
	run.Assume("in-memory round-tripper instead of a socket; IDs are hex digests as the route pattern admits")
	run.Floor("get_200", 5000)
	run.Floor("get_404_known_id_nothing_stored", 500)
	run.Floor("get_unknown_or_odd", 2000)
	run.Floor("loglist_checks", 5000)
	run.Floor("requests_with_storage_fault", 100)
	run.Floor("reads_with_storage_fault", 200)
	run.Floor("refused_first_submission_then_list", 300)
	dir := run.Scratch()
	// reads of different logs that overlap in time: each is answered with its own log's bytes
	run.Floor("overlapping_reads_of_two_logs", 40)
	// the read API of the assembled service (Main's own router and listener, the bundled client against it)
	run.Floor("assembled_gets", 300)
	run.Units("asm_reads", run.Pick(40, 400), 8, func(unit int64, r *rand.Rand) { asmunits.Reads(run, unit, r) })
	run.Units("cross", run.Pick(48, 480), 16, func(unit int64, r *rand.Rand) { crossLogReads(run, unit, r, dir) })
	run.Units("hist", run.Pick(800, 20000), 0, func(unit int64, r *rand.Rand) {
		var router *mux.Router
		var client whttp.Witness
		accepted := map[string]bool{}
		lastRet := map[string][]byte{} // what the last accepted update of each log returned
		o := wit.HistOpts{Gen: gen.Opts{NLogs: 1 + r.IntN(4), MaxSize: 30, Branches: 2, ShareKeys: true}, MinSteps: 8, MaxSteps: 30, Dir: dir}
		if unit%3 == 2 {
			// storage faults up to the SQL driver (failing COMMIT, Close, row fetch...): what an update that
			// reported success returned must still be what is served
			o.FaultProb, o.DriverFaults = 0.06, true
		}
		h, err := wit.RunHistory(r, o, func(h *wit.Hist, s *wit.Step, i int) {
			if router == nil {
				router = mux.NewRouter()
				ihttp.NewServer(h.Rn.W).RegisterHandlers(router)
				base, _ := url.Parse("http://witness.invalid/")
				client = whttp.NewWitness(base, &http.Client{Transport: inmem{router}})
			}
			if h.FaultFired != "" {
				run.Count("requests_with_storage_fault")
			}
			if s.Err == nil {
				accepted[s.Req.LogID] = true
				lastRet[s.Req.LogID] = s.Ret
			}
			u := h.Rn.U
			detail := func(extra map[string]any) map[string]any {
				extra["trace"], extra["store"] = h.Trace, h.Kind
				return extra
			}
			get := func(id string) *httptest.ResponseRecorder {
				rec := httptest.NewRecorder()
				router.ServeHTTP(rec, httptest.NewRequest(http.MethodGet, "/witness/v0/logs/"+id+"/checkpoint", nil))
				run.Count("evaluations")
				return rec
			}
			var stored [][]byte
			for _, l := range u.Logs {
				if cp := s.After.CP[l.ID]; cp != nil {
					stored = append(stored, cp)
				}
			}
			for _, l := range u.Logs {
				want := s.After.CP[l.ID]
				// the witness's own read is not the ground truth (it could be served from the same cache as the API):
				// ground truth is what the last accepted update returned and what the store holds
				if lr, ok := lastRet[l.ID]; ok && !bytes.Equal(lr, want) {
					run.Violate("in_process_read_differs_from_last_accepted", "GetCheckpoint does not return the bytes the last accepted update returned", unit, detail(map[string]any{"last_accepted": string(lr), "read": string(want)}))
					want = lr
				}
				if ro, err := h.Rn.Store.P.ReadOps(l.ID); err == nil {
					if direct, derr := ro.GetLatest(); derr == nil && !bytes.Equal(direct, want) {
						run.Violate("stored_bytes_differ_from_served", "the store holds other bytes than the witness serves", unit, detail(map[string]any{"stored": string(direct), "served": string(want)}))
					}
				}
				rec := get(l.ID)
				cb, cerr := client.GetLatestCheckpoint(context.Background(), l.ID)
				run.Count("evaluations")
				if want != nil {
					run.Count("get_200")
					if rec.Code != 200 || !bytes.Equal(rec.Body.Bytes(), want) {
						run.Violate(fmt.Sprintf("get_stored_wrong;status=%d", rec.Code), fmt.Sprintf("GET of a stored checkpoint: status %d, bytes equal=%v", rec.Code, bytes.Equal(rec.Body.Bytes(), want)), unit, detail(map[string]any{"want": string(want), "got": rec.Body.String()}))
					}
					if cerr != nil || !bytes.Equal(cb, want) {
						run.Violate("client_stored_wrong", fmt.Sprintf("client/http for a stored checkpoint: err=%v bytes equal=%v", cerr, bytes.Equal(cb, want)), unit, detail(map[string]any{"want": string(want)}))
					}
				} else {
					run.Count("get_404_known_id_nothing_stored")
					if rec.Code != 404 {
						run.Violate(fmt.Sprintf("get_nothing_stored_not_404;status=%d", rec.Code), fmt.Sprintf("GET while the witness holds nothing for the log: status %d", rec.Code), unit, detail(map[string]any{"body": rec.Body.String()}))
					}
					if !errors.Is(cerr, os.ErrNotExist) {
						run.Violate("client_nothing_stored_not_errnotexist", fmt.Sprintf("client/http while nothing is stored: err=%v, %d bytes", cerr, len(cb)), unit, detail(map[string]any{}))
					}
				}
				run.Distinct("nontrivial", fmt.Sprintf("known/%d/%v/%s/%d", rec.Code, want != nil, h.Kind, len(s.After.Logs)))
			}
			// a read that fails in storage is not "nothing stored": while a checkpoint is held for the log
			// the API may answer 5xx (or the exact bytes), never 404 / os.ErrNotExist, never other bytes
			if unit%3 == 2 && i%2 == 1 {
				fl := u.Logs[r.IntN(len(u.Logs))]
				if want := lastRet[fl.ID]; want != nil {
					var rec *httptest.ResponseRecorder
					viaClient := r.IntN(2) == 0
					var cb []byte
					var cerr error
					fired := h.ReadFault(r, func() {
						if viaClient {
							cb, cerr = client.GetLatestCheckpoint(context.Background(), fl.ID)
						} else {
							rec = get(fl.ID)
						}
					})
					if fired != "" {
						run.Count("reads_with_storage_fault")
						run.Distinct("nontrivial", fmt.Sprintf("read_fault/%s/%s", fired, h.Kind))
						d := detail(map[string]any{"fault": fired, "stored": string(want)})
						if viaClient {
							if errors.Is(cerr, os.ErrNotExist) || (cerr == nil && !bytes.Equal(cb, want)) {
								run.Violate("read_fault_reported_as_nothing_stored;client;"+fired, fmt.Sprintf("the store failed a read (%s) for a log with a stored checkpoint; the bundled client returned err=%v and %d bytes", fired, cerr, len(cb)), unit, d)
							}
						} else if rec.Code == 404 || (rec.Code == 200 && !bytes.Equal(rec.Body.Bytes(), want)) {
							d["body"] = rec.Body.String()
							run.Violate("read_fault_reported_as_nothing_stored;get;"+fired, fmt.Sprintf("the store failed a read (%s) for a log with a stored checkpoint; GET answered %d", fired, rec.Code), unit, d)
						}
					}
				}
			}
			// unknown and odd IDs
			kl := u.Logs[r.IntN(len(u.Logs))]
			mixed := []byte(kl.ID)
			for k := range mixed {
				if r.IntN(2) == 0 {
					mixed[k] = strings.ToUpper(string(mixed[k]))[0]
				}
			}
			ids := []string{fmt.Sprintf("%064x", r.Uint64()), refnote.LogID("never configured"), u.Logs[0].ID[:len(u.Logs[0].ID)-1], u.Logs[0].ID + "0", oddIDs[r.IntN(len(oddIDs))], oddIDs[r.IntN(len(oddIDs))]}
			// other spellings of a known ID are other IDs
			for _, v := range []string{strings.ToUpper(kl.ID), string(mixed), "0" + kl.ID, kl.ID + "-", "-" + kl.ID} {
				if v != kl.ID {
					ids = append(ids, v)
				}
			}
			for _, id := range ids {
				rec := get(id)
				run.Count("get_unknown_or_odd")
				leak := false
				for _, cp := range stored {
					if bytes.Equal(cp, rec.Body.Bytes()) {
						leak = true
					}
				}
				if rec.Code != 404 || leak {
					run.Violate(fmt.Sprintf("unknown_id_not_404;status=%d;leak=%v", rec.Code, leak), fmt.Sprintf("GET for ID %q: status %d, body is a stored checkpoint=%v", id, rec.Code, leak), unit, detail(map[string]any{"id": id, "body": rec.Body.String()}))
				}
				run.Distinct("nontrivial", fmt.Sprintf("unknown/%d/%v", rec.Code, len(id) == 64))
			}
			// log list
			lr := httptest.NewRecorder()
			router.ServeHTTP(lr, httptest.NewRequest(http.MethodGet, "/witness/v0/logs", nil))
			run.Count("evaluations")
			run.Count("loglist_checks")
			var got []string
			body, _ := io.ReadAll(lr.Body)
			jerr := json.Unmarshal(body, &got)
			sort.Strings(got)
			var want []string
			for id := range accepted {
				want = append(want, id)
			}
			sort.Strings(want)
			if s.Err != nil && !s.Pre.Has && s.Known {
				run.Count("refused_first_submission_then_list")
			}
			if lr.Code != 200 || jerr != nil || fmt.Sprint(got) != fmt.Sprint(want) {
				run.Violate("log_list_wrong", fmt.Sprintf("log list: status %d, decode err %v, got %d IDs, %d logs have an accepted update", lr.Code, jerr, len(got), len(want)), unit, detail(map[string]any{"got": got, "want": want, "body": string(body)}))
			}
			if unit == 0 && i == 3 {
				run.Sample(map[string]any{"after": s.Req.String(), "log_list": string(body), "get_status_known": get(u.Logs[0].ID).Code})
			}
		})
		h.Close()
		if err != nil {
			run.Inconclusive(err.Error())
		}
	})
}

// crossLogReads: GET (or bundled-client read) of log A is paused after it fetched its value from the store;
// while it is open, log B is read through the same API. B's answer must be B's stored bytes (it may queue
// behind A: it is judged on its bytes alone), and A's answer A's.
func crossLogReads(run *ev.Run, unit int64, r *rand.Rand, dir string) {
	u := gen.NewUniverse(r, gen.Opts{NLogs: 2 + r.IntN(2), MaxSize: 30, Branches: 1, ShareKeys: true})
	st, err := wit.NewStore(wit.DrawStore(r), dir)
	if err != nil {
		run.Inconclusive(err.Error())
		return
	}
	defer st.Close()
	keys, _ := wit.NewWitKeys(r, []bool{false, true}, true)
	var hook *seams.HookStore
	rn, err := wit.NewRunner(u, keys, st, func(p persistence.LogStatePersistence) persistence.LogStatePersistence {
		hook = seams.NewHookStore(p)
		return hook
	})
	if err != nil {
		run.Inconclusive(err.Error())
		return
	}
	router := mux.NewRouter()
	ihttp.NewServer(rn.W).RegisterHandlers(router)
	base, _ := url.Parse("http://witness.invalid/")
	client := whttp.NewWitness(base, &http.Client{Transport: inmem{router}})
	want := map[string][]byte{}
	for i, l := range u.Logs {
		if i == len(u.Logs)-1 && r.IntN(3) == 0 {
			continue // one log may hold nothing: its read must be a 404, not a neighbour's checkpoint
		}
		ret, err := rn.W.Update(context.Background(), l.ID, 0, l.Honest(0, 1+r.Uint64N(20)), nil)
		if err != nil {
			run.Inconclusive("first update refused: " + err.Error())
			return
		}
		want[l.ID] = ret
	}
	viaClient := unit%2 == 1
	read := func(id string) (int, []byte) {
		if viaClient {
			b, err := client.GetLatestCheckpoint(context.Background(), id)
			switch {
			case err == nil:
				return 200, b
			case errors.Is(err, os.ErrNotExist):
				return 404, nil
			}
			return 500, nil
		}
		rec := httptest.NewRecorder()
		router.ServeHTTP(rec, httptest.NewRequest(http.MethodGet, "/witness/v0/logs/"+id+"/checkpoint", nil))
		return rec.Code, rec.Body.Bytes()
	}
	a, b := u.Logs[0], u.Logs[len(u.Logs)-1]
	sameLog := unit%4 >= 2 && want[a.ID] != nil
	if sameLog {
		b = a // the second read is of the SAME log, after an update of it was accepted while read A was open
	}
	paused, release := make(chan struct{}), make(chan struct{})
	var once sync.Once
	hook.SetAfterRead(func(id string) {
		first := false
		if id == a.ID {
			once.Do(func() { first = true })
		}
		if first {
			close(paused)
			<-release
		}
	})
	type res struct {
		code int
		body []byte
	}
	ach := make(chan res, 1)
	go func() { c, bb := read(a.ID); ach <- res{c, bb} }()
	select {
	case <-paused:
	case <-time.After(20 * time.Second):
		close(release)
		run.Inconclusive("watchdog: read A never reached the store")
		return
	}
	oldA := want[a.ID]
	if sameLog {
		n, _ := refnote.Parse(oldA)
		c, _ := refnote.ParseCheckpoint(n.Text)
		nx := c.Size + 1 + r.Uint64N(5)
		ret, err := rn.W.Update(context.Background(), a.ID, c.Size, a.Honest(0, nx), a.Branches[0].Consistency(c.Size, nx))
		if err != nil {
			close(release)
			<-ach
			run.Count("cross_update_refused_while_read_open")
			return
		}
		want[a.ID] = ret
	}
	bch := make(chan res, 1)
	go func() { c, bb := read(b.ID); bch <- res{c, bb} }()
	var gb res
	queued := false
	select {
	case gb = <-bch:
	case <-time.After(300 * time.Millisecond):
		queued = true
	}
	close(release)
	if queued {
		select {
		case gb = <-bch:
		case <-time.After(30 * time.Second):
			run.Inconclusive("watchdog: read B did not return after read A was released")
			return
		}
	}
	ga := <-ach
	run.Add("evaluations", 2)
	run.Count("overlapping_reads_of_two_logs")
	run.Distinct("nontrivial", fmt.Sprintf("cross/client=%v/b_stored=%v/%s/queued=%v/same_log=%v", viaClient, want[b.ID] != nil, st.Kind, queued, sameLog))
	judge := func(which string, l *gen.Log, g res) {
		w := want[l.ID]
		ok := (w == nil && g.code == 404) || (w != nil && g.code == 200 && bytes.Equal(g.body, w))
		if !ok {
			other := ""
			for id, ob := range want {
				if id != l.ID && bytes.Equal(ob, g.body) {
					other = " - these are the bytes stored for another log"
				}
			}
			run.Violate("overlapping_reads_cross_logs;client="+fmt.Sprint(viaClient), fmt.Sprintf("two reads overlapped (of different logs, or of one log with an accepted update in between); read %s got status %d and bytes that are not what the witness holds for its log%s", which, g.code, other), unit, map[string]any{"store": st.Kind, "got": string(g.body), "want": string(w)})
		}
	}
	if sameLog {
		// A overlaps the update: the old or the new checkpoint are both right for it
		if !(ga.code == 200 && (bytes.Equal(ga.body, oldA) || bytes.Equal(ga.body, want[a.ID]))) {
			judge("A", a, ga)
		}
	} else {
		judge("A", a, ga)
	}
	judge("B", b, gb)
}
