// C01: everything the witness cosigns for a log is one append-only history.
//
// Monitor: after every request (whatever it returned) the stored checkpoint of
// every log is read back; every byte string that was returned with a nil error
// or newly observed in storage is appended to that log's cosigned list. The
// oracle judges the list on LEAVES of the harness-generated trees.
package main

import (
	"bytes"
	"fmt"
	"math/rand/v2"

	"github.com/transparency-dev/witness/internal/verif/kit/ev"
	"github.com/transparency-dev/witness/internal/verif/kit/gen"
	"github.com/transparency-dev/witness/internal/verif/kit/refnote"
	"github.com/transparency-dev/witness/internal/verif/kit/wit"
)

type entry struct {
	raw  []byte
	size uint64
	root []byte
	step int
	req  string
}

func main() {
	run := ev.Start("C01", "exploration")
	defer run.Finish()
	run.Rule("unit = one generated history of 20-60 hostile update requests against a fresh real witness (1-3 forking logs, 2-4 branches each, sizes 0..40; or uniform region trees with sizes to 2^40) on mem / sqlite :memory: / sqlite file; after every request the stored checkpoint of every log is read back and the per-log list of cosigned checkpoints is judged on leaves. evaluations = update requests executed; nontrivial = distinct (stored size, submitted size, old-size kind, checkpoint kind, proof kind, outcome) tuples among requests that reached the consistency logic (known log, authentic checkpoint, something stored)")
	run.Assume("SHA-256 collision-free, Ed25519 unforgeable", "ground truth = leaf lists of harness trees; RFC 6962 reference implementation in kit/reftree", "a random root at some size is never honestly extended by the generator (phantom clause)")
	nSmall := run.Pick(4000, 100000)
	nBig := run.Pick(400, 4000)
	run.Floor("accepted_growth", 1000)
	run.Floor("refused_fork_valid_internal_proof", 1000)
	run.Floor("store_mem", 1)
	run.Floor("store_sqlmem", 1)
	run.Floor("store_sqlfile", 1)
	dir := run.Scratch()

	run.Units("small", nSmall, 0, func(unit int64, r *rand.Rand) {
		history(run, unit, r, dir, false)
	})
	run.Units("big", nBig, 0, func(unit int64, r *rand.Rand) {
		history(run, unit, r, dir, true)
	})
}

func storeKind(r *rand.Rand) string {
	switch x := r.IntN(20); {
	case x < 10:
		return "mem"
	case x < 17:
		return "sqlmem"
	}
	return "sqlfile"
}

func history(run *ev.Run, unit int64, r *rand.Rand, dir string, big bool) {
	u := gen.NewUniverse(r, gen.Opts{NLogs: 1 + r.IntN(3), MaxSize: 40, Big: big, BigBits: 40, Branches: 2 + r.IntN(3), ShareKeys: true})
	kind := storeKind(r)
	st, err := wit.NewStore(kind, dir)
	if err != nil {
		run.Inconclusive("store: " + err.Error())
		return
	}
	defer st.Close()
	run.Count("store_" + kind)
	schemes := [][]bool{{false}, {true}, {false, true}}[r.IntN(3)]
	keys, err := wit.NewWitKeys(r, schemes, len(schemes) == 2)
	if err != nil {
		run.Inconclusive("keys: " + err.Error())
		return
	}
	rn, err := wit.NewRunner(u, keys, st, nil)
	if err != nil {
		run.Inconclusive("witness.New: " + err.Error())
		return
	}
	lists := map[string][]entry{}
	var trace []string
	snap := rn.Snap()
	n := 20 + r.IntN(41)
	for i := 0; i < n; i++ {
		l := u.Logs[r.IntN(len(u.Logs))]
		v := rn.View(l, snap)
		q := u.Next(r, l, v, rn.Sess[l.Idx])
		s := rn.Do(q, snap)
		snap = s.After
		run.Count("evaluations")
		trace = append(trace, fmt.Sprintf("%d: %s -> err=%v", i, q, s.Err))
		if len(trace) > 70 {
			trace = trace[1:]
		}
		// coverage accounting
		if s.Known && s.Authentic && s.Pre.Has && !s.Ambiguous {
			out := "refused"
			if s.Err == nil {
				out = "accepted"
			}
			run.Distinct("nontrivial", fmt.Sprintf("%d/%d/%s/%s/%s/%s", s.Pre.Size, s.Body.Size, q.OldKind, q.CPKind, q.ProofKind, out))
			if s.Err == nil && s.Body.Size > s.Pre.Size {
				run.Count("accepted_growth")
			}
			if s.Err == nil && s.Body.Size == s.Pre.Size {
				run.Count("accepted_refresh")
			}
			if q.Tree && q.Size > s.Pre.Size && q.OldKind == "cur" && q.ProofKind == "correct_cur" && s.Pre.Size > 0 {
				comp := false
				for _, b := range l.Compatible(v) {
					if l.Prefix(b, s.Pre.Size, q.Branch, q.Size) {
						comp = true
					}
				}
				if !comp {
					if s.Err != nil {
						run.Count("refused_fork_valid_internal_proof")
					} else {
						run.Count("accepted_fork_valid_internal_proof")
					}
				}
			}
		}
		if s.Err == nil && !s.Pre.Has {
			run.Count("accepted_first")
		}
		// monitor: collect newly cosigned checkpoints of every log
		for _, lg := range u.Logs {
			var add [][]byte
			if s.Err == nil && q.LogID == lg.ID && s.Ret != nil {
				add = append(add, s.Ret)
			}
			after := s.After.CP[lg.ID]
			if after != nil && !bytes.Equal(after, s.Before.CP[lg.ID]) && (len(add) == 0 || !bytes.Equal(add[0], after)) {
				add = append(add, after)
			}
			for _, raw := range add {
				e := entry{raw: raw, step: i, req: q.String()}
				nt, err := refnote.Parse(raw)
				if err != nil {
					run.Violate("cosigned_unparsable", fmt.Sprintf("cosigned checkpoint is not a note: %v", err), unit, map[string]any{"trace": trace, "raw": string(raw), "store": kind})
					continue
				}
				cp, err := refnote.ParseCheckpoint(nt.Text)
				if err != nil {
					run.Violate("cosigned_unparsable_body", fmt.Sprintf("cosigned checkpoint body unparsable: %v", err), unit, map[string]any{"trace": trace, "raw": string(raw), "store": kind})
					continue
				}
				e.size, e.root = cp.Size, cp.Root
				if prev := lists[lg.ID]; len(prev) > 0 {
					judge(run, unit, lg, prev[len(prev)-1], e, q, kind, trace)
				}
				lists[lg.ID] = append(lists[lg.ID], e)
			}
		}
	}
	if unit < 3 {
		run.Sample(map[string]any{"unit": unit, "store": kind, "big": big, "logs": len(u.Logs), "trace_tail": trace[max(0, len(trace)-6):]})
	}
}

// judge checks the append-only relation between two consecutive cosigned checkpoints.
func judge(run *ev.Run, unit int64, l *gen.Log, a, b entry, q *gen.Request, kind string, trace []string) {
	detail := map[string]any{"trace": trace, "prev": string(a.raw), "next": string(b.raw), "store": kind}
	rel := "grow"
	if b.size == a.size {
		rel = "equal"
	} else if b.size < a.size {
		rel = "shrink"
	}
	key := func(clause string) string {
		return fmt.Sprintf("%s;rel=%s;old=%s;cp=%s;proof=%s", clause, rel, q.OldKind, q.CPKind, q.ProofKind)
	}
	switch {
	case b.size < a.size:
		run.Violate(key("size_decreased"), fmt.Sprintf("cosigned size went %d -> %d", a.size, b.size), unit, detail)
		return
	case b.size == a.size:
		if !bytes.Equal(a.root, b.root) {
			run.Violate(key("equal_size_different_root"), fmt.Sprintf("two cosigned checkpoints of size %d with different roots", a.size), unit, detail)
		}
		return
	case a.size == 0:
		return // the empty tree is a prefix of everything
	}
	ca, cb := l.Lookup(a.root), l.Lookup(b.root)
	var ta, tb []gen.BS
	for _, e := range ca {
		if e.Size == a.size {
			ta = append(ta, e)
		}
	}
	for _, e := range cb {
		if e.Size == b.size {
			tb = append(tb, e)
		}
	}
	if len(ta) == 0 || len(tb) == 0 {
		run.Violate(key("grew_across_phantom_root"), fmt.Sprintf("cosigned %d -> %d where a root commits to no tree of the universe (prev known=%v next known=%v)", a.size, b.size, len(ta) > 0, len(tb) > 0), unit, detail)
		return
	}
	if !l.Prefix(ta[0].Branch, a.size, tb[0].Branch, b.size) {
		run.Violate(key("not_a_prefix"), fmt.Sprintf("cosigned (branch %d,size %d) then (branch %d,size %d): first %d leaves differ (fork at %d)", ta[0].Branch, a.size, tb[0].Branch, b.size, a.size, l.Branches[ta[0].Branch].FirstDiff(l.Branches[tb[0].Branch])), unit, detail)
	}
}
