// C01: everything the witness cosigns for a log is one append-only history.
//
// Monitor: after every request (whatever it returned) the stored checkpoint of
// every log is read back; every byte string that was returned with a nil error
// or newly observed in storage is appended to that log's cosigned list. The
// oracle judges the list on LEAVES of the harness-generated trees.
package main

import (
	"bytes"
	"fmt"
	"math/rand/v2"

	"github.com/transparency-dev/witness/internal/verif/kit/ev"
	"github.com/transparency-dev/witness/internal/verif/kit/gen"
	"github.com/transparency-dev/witness/internal/verif/kit/refnote"
	"github.com/transparency-dev/witness/internal/verif/kit/wit"
)

type entry struct {
	raw  []byte
	size uint64
	root []byte
	step int
	req  string
}

func main() {
	run := ev.Start("C01", "exploration")
	defer run.Finish()
	run.Rule("unit = one generated history of 20-60 hostile update requests against a fresh real witness (1-3 forking logs, 2-4 branches each, sizes 0..40; or uniform region trees with sizes to 2^40) on mem / sqlite :memory: / sqlite file, with a storage fault (interface or SQL-driver level: open, read, row fetch, write, commit, close) injected into ~4% of requests; after every request the stored checkpoint of every log is read back and the per-log list of cosigned checkpoints is judged on leaves. evaluations = update requests executed; nontrivial = distinct (stored size, submitted size, old-size kind, checkpoint kind, proof kind, outcome) tuples among requests that reached the consistency logic (known log, authentic checkpoint, something stored)")
	run.Assume("SHA-256 collision-free, Ed25519 unforgeable", "ground truth = leaf lists of harness trees; RFC 6962 reference implementation in kit/reftree", "a random root at some size is never honestly extended by the generator (phantom clause)")
	nSmall := run.Pick(4000, 100000)
	nBig := run.Pick(400, 4000)
	run.Floor("accepted_growth", 1000)
	run.Floor("refused_fork_valid_internal_proof", 1000)
	run.Floor("store_mem", 1)
	run.Floor("store_sqlmem", 1)
	run.Floor("store_sqlfile", 1)
	dir := run.Scratch()

	run.Units("small", nSmall, 0, func(unit int64, r *rand.Rand) {
		history(run, unit, r, dir, false)
	})
	run.Units("big", nBig, 0, func(unit int64, r *rand.Rand) {
		history(run, unit, r, dir, true)
	})
}

func storeKindUnused(r *rand.Rand) string {
	switch x := r.IntN(20); {
	case x < 10:
		return "mem"
	case x < 17:
		return "sqlmem"
	}
	return "sqlfile"
}

func history(run *ev.Run, unit int64, r *rand.Rand, dir string, big bool) {
	o := wit.HistOpts{Gen: gen.Opts{NLogs: 1 + r.IntN(3), MaxSize: 40, Big: big, BigBits: 40, Branches: 2 + r.IntN(3), ShareKeys: true},
		MinSteps: 20, MaxSteps: 60, Dir: dir, FaultProb: 0.04, DriverFaults: true}
	lists := map[string][]entry{}
	h, err := wit.RunHistory(r, o, func(h *wit.Hist, s *wit.Step, i int) {
		u, q, kind, trace := h.Rn.U, s.Req, h.Kind, h.Trace
		l := q.Log
		v := wit.ViewOf(l, s.Before)
		run.Count("evaluations")
		if h.FaultFired != "" {
			run.Count("requests_with_storage_fault")
		}
		// coverage accounting
		if s.Known && s.Authentic && s.Pre.Has && !s.Ambiguous {
			out := "refused"
			if s.Err == nil {
				out = "accepted"
			}
			run.Distinct("nontrivial", fmt.Sprintf("%d/%d/%s/%s/%s/%s", s.Pre.Size, s.Body.Size, q.OldKind, q.CPKind, q.ProofKind, out))
			if s.Err == nil && s.Body.Size > s.Pre.Size {
				run.Count("accepted_growth")
			}
			if s.Err == nil && s.Body.Size == s.Pre.Size {
				run.Count("accepted_refresh")
			}
			if q.Tree && q.Size > s.Pre.Size && q.OldKind == "cur" && q.ProofKind == "correct_cur" && s.Pre.Size > 0 {
				comp := false
				for _, b := range l.Compatible(v) {
					if l.Prefix(b, s.Pre.Size, q.Branch, q.Size) {
						comp = true
					}
				}
				if !comp {
					if s.Err != nil {
						run.Count("refused_fork_valid_internal_proof")
					} else {
						run.Count("accepted_fork_valid_internal_proof")
					}
				}
			}
		}
		if s.Err == nil && !s.Pre.Has {
			run.Count("accepted_first")
		}
		// monitor: collect newly cosigned checkpoints of every log
		for _, lg := range u.Logs {
			var add [][]byte
			if s.Err == nil && q.LogID == lg.ID && s.Ret != nil {
				add = append(add, s.Ret)
			}
			after := s.After.CP[lg.ID]
			if after != nil && !bytes.Equal(after, s.Before.CP[lg.ID]) && (len(add) == 0 || !bytes.Equal(add[0], after)) {
				add = append(add, after)
			}
			for _, raw := range add {
				e := entry{raw: raw, step: i, req: q.String()}
				nt, err := refnote.Parse(raw)
				if err != nil {
					run.Violate("cosigned_unparsable", fmt.Sprintf("cosigned checkpoint is not a note: %v", err), unit, map[string]any{"trace": trace, "raw": string(raw), "store": kind})
					continue
				}
				cp, err := refnote.ParseCheckpoint(nt.Text)
				if err != nil {
					run.Violate("cosigned_unparsable_body", fmt.Sprintf("cosigned checkpoint body unparsable: %v", err), unit, map[string]any{"trace": trace, "raw": string(raw), "store": kind})
					continue
				}
				e.size, e.root = cp.Size, cp.Root
				if prev := lists[lg.ID]; len(prev) > 0 {
					judge(run, unit, lg, prev[len(prev)-1], e, q, kind, trace)
				}
				lists[lg.ID] = append(lists[lg.ID], e)
			}
		}
	})
	if err != nil {
		run.Inconclusive(err.Error())
		return
	}
	defer h.Close()
	run.Count("store_" + h.Kind)
	if unit < 3 {
		run.Sample(map[string]any{"unit": unit, "store": h.Kind, "big": big, "logs": len(h.Rn.U.Logs), "trace_tail": h.Trace[max(0, len(h.Trace)-6):]})
	}
}

// judge checks the append-only relation between two consecutive cosigned checkpoints.
func judge(run *ev.Run, unit int64, l *gen.Log, a, b entry, q *gen.Request, kind string, trace []string) {
	detail := map[string]any{"trace": trace, "prev": string(a.raw), "next": string(b.raw), "store": kind}
	rel := "grow"
	if b.size == a.size {
		rel = "equal"
	} else if b.size < a.size {
		rel = "shrink"
	}
	key := func(clause string) string {
		return fmt.Sprintf("%s;rel=%s;old=%s;cp=%s;proof=%s", clause, rel, q.OldKind, q.CPKind, q.ProofKind)
	}
	switch {
	case b.size < a.size:
		run.Violate(key("size_decreased"), fmt.Sprintf("cosigned size went %d -> %d", a.size, b.size), unit, detail)
		return
	case b.size == a.size:
		if !bytes.Equal(a.root, b.root) {
			run.Violate(key("equal_size_different_root"), fmt.Sprintf("two cosigned checkpoints of size %d with different roots", a.size), unit, detail)
		}
		return
	case a.size == 0:
		return // the empty tree is a prefix of everything
	}
	ca, cb := l.Lookup(a.root), l.Lookup(b.root)
	var ta, tb []gen.BS
	for _, e := range ca {
		if e.Size == a.size {
			ta = append(ta, e)
		}
	}
	for _, e := range cb {
		if e.Size == b.size {
			tb = append(tb, e)
		}
	}
	if len(ta) == 0 || len(tb) == 0 {
		run.Violate(key("grew_across_phantom_root"), fmt.Sprintf("cosigned %d -> %d where a root commits to no tree of the universe (prev known=%v next known=%v)", a.size, b.size, len(ta) > 0, len(tb) > 0), unit, detail)
		return
	}
	if !l.Prefix(ta[0].Branch, a.size, tb[0].Branch, b.size) {
		run.Violate(key("not_a_prefix"), fmt.Sprintf("cosigned (branch %d,size %d) then (branch %d,size %d): first %d leaves differ (fork at %d)", ta[0].Branch, a.size, tb[0].Branch, b.size, a.size, l.Branches[ta[0].Branch].FirstDiff(l.Branches[tb[0].Branch])), unit, detail)
	}
}
