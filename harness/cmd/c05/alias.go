package main

import "math/rand/v2"

type randAlias = rand.Rand
