// C05: concurrent updates behave like some sequential order; state never regresses.
//
// Layer (a)+(b): the real Witness runs over a yielding store under a controlled
// scheduler (kit/sched); every schedule of 2-4 concurrent requests at
// storage-operation granularity is executed (exhaustively, or with a
// preemption bound) and each execution's invocation/response history is
// checked with porcupine against the reference model (kit/lin).
// Layer (c): randomised many-goroutine stress under the race detector is a
// separate binary (c05stress) started from here.
package main

import (
	"bytes"
	"context"
	"encoding/json"
	"errors"
	"fmt"
	"math/rand/v2"
	"os"
	"os/exec"
	"path/filepath"
	"runtime"
	"sort"
	"strings"
	"sync"
	"time"

	"github.com/anishathalye/porcupine"
	"github.com/transparency-dev/witness/internal/persistence"
	"github.com/transparency-dev/witness/internal/verif/kit/asm"
	"github.com/transparency-dev/witness/internal/verif/kit/asmunits"
	"github.com/transparency-dev/witness/internal/verif/kit/ev"
	"github.com/transparency-dev/witness/internal/verif/kit/gen"
	"github.com/transparency-dev/witness/internal/verif/kit/lin"
	"github.com/transparency-dev/witness/internal/verif/kit/refnote"
	"github.com/transparency-dev/witness/internal/verif/kit/reftree"
	"github.com/transparency-dev/witness/internal/verif/kit/refwitness"
	"github.com/transparency-dev/witness/internal/verif/kit/sched"
	"github.com/transparency-dev/witness/internal/verif/kit/wit"
	"github.com/transparency-dev/witness/internal/witness"
	"google.golang.org/grpc/codes"
	"google.golang.org/grpc/status"
)

// opSpec is one request of a scenario.
type opSpec struct {
	read  bool
	log   int
	old   uint64
	cp    []byte
	proof [][]byte
	desc  string
	req   refwitness.Req
}

type scenario struct {
	qb, tb  int // preemption bound in the quick / thorough tier (-1: exhaustive)
	name    string
	u       *gen.Universe
	prelude []opSpec   // executed sequentially before the concurrent part
	tasks   [][]opSpec // one list of operations per concurrent task
}

func upd(l *gen.Log, br int, old, size uint64, from uint64, desc string) opSpec {
	cp := l.Honest(br, size)
	a, body := l.Judge(cp)
	return opSpec{log: l.Idx, old: old, cp: cp, proof: l.Branches[br].Consistency(from, size), desc: desc,
		req: refwitness.Req{Known: true, Authentic: a, Size: body.Size, Root: body.Root, OldSize: old, Proof: l.Branches[br].Consistency(from, size)}}
}

func rd(l *gen.Log) opSpec { return opSpec{read: true, log: l.Idx, desc: "read"} }

// scenarios builds the scenario families. Branch 1 of every log shares exactly 4 leaves with branch 0.
func scenarios(run *ev.Run) []*scenario {
	r := run.Rand("scen", 0)
	mk := func() (*gen.Universe, *gen.Log, *gen.Log) {
		u := gen.NewUniverse(r, gen.Opts{NLogs: 2, MaxSize: 16, Branches: 2, Unique: true})
		for _, l := range u.Logs {
			l.ReplaceBranch(1, &reftree.Tree{Seed: l.Branches[0].Seed, TagA: 1, TagB: 3, Fork: 4})
		}
		return u, u.Logs[0], u.Logs[1]
	}
	var out []*scenario
	qb, tb := -1, -1
	add := func(name string, u *gen.Universe, prelude []opSpec, tasks ...[]opSpec) {
		out = append(out, &scenario{name: name, u: u, prelude: prelude, tasks: tasks, qb: qb, tb: tb})
	}
	exhaustive := func() { qb, tb = -1, -1 }
	bounded := func(q, t int) { qb, tb = q, t }
	{
		u, l, _ := mk()
		a, b := upd(l, 0, 0, 5, 0, "first b0@5"), upd(l, 1, 0, 6, 0, "first b1@6")
		exhaustive()
		add("first_use_conflict/2", u, nil, []opSpec{a}, []opSpec{b})
		add("first_use_conflict/2+reader", u, nil, []opSpec{a}, []opSpec{b}, []opSpec{rd(l)})
		c := upd(l, 0, 0, 7, 0, "first b0@7")
		bounded(2, -1)
		add("first_use_conflict/3", u, nil, []opSpec{a}, []opSpec{b}, []opSpec{c})
	}
	{
		u, l, _ := mk()
		pre := []opSpec{upd(l, 0, 0, 4, 0, "prelude b0@4")}
		a, b := upd(l, 0, 4, 7, 4, "grow b0 4->7"), upd(l, 1, 4, 8, 4, "grow b1 4->8 (fork consistent with stored)")
		exhaustive()
		add("fork_from_same_old_size/2", u, pre, []opSpec{a}, []opSpec{b})
		add("fork_from_same_old_size/2+reader", u, pre, []opSpec{a}, []opSpec{b}, []opSpec{rd(l)})
		c := upd(l, 0, 4, 9, 4, "grow b0 4->9")
		bounded(2, -1)
		add("fork_from_same_old_size/3", u, pre, []opSpec{a}, []opSpec{b}, []opSpec{c})
		bounded(2, 3)
		add("fork_from_same_old_size/3+reader", u, pre, []opSpec{a}, []opSpec{b}, []opSpec{c}, []opSpec{rd(l)})
	}
	{
		u, l, _ := mk()
		pre := []opSpec{upd(l, 0, 0, 4, 0, "prelude b0@4")}
		a, b := upd(l, 0, 4, 7, 4, "grow 4->7"), upd(l, 0, 4, 4, 4, "refresh @4")
		exhaustive()
		add("growth_vs_refresh/2", u, pre, []opSpec{a}, []opSpec{b})
		add("growth_vs_refresh/2+reader", u, pre, []opSpec{a}, []opSpec{b}, []opSpec{rd(l)})
		// a chain: second step of the same client follows its first
		c := upd(l, 0, 7, 9, 7, "grow 7->9")
		bounded(3, -1)
		add("growth_chain_vs_refresh/3ops", u, pre, []opSpec{a, c}, []opSpec{b}, []opSpec{rd(l)})
		exhaustive()
		add("reader_monotone/chain+3reads", u, pre, []opSpec{a, c}, []opSpec{rd(l), rd(l), rd(l)})
	}
	{
		u, l, _ := mk()
		pre := []opSpec{upd(l, 0, 0, 4, 0, "prelude b0@4")}
		a, b := upd(l, 0, 4, 7, 4, "grow 4->7"), upd(l, 0, 2, 9, 2, "stale old=2 ->9")
		bad := upd(l, 0, 4, 8, 3, "grow 4->8 with the proof for 3->8")
		exhaustive()
		add("growth_vs_stale/2", u, pre, []opSpec{a}, []opSpec{b})
		bounded(2, -1)
		add("growth_vs_stale_vs_badproof/3", u, pre, []opSpec{a}, []opSpec{b}, []opSpec{bad})
	}
	{
		// byte-identical checkpoint and old size, proofs of differing validity: each request is judged on
		// its own proof, whoever else is in flight
		u, l, _ := mk()
		pre := []opSpec{upd(l, 0, 0, 4, 0, "prelude b0@4")}
		good := upd(l, 0, 4, 7, 4, "grow 4->7")
		withProof := func(p [][]byte, desc string) opSpec { // the very same checkpoint bytes, another proof
			o := good
			o.proof, o.desc = p, desc
			o.req.Proof = p
			return o
		}
		other := withProof(l.Branches[0].Consistency(3, 7), "grow 4->7 (same bytes) with the proof for 3->7")
		none := withProof([][]byte{}, "grow 4->7 (same bytes) with an empty proof")
		exhaustive()
		add("same_checkpoint_other_proof/2", u, pre, []opSpec{good}, []opSpec{other})
		add("same_checkpoint_other_proof/2b", u, pre, []opSpec{other}, []opSpec{good})
		bounded(2, -1)
		add("same_checkpoint_other_proof/3", u, pre, []opSpec{good}, []opSpec{other}, []opSpec{none})
	}
	{
		u, l, m := mk()
		pre := []opSpec{upd(l, 0, 0, 4, 0, "prelude l0@4")}
		a, b := upd(l, 0, 4, 7, 4, "l0 grow 4->7"), upd(m, 0, 0, 5, 0, "l1 first @5")
		exhaustive()
		add("different_logs/2", u, pre, []opSpec{a}, []opSpec{b})
		bounded(3, 5)
		add("different_logs/2+readers", u, pre, []opSpec{a}, []opSpec{b}, []opSpec{rd(l)}, []opSpec{rd(m)})
		c := upd(m, 1, 0, 6, 0, "l1 first b1@6")
		bounded(2, -1)
		add("different_logs/3", u, pre, []opSpec{a}, []opSpec{b}, []opSpec{c})
	}
	return out
}

type result struct {
	out lin.Out
	ret []byte
	err string
}

func classify(err error) string {
	if err == nil {
		return "accepted"
	}
	for n, e := range map[string]error{"unknown_log": witness.ErrUnknownLog, "bad_signature": witness.ErrNoValidSignature, "old_too_large": witness.ErrOldSizeInvalid, "stale": witness.ErrCheckpointStale, "root_mismatch": witness.ErrRootMismatch, "bad_proof": witness.ErrInvalidProof} {
		if errors.Is(err, e) {
			return "refused:" + n
		}
	}
	return "storage_error"
}

// execute runs one scenario under one schedule prefix; returns the execution and history.
type runCtx struct {
	sc          *scenario
	kind        string
	dir         string
	keys        *wit.WitKeys
	initial     map[string]lin.State
	initRaw     map[string][]byte
	wedge       string
	wedgeProven bool
}

type execRec struct {
	e                 *sched.Exec
	ops               []porcupine.Operation
	outs              []string
	final             map[string][]byte
	store             *wit.Store
	reads             [][]uint64 // per task: sizes seen by its successive reads
	logList, wantLogs []string   // final log list vs logs that hold a checkpoint
	neverStored       []string   // refusals that carried bytes no one ever stored
}

func (rc *runCtx) build() (*sched.Exec, func() *execRec) {
	sc := rc.sc
	st, err := wit.NewStore(rc.kind, rc.dir)
	if err != nil {
		panic(err)
	}
	var ex *sched.Exec
	holder := &sched.Store{Inner: st.P}
	rn, err := wit.NewRunner(sc.u, rc.keys, st, func(p persistence.LogStatePersistence) persistence.LogStatePersistence { return holder })
	if err != nil {
		panic(err)
	}
	ctx := context.Background()
	// the yielding store needs the Exec to exist before the prelude runs (calls from this goroutine pass through)
	var tasks []*sched.Task
	type slot struct {
		spec opSpec
		op   *sched.Op
		res  *result
		task int
	}
	var slots []*slot
	for ti, specs := range sc.tasks {
		t := &sched.Task{}
		for _, sp := range specs {
			sp := sp
			sl := &slot{spec: sp, res: &result{}, task: ti}
			l := sc.u.Logs[sp.log]
			op := &sched.Op{}
			if sp.read {
				op.Run = func() any {
					cp, err := rn.W.GetCheckpoint(l.ID)
					sl.res.ret = cp
					if err != nil && status.Code(err) != codes.NotFound {
						sl.res.err = err.Error()
					}
					return nil
				}
			} else {
				op.Run = func() any {
					ret, err := rn.W.Update(ctx, l.ID, sp.old, sp.cp, sp.proof)
					sl.res.ret = ret
					if err != nil {
						sl.res.err = err.Error()
					}
					sl.res.out.Kind = classify(err)
					return nil
				}
			}
			sl.op = op
			t.Ops = append(t.Ops, op)
			slots = append(slots, sl)
		}
		tasks = append(tasks, t)
	}
	ex = sched.NewExec(st.DB, tasks...)
	holder.E = ex
	if rc.initial == nil {
		rc.initial = map[string]lin.State{}
		rc.initRaw = map[string][]byte{}
	}
	for _, sp := range sc.prelude {
		l := sc.u.Logs[sp.log]
		var ret []byte
		var err error
		done := make(chan struct{})
		go func() { ret, err = rn.W.Update(ctx, l.ID, sp.old, sp.cp, sp.proof); close(done) }()
		select {
		case <-done:
		case <-time.After(10 * time.Second):
			// nothing else is running: if the pool shows all connections in use and a waiter, the update waits on itself
			rc.wedge = "prelude update did not return on store " + rc.kind
			if st.DB != nil {
				if s := st.DB.Stats(); s.MaxOpenConnections > 0 && s.InUse >= s.MaxOpenConnections && s.WaitCount > 0 {
					rc.wedge += ": it waits for a database connection while it holds the only one (self-deadlock)"
					rc.wedgeProven = true
				}
			}
			return nil, nil
		}
		if err != nil {
			panic("prelude refused: " + err.Error())
		}
		rc.initial[l.ID] = lin.State{Has: true, Size: sp.req.Size, Root: string(sp.req.Root), Cur: -1}
		rc.initRaw[l.ID] = ret
	}
	finish := func() *execRec {
		rec := &execRec{e: ex, final: map[string][]byte{}, store: st, reads: make([][]uint64, len(sc.tasks))}
		// identify returned bytes
		ident := func(id string, b []byte, self int) int {
			if b == nil {
				return -2
			}
			// for legacy witness keys bytes are deterministic per text, so compare texts + exact bytes of accepted updates
			for i, sl := range slots {
				if !sl.spec.read && sl.res.out.Kind == "accepted" && bytes.Equal(sl.res.ret, b) {
					return i
				}
			}
			if bytes.Equal(rc.initRaw[id], b) {
				return -1
			}
			return -3
		}
		var ops []porcupine.Operation
		for i, sl := range slots {
			l := sc.u.Logs[sl.spec.log]
			in := lin.In{Read: sl.spec.read, LogID: l.ID, Idx: i, Req: sl.spec.req, Desc: sl.spec.desc}
			o := sl.res.out
			if sl.spec.read {
				o.Kind = "read"
				if sl.res.err != "" {
					o.Kind = "read_error"
				}
				o.Has = sl.res.ret != nil
			}
			o.Cur = ident(l.ID, sl.res.ret, i)
			if sl.res.ret != nil {
				if n, err := refnote.Parse(sl.res.ret); err == nil {
					if c, err := refnote.ParseCheckpoint(n.Text); err == nil {
						o.Size = c.Size
					}
				}
			}
			if !sl.op.Done {
				continue // deadlocked execution: operation never answered
			}
			if sl.spec.read && o.Kind == "read" {
				rec.reads[sl.task] = append(rec.reads[sl.task], o.Size)
			}
			if !sl.spec.read && o.Kind != "accepted" && o.Cur == -3 {
				// an update that was not accepted came back with bytes that are neither the checkpoint the log
				// started with nor what any accepted update returned: a checkpoint that was never stored
				rec.neverStored = append(rec.neverStored, fmt.Sprintf("%s => %s with a checkpoint of size %d that was never stored", sl.spec.desc, o.Kind, o.Size))
			}
			ops = append(ops, porcupine.Operation{ClientId: i, Input: in, Call: sl.op.Call, Output: o, Return: sl.op.Return})
			rec.outs = append(rec.outs, fmt.Sprintf("%s=>%s/%d", sl.spec.desc, o.Kind, o.Cur))
		}
		if !ex.Deadlock {
			// final reads (after everything returned) pin the final state: no accepted update may be lost
			end := int64(ex.Steps*2 + 10)
			for _, l := range sc.u.Logs {
				cp, err := rn.W.GetCheckpoint(l.ID)
				if err != nil && status.Code(err) != codes.NotFound {
					continue
				}
				rec.final[l.ID] = cp
				o := lin.Out{Kind: "read", Has: cp != nil, Cur: ident(l.ID, cp, -1)}
				ops = append(ops, porcupine.Operation{ClientId: len(slots) + l.Idx, Input: lin.In{Read: true, LogID: l.ID, Idx: len(slots) + l.Idx, Desc: "final read"}, Call: end, Output: o, Return: end + 1})
				end += 2
			}
		}
		if !ex.Deadlock {
			// the log list is an outcome too: after everything returned it must be what some sequential order gives
			if ll, err := rn.W.GetLogs(); err == nil {
				sort.Strings(ll)
				rec.logList = ll
				for _, l := range sc.u.Logs {
					if rec.final[l.ID] != nil {
						rec.wantLogs = append(rec.wantLogs, l.ID)
					}
				}
				sort.Strings(rec.wantLogs)
			}
		}
		lin.MarkOverlaps(ops)
		rec.ops = ops
		return rec
	}
	return ex, finish
}

func main() {
	run := ev.Start("C05", "exploration")
	defer run.Finish()
	dir := run.Scratch()
	scs := scenarios(run)
	keys, _ := wit.NewWitKeys(run.Rand("keys", 0), []bool{false}, false)
	stores := []string{"mem", "sqlmem"}
	if run.Thorough() {
		stores = append(stores, "sqlfile")
	}
	if w := os.Getenv("VERIF_C05_WORKER"); w != "" {
		var i, n int
		fmt.Sscanf(w, "%d/%d", &i, &n)
		worker(run, scs, keys, stores, dir, i, n)
		return
	}
	run.Rule("layer a/b: for every scenario family (conflicting first use, forks from the same old size onto a fork consistent with the stored checkpoint, growth vs refresh, growth chain vs refresh, growth vs stale/bad proof, different logs, one reader reading three times beside a growth chain; 2-4 tasks) every schedule at storage-operation granularity is executed on the real Witness - exhaustively for 2 tasks and for 2 updaters + 1 reader, with a preemption bound for 3 updaters / 4 tasks in the quick tier (exhaustive in thorough) - on the in-memory store and on SQLite with the production single-connection pool (exhaustive up to 3 tasks; enabledness observed via db.Stats); each execution's history (logical clock = scheduler step) plus final reads is checked with porcupine against kit/refwitness; a storage error is legal only for an update that overlapped another update of the same log; per reader, sizes never decrease. The search is split over GOMAXPROCS=1 worker processes. layer c: randomised many-goroutine stress under the race detector (c05stress). evaluations = executions (schedules) run; nontrivial = distinct (scenario, store, outcome vector) observed")
	run.Assume("interleavings are explored at storage-operation granularity; finer interleavings inside the stores' own critical sections are reached only by the -race stress layer", "legacy witness key: returned bytes identify the update that produced them")
	run.Floor("schedules_mem", 50000)
	run.Floor("schedules_sql", 3000)
	run.Floor("histories_checked", 50000)
	run.Floor("stress_histories", 200)
	run.Floor("storage_error_outcomes", 100)
	if err := asm.SetupTLS(dir); err != nil {
		run.Inconclusive("stub bastion certificate: " + err.Error())
		return
	}
	// the assembled service (omniwitness.Main + bastion endpoint): overlapping pairs judged with porcupine, and
	// a feeder update parked inside its storage write
	run.Floor("assembled_pairs", 30)
	run.Floor("assembled_parked_feeder_updates", 3)
	if os.Getenv("VERIF_C05_SCEN") == "" {
		run.Units("asm_pairs", run.Pick(8, 64), 8, func(unit int64, r *rand.Rand) { asmunits.Pairs(run, unit, r, dir) })
		run.Units("asm_late", run.Pick(4, 32), 4, func(unit int64, r *rand.Rand) { asmunits.LateEffect(run, unit, r) })
	}
	n := runtime.NumCPU()
	self, _ := os.Executable()
	var wg sync.WaitGroup
	for i := 0; i < n; i++ {
		i := i
		wg.Add(1)
		go func() {
			defer wg.Done()
			out := filepath.Join(dir, fmt.Sprintf("worker-%d.json", i))
			cmd := exec.Command(self)
			cmd.Env = append(os.Environ(), "GOMAXPROCS=1", fmt.Sprintf("VERIF_C05_WORKER=%d/%d", i, n), "VERIF_EXPORT="+out, fmt.Sprintf("VERIF_WORKER_TAG=w%d-", i))
			cmd.Dir = dir
			o, err := cmd.CombinedOutput()
			if err != nil {
				run.Inconclusive(fmt.Sprintf("worker %d failed: %v: %s", i, err, tail(string(o), 800)))
				return
			}
			if err := run.Merge(out); err != nil {
				run.Inconclusive("worker output unreadable: " + err.Error())
			}
		}()
	}
	wg.Wait()
	if os.Getenv("VERIF_C05_SCEN") != "" || run.IsInconclusive() {
		return
	}
	stress(run, dir)
}

// worker explores its share of the schedule subtrees (single-threaded: hand-offs stay in user space).
func worker(run *ev.Run, scs []*scenario, keys *wit.WitKeys, stores []string, dir string, me, n int) {
	type job struct {
		sc     *scenario
		kind   string
		prefix []int
		bound  int
	}
	// planning is split too: worker k expands the schedule-tree prefixes of every n-th (scenario, store)
	// pair and publishes them; after a barrier every worker knows the whole job list
	type planned struct {
		Scen   string
		Kind   string
		Prefix []int
		Bound  int
	}
	var mine []planned
	combo := 0
	byName := map[string]*scenario{}
	for _, sc := range scs {
		byName[sc.name] = sc
		if f := os.Getenv("VERIF_C05_SCEN"); f != "" && !strings.Contains(sc.name, f) {
			continue
		}
		for _, kind := range stores {
			combo++
			if combo%n != me {
				continue
			}
			bound := sc.qb
			if run.Thorough() {
				bound = sc.tb
			}
			if kind != "mem" && len(sc.tasks) < 4 {
				bound = -1 // single-connection SQLite is almost serial: exhaustive up to 3 tasks
			}
			if kind != "mem" && len(sc.tasks) >= 4 && (bound < 0 || bound > 3) {
				bound = 3
			}
			if kind == "sqlfile" && len(sc.tasks) >= 4 {
				continue // file-backed runs cost an fsync per commit: 4-task scenarios stay on :memory:
			}
			rc := &runCtx{sc: sc, kind: kind, dir: dir, keys: keys}
			if e, _ := rc.build(); e == nil {
				// the fault-free sequential prelude never returned
				if rc.wedgeProven {
					run.Violate("deadlock;sequential_prelude/"+kind, rc.wedge, -1, map[string]any{"scenario": sc.name})
				} else {
					run.Inconclusive(rc.wedge)
				}
				continue
			}
			mk := func() *sched.Exec { e, _ := rc.build(); return e }
			for _, p := range sched.Prefixes(mk, 6, bound) {
				mine = append(mine, planned{sc.name, kind, p, bound})
			}
		}
	}
	pb, _ := json.Marshal(mine)
	_ = os.WriteFile(filepath.Join(dir, fmt.Sprintf("plan-%d.tmp", me)), pb, 0o644)
	_ = os.Rename(filepath.Join(dir, fmt.Sprintf("plan-%d.tmp", me)), filepath.Join(dir, fmt.Sprintf("plan-%d.json", me)))
	var jobs []job
	for k := 0; k < n; k++ {
		var part []planned
		for tries := 0; ; tries++ {
			b, err := os.ReadFile(filepath.Join(dir, fmt.Sprintf("plan-%d.json", k)))
			if err == nil && json.Unmarshal(b, &part) == nil {
				break
			}
			if tries > 3000 {
				run.Inconclusive(fmt.Sprintf("worker %d never published its plan", k))
				return
			}
			time.Sleep(100 * time.Millisecond)
		}
		for _, p := range part {
			jobs = append(jobs, job{byName[p.Scen], p.Kind, p.Prefix, p.Bound})
		}
	}
	sampled := map[string]bool{}
	// Once a few executions have been found in violation the rest of the search adds nothing (and on a
	// tree where requests wait for each other every further execution costs a BlockedAfter pause):
	// every worker stops claiming jobs as soon as one of them has left the marker.
	abortPath := filepath.Join(dir, "enough-violations")
	nviol := 0
	violated := func() bool {
		nviol++
		if nviol >= 3 {
			_ = os.WriteFile(abortPath, []byte("x"), 0o644)
			return true
		}
		return false
	}
	for ji, j := range jobs {
		if _, err := os.Stat(abortPath); err == nil {
			run.Count("jobs_skipped_after_violations")
			continue
		}
		// dynamic distribution: every worker computes the same job list and claims jobs one at a time
		// (subtree sizes differ by orders of magnitude, a static split leaves most workers idle)
		f, err := os.OpenFile(filepath.Join(dir, fmt.Sprintf("claim-%d", ji)), os.O_CREATE|os.O_EXCL|os.O_WRONLY, 0o644)
		if err != nil {
			continue
		}
		f.Close()
		unit := int64(ji)
		rc := &runCtx{sc: j.sc, kind: j.kind, dir: dir, keys: keys}
		var fin func() *execRec
		mk := func() *sched.Exec {
			var e *sched.Exec
			e, fin = rc.build()
			return e
		}
		sched.Explore(mk, j.prefix, j.bound, 0, func(e *sched.Exec) bool {
			rec := fin()
			if e.Stuck == "" {
				defer rec.store.Close() // (sql.DB.Close would wait for the blocked query forever)
			}
			run.Count("evaluations")
			if e.BlockedEvents > 0 {
				run.Add("tasks_judged_blocked_outside_storage", int64(e.BlockedEvents))
			}
			if j.kind == "mem" {
				run.Count("schedules_mem")
			} else {
				run.Count("schedules_sql")
			}
			run.Count("schedules:" + j.sc.name + "/" + j.kind)
			if j.bound < 0 {
				run.Distinct("exhaustively_enumerated", j.sc.name+"/"+j.kind)
			} else {
				run.Distinct(fmt.Sprintf("preemption_bound_%d", j.bound), j.sc.name+"/"+j.kind)
			}
			what := j.sc.name + "/" + j.kind
			detail := map[string]any{"scenario": j.sc.name, "store": j.kind, "schedule": e.Trace, "choices": e.Choices, "outcomes": rec.outs, "preemption_bound": j.bound}
			if e.Stuck != "" {
				detail["stuck"] = e.Stuck
				if !e.Deadlock {
					run.Inconclusive("a task blocked inside a storage call the scheduler considered enabled: " + e.Stuck)
					return false
				}
			}
			if e.Deadlock {
				run.Violate("deadlock;"+what, "no parked task is enabled: a request is never answered (a storage transaction left open?)", unit, detail)
				return !violated()
			}
			run.Count("histories_checked")
			vec := strings.Join(rec.outs, " | ")
			if strings.Contains(vec, "storage_error") {
				run.Count("storage_error_outcomes")
			}
			run.Distinct("nontrivial", what+" :: "+vec)
			stop := false
			switch lin.Check(lin.Model(rc.initial), rec.ops, 20*time.Second) {
			case "illegal":
				run.Violate("not_linearizable;"+what, "the outcomes are not those of any sequential order compatible with real time: "+vec, unit, detail)
				stop = violated()
			case "unknown":
				run.Inconclusive("porcupine timed out")
			}
			if len(rec.neverStored) > 0 {
				detail["refusals"] = rec.neverStored
				run.Violate("refusal_carries_never_stored_checkpoint;"+what, "an update that was not accepted returned a (cosigned) checkpoint that was never stored: "+rec.neverStored[0], unit, detail)
				stop = violated() || stop
			}
			if fmt.Sprint(rec.logList) != fmt.Sprint(rec.wantLogs) {
				detail["log_list"], detail["logs_with_checkpoint"] = rec.logList, rec.wantLogs
				run.Violate("log_list_not_sequential;"+what, fmt.Sprintf("after all requests returned the log list has %d entries but %d logs hold a checkpoint (no sequential order of the requests gives that)", len(rec.logList), len(rec.wantLogs)), unit, detail)
			}
			for _, sizes := range rec.reads {
				for k := 1; k < len(sizes); k++ {
					if sizes[k] < sizes[k-1] {
						run.Violate("reader_saw_size_decrease;"+what, fmt.Sprintf("one reader saw size %d after %d", sizes[k], sizes[k-1]), unit, detail)
					}
				}
			}
			if !sampled[what] && len(sampled) < 2 && me < 3 {
				sampled[what] = true
				run.Sample(map[string]any{"scenario": what, "schedule": e.Trace, "outcomes": rec.outs})
			}
			return !stop
		})
	}
}

// stress runs layer (c): the -race binary, several times, collecting race reports.
func stress(run *ev.Run, dir string) {
	bin := os.Getenv("VERIF_BIN_C05STRESS")
	if bin == "" {
		run.Inconclusive("c05stress binary not provided")
		return
	}
	rounds := run.Pick(2, 12)
	for i := 0; i < rounds; i++ {
		out := filepath.Join(dir, fmt.Sprintf("stress-%d.json", i))
		logp := filepath.Join(dir, fmt.Sprintf("race-%d", i))
		sctx, scancel := context.WithTimeout(context.Background(), 6*time.Minute)
		defer scancel()
		cmd := exec.CommandContext(sctx, bin)
		cmd.Env = append(os.Environ(), "GORACE=halt_on_error=0 log_path="+logp, "VERIF_STRESS_OUT="+out, fmt.Sprintf("VERIF_STRESS_ROUND=%d", i), "VERIF_STRESS_HIST="+fmt.Sprint(run.Pick(150, 1700)), "VERIF_STRESS_DIR="+dir)
		cmd.Dir = dir
		o, err := cmd.CombinedOutput()
		if sctx.Err() != nil {
			run.Inconclusive("watchdog: the stress process did not finish")
			return
		}
		if err != nil {
			_ = os.WriteFile(filepath.Join(os.Getenv("VERIF_REPLAY_DIR"), "C05-stress-crash.log"), o, 0o644)
			run.Violate("stress_process_failed", fmt.Sprintf("c05stress exited with %v: %s", err, tail(string(o), 600)), int64(i), nil)
			continue
		}
		var res struct {
			Histories  int
			Operations int
			Illegal    []map[string]any
			Unknown    int
			Outcomes   map[string]int
			Goroutines int
			PairsMet   int64
		}
		b, _ := os.ReadFile(out)
		if json.Unmarshal(b, &res) != nil {
			run.Inconclusive("stress output unreadable")
			return
		}
		run.Add("stress_histories", int64(res.Histories))
		run.Add("stress_operations", int64(res.Operations))
		run.Add("stress_writer_pairs_entering_set_together", res.PairsMet)
		run.Add("evaluations", int64(res.Histories))
		for k, v := range res.Outcomes {
			run.Add("stress_outcome:"+k, int64(v))
		}
		for _, ill := range res.Illegal {
			run.Violate("stress_not_linearizable;"+fmt.Sprint(ill["store"]), "a stress history is not linearizable", int64(i), ill)
		}
		if res.Unknown > 0 {
			run.Inconclusive("porcupine timed out on stress histories")
		}
		// race reports
		files, _ := filepath.Glob(logp + ".*")
		reports := 0
		for _, f := range files {
			rb, _ := os.ReadFile(f)
			for _, blk := range strings.Split(string(rb), "==================") {
				if !strings.Contains(blk, "WARNING: DATA RACE") {
					continue
				}
				reports++
				key := "race;" + raceKey(blk)
				if strings.Contains(blk, "transparency-dev/witness/internal/") && !onlyVerifFrames(blk) {
					run.Violate(key, "the race detector reported a data race with a frame in the witness module:\n"+tail(blk, 1500), int64(i), map[string]any{"report": blk})
				} else {
					run.Count("race_reports_outside_witness_module")
				}
			}
		}
		run.Add("race_reports", int64(reports))
	}
	run.Extra("stress_gomaxprocs", runtime.NumCPU())
}

func onlyVerifFrames(blk string) bool {
	for _, ln := range strings.Split(blk, "\n") {
		if strings.Contains(ln, "transparency-dev/witness/") && !strings.Contains(ln, "/internal/verif/") {
			return false
		}
	}
	return true
}

// raceKey is the pair of outermost witness-module functions of the two stacks.
func raceKey(blk string) string {
	var fns []string
	for _, ln := range strings.Split(blk, "\n") {
		ln = strings.TrimSpace(ln)
		if strings.HasPrefix(ln, "github.com/transparency-dev/witness/") && !strings.Contains(ln, "/internal/verif/") {
			f := strings.TrimPrefix(ln, "github.com/transparency-dev/witness/")
			if i := strings.Index(f, "("); i > 0 {
				f = f[:i]
			}
			fns = append(fns, f)
		}
	}
	if len(fns) > 2 {
		fns = []string{fns[0], fns[len(fns)-1]}
	}
	return strings.Join(fns, "+")
}

func tail(s string, n int) string {
	if len(s) > n {
		return s[len(s)-n:]
	}
	return s
}
