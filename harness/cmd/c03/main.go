// C03: a refused update changes nothing and releases no cosignature.
//
// Monitor: around every Update the observable state (sorted log list, latest
// checkpoint of every configured ID and of three unconfigured ones, and on
// SQLite additionally the raw table rows) is snapshotted; after a call that
// returned an error the snapshot must be byte-identical and the returned bytes
// must be nothing or exactly the previously stored checkpoint of that log.
package main

import (
	"bytes"
	"context"
	"fmt"
	"math/rand/v2"
	"time"

	"github.com/transparency-dev/witness/internal/persistence"
	"github.com/transparency-dev/witness/internal/verif/kit/asmunits"
	"github.com/transparency-dev/witness/internal/verif/kit/ev"
	"github.com/transparency-dev/witness/internal/verif/kit/gen"
	"github.com/transparency-dev/witness/internal/verif/kit/seams"
	"github.com/transparency-dev/witness/internal/verif/kit/wit"
)

var cells = []string{
	"unknown_log/empty", "unknown_log/stored", "bad_signature/empty", "bad_signature/stored",
	"old_too_large/stored", "stale/stored", "root_mismatch/stored", "bad_proof/stored",
	"size0_nonempty_proof/stored", "storage_failure/empty", "storage_failure/stored",
}

func main() {
	run := ev.Start("C03", "exploration")
	defer run.Finish()
	run.Rule("unit = one generated hostile history (as C01) with a storage fault injected into ~8% of requests at open-for-write / read-latest / write, plus scripted units for the rare refusal class 'non-empty proof at size zero'; every refusal is classified by the reference model into refusal class x {nothing stored, stored}; further units end the caller context while an acceptable update is inside a storage call (or before it starts) and compare the state once everything the call started has finished. evaluations = update requests; nontrivial = distinct (class, stored?, old-size kind, checkpoint kind, proof kind, store) tuples among refusals")
	run.Assume("the snapshot (GetLogs + GetCheckpoint of every configured and three unconfigured IDs + raw table rows on SQLite) is the observable state", "an injected write fault does not perform the write (a store that writes and then reports failure is outside the witness's control)")
	for _, c := range cells {
		run.Floor("cell:"+c, 120)
	}
	run.Floor("store_mem", 1)
	run.Floor("store_sqlmem", 1)
	run.Floor("store_sqlfile", 1)
	dir := run.Scratch()
	n := run.Pick(3000, 60000)
	// refusals through the assembled service: a log republishes its size with another root; the served state
	// (log list, every log's bytes) must be what it was
	run.Floor("assembled_progress_episodes", 5)
	run.Units("asm_refusals", run.Pick(6, 48), 6, func(unit int64, r *rand.Rand) {
		asmunits.Progress(run, unit, r, "other_log_forks_same_size")
	})
	run.Units("hist", n, 0, func(unit int64, r *rand.Rand) {
		o := wit.HistOpts{Gen: gen.Opts{NLogs: 1 + r.IntN(3), MaxSize: 40, Branches: 2 + r.IntN(3), ShareKeys: true, Big: unit%10 == 9, BigBits: 40},
			MinSteps: 20, MaxSteps: 60, FaultProb: 0.08, DriverFaults: true, RawSQL: true, Dir: dir}
		h, err := wit.RunHistory(r, o, func(h *wit.Hist, s *wit.Step, i int) { judge(run, unit, h, s) })
		defer h.Close()
		if err != nil {
			run.Inconclusive(err.Error())
			return
		}
		run.Count("store_" + h.Kind)
		if unit < 2 {
			run.Sample(map[string]any{"unit": unit, "store": h.Kind, "trace_tail": h.Trace[max(0, len(h.Trace)-5):]})
		}
	})
	run.Units("size0", run.Pick(400, 4000), 0, func(unit int64, r *rand.Rand) { sizeZero(run, unit, r, dir) })
	run.Units("cancel", run.Pick(160, 3000), 0, func(unit int64, r *rand.Rand) { cancelled(run, unit, r, dir) })
}

// cancelled: the caller's context ends while an otherwise acceptable update is inside a storage
// call. Whatever Update answers, if it is a refusal the state must stay unchanged - also after
// everything the call started has finished.
func cancelled(run *ev.Run, unit int64, r *rand.Rand, dir string) {
	u := gen.NewUniverse(r, gen.Opts{NLogs: 1 + r.IntN(2), MaxSize: 20, Branches: 1})
	kind := wit.DrawStore(r)
	st, err := wit.NewStore(kind, dir)
	if err != nil {
		run.Inconclusive(err.Error())
		return
	}
	defer st.Close()
	keys, _ := wit.NewWitKeys(r, []bool{false, true}, true)
	var hook *seams.HookStore
	rn, err := wit.NewRunner(u, keys, st, func(p persistence.LogStatePersistence) persistence.LogStatePersistence {
		hook = seams.NewHookStore(p)
		return hook
	})
	if err != nil {
		run.Inconclusive(err.Error())
		return
	}
	rn.RawSQL = true
	l := u.Logs[0]
	cur := uint64(0)
	for i := 0; i < 4; i++ {
		nx := cur + 1 + uint64(r.IntN(4))
		at := []string{seams.OpWriteOps, seams.OpWGet, seams.OpWSet, seams.OpWClose, "precancelled"}[r.IntN(5)]
		pause := time.Duration(r.IntN(3)) * time.Millisecond
		ctx, cancel := context.WithCancel(context.Background())
		if at == "precancelled" {
			cancel()
		}
		hook.SetHook(func(op, id string) error {
			if op == at {
				cancel()
				time.Sleep(pause) // let a caller that watches the context return first
			}
			return nil
		})
		before := rn.Snap()
		ret, err := rn.W.Update(ctx, l.ID, cur, l.Honest(0, nx), l.Branches[0].Consistency(cur, nx))
		cancel()
		// wait until whatever the call started has finished (open write handles drop to zero, state stable)
		var after *wit.Snapshot
		for k := 0; k < 400; k++ {
			after = rn.Snap()
			time.Sleep(2 * time.Millisecond)
			if hook.OpenWrites() == 0 && rn.Snap().Equal(after) && k >= 3 {
				break
			}
		}
		hook.SetHook(nil)
		run.Count("evaluations")
		if err == nil {
			cur = nx
			run.Count("cancel_ignored_update_accepted")
			continue
		}
		run.Count("cell:context_ended/" + map[bool]string{true: "stored", false: "empty"}[before.CP[l.ID] != nil])
		run.Distinct("nontrivial", fmt.Sprintf("context_ended/%s/%s", at, kind))
		detail := map[string]any{"store": kind, "cancelled_at": at, "err": fmt.Sprint(err), "returned": string(ret), "before": before, "after": after}
		if !after.Equal(before) {
			run.Violate("state_changed_on_refusal;class=context_ended;at="+at, fmt.Sprintf("the update was refused (%v) after its context ended, yet the stored state changed afterwards", err), unit, detail)
			return
		}
		if ret != nil && !bytes.Equal(ret, before.CP[l.ID]) {
			run.Violate("refusal_returned_other_bytes;class=context_ended", "refused with bytes that are not the stored checkpoint", unit, detail)
		}
	}
}

func judge(run *ev.Run, unit int64, h *wit.Hist, s *wit.Step) {
	run.Count("evaluations")
	if s.Err == nil {
		return
	}
	q := s.Req
	class := s.Class.String()
	if s.Class.Accepted() || h.FaultFired != "" {
		if h.FaultFired != "" {
			class = "storage_failure"
		} else if s.Pre.Has && s.Pre.Size == 0 && s.Body != nil && s.Body.Size == 0 && len(q.Proof) > 0 {
			class = "size0_nonempty_proof"
		} else {
			class = "other(" + class + ")" // e.g. the known size-0 growth refusal, or an ambiguous note
		}
	}
	if s.Class.String() == "bad_proof" && s.Pre.Has && s.Pre.Size == 0 && s.Body != nil && s.Body.Size == 0 {
		class = "size0_nonempty_proof"
	}
	stored := "empty"
	if s.Before.CP[q.Log.ID] != nil {
		stored = "stored"
	}
	run.Count("cell:" + class + "/" + stored)
	run.Distinct("nontrivial", fmt.Sprintf("%s/%s/%s/%s/%s/%s", class, stored, q.OldKind, q.CPKind, q.ProofKind, h.Kind))
	check(run, unit, h.Kind, class, stored, s, h.Trace)
}

func check(run *ev.Run, unit int64, kind, class, stored string, s *wit.Step, trace []string) {
	q := s.Req
	detail := map[string]any{"trace": trace, "store": kind, "request": q.String(), "cp": string(q.CP), "err": fmt.Sprint(s.Err), "returned": string(s.Ret)}
	if !s.After.Equal(s.Before) {
		detail["before"], detail["after"] = s.Before, s.After
		run.Violate(fmt.Sprintf("state_changed_on_refusal;class=%s;%s", class, stored), fmt.Sprintf("refused (%v) but observable state changed", s.Err), unit, detail)
	}
	if s.Ret != nil {
		prev := s.Before.CP[q.LogID]
		if prev == nil || !bytes.Equal(prev, s.Ret) {
			run.Violate(fmt.Sprintf("refusal_returned_other_bytes;class=%s;%s", class, stored), fmt.Sprintf("refused (%v) but returned bytes that are not the previously stored checkpoint", s.Err), unit, detail)
		}
	}
}

// sizeZero scripts the rare class: stored size 0, same size-0 checkpoint again with a non-empty proof.
func sizeZero(run *ev.Run, unit int64, r *rand.Rand, dir string) {
	u := gen.NewUniverse(r, gen.Opts{NLogs: 1 + r.IntN(2), MaxSize: 8, Branches: 2})
	kind := wit.DrawStore(r)
	st, err := wit.NewStore(kind, dir)
	if err != nil {
		run.Inconclusive(err.Error())
		return
	}
	defer st.Close()
	keys, _ := wit.NewWitKeys(r, []bool{false, true}, true)
	rn, err := wit.NewRunner(u, keys, st, nil)
	if err != nil {
		run.Inconclusive(err.Error())
		return
	}
	rn.RawSQL = true
	l := u.Logs[0]
	if _, err := rn.W.Update(context.Background(), l.ID, 0, l.Honest(0, 0), nil); err != nil {
		run.Inconclusive("size-0 first checkpoint refused: " + err.Error())
		return
	}
	for i := 0; i < 3; i++ {
		q := &gen.Request{Log: l, LogID: l.ID, OldSize: 0, CP: l.Honest(r.IntN(2), 0), CPKind: "honest", OldKind: "cur", ProofKind: "nonempty_at_zero", Tree: true}
		for j := 0; j <= r.IntN(3); j++ {
			hsh := make([]byte, 32)
			for k := range hsh {
				hsh[k] = byte(r.Uint32())
			}
			q.Proof = append(q.Proof, hsh)
		}
		s := rn.Do(q, nil)
		run.Count("evaluations")
		if s.Err == nil {
			continue // accepting it is not this property's business
		}
		run.Count("cell:size0_nonempty_proof/stored")
		run.Distinct("nontrivial", fmt.Sprintf("size0_nonempty_proof/%d/%s", len(q.Proof), kind))
		check(run, unit, kind, "size0_nonempty_proof", "stored", s, []string{q.String()})
	}
}
