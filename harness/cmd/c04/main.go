// C04: every checkpoint handed out is the log's text, validly cosigned, and fresh.
package main

import (
	"bytes"
	"context"
	"fmt"
	"github.com/transparency-dev/witness/internal/persistence"
	psql "github.com/transparency-dev/witness/internal/persistence/sql"
	"github.com/transparency-dev/witness/internal/verif/kit/seams"
	"math/rand/v2"
	"net/http"
	"net/http/httptest"
	"sync"
	"time"

	"github.com/gorilla/mux"
	ihttp "github.com/transparency-dev/witness/internal/http"
	"github.com/transparency-dev/witness/internal/verif/kit/asmunits"
	"github.com/transparency-dev/witness/internal/verif/kit/ev"
	"github.com/transparency-dev/witness/internal/verif/kit/gen"
	"github.com/transparency-dev/witness/internal/verif/kit/refnote"
	"github.com/transparency-dev/witness/internal/verif/kit/wit"
)

var schemeSets = [][]bool{{false}, {true}, {false, true}, {false, false, true}, {true, true}, {false, true, false, true}}

func main() {
	run := ev.Start("C04", "exploration")
	defer run.Finish()
	run.Rule("unit = one generated hostile history against a real witness with 1-4 signing keys (legacy Ed25519 and cosignature/v1, incl. the production pair: both schemes from one key); every accepted update and every stored checkpoint read back (in-process and GET through the real internal/http router) is decoded with kit/refnote: text identical to the submitted text, valid log signature, exactly one valid line per configured witness key, cosignature/v1 time within [clock before call, clock after call], read-after-accept identical. A subset of units ends with a discriminating refresh issued after the wall clock passed the previous signature's second. evaluations = update requests; nontrivial = distinct (path, key-set shape, decoration, store) among accepted updates")
	run.Assume("system clock not stepped backwards during the run", "Ed25519 unforgeable")
	run.Floor("accepted_first", 500)
	run.Floor("accepted_growth", 1000)
	run.Floor("accepted_refresh", 1000)
	run.Floor("discriminating_refresh", 64)
	run.Floor("accepted_with_stale_witness_sig", 50)
	run.Floor("http_reads", 1000)
	run.Floor("updates_with_storage_fault", 200)
	dir := run.Scratch()
	n := run.Pick(1500, 40000)
	disc := run.Pick(96, 768)
	// the signer list as omniwitness.Main hands it to the witness: drawn key lists, checkpoints fed by a feeder
	run.Floor("assembled_signer_sets_checked", 20)
	run.Units("asm_signers", run.Pick(14, 140), 7, func(unit int64, r *rand.Rand) { asmunits.Signers(run, unit, r) })
	run.Units("hist", n, 0, func(unit int64, r *rand.Rand) {
		var router *mux.Router
		o := wit.HistOpts{Gen: gen.Opts{NLogs: 1 + r.IntN(3), MaxSize: 40, Branches: 2, ShareKeys: true}, Schemes: schemeSets, MinSteps: 15, MaxSteps: 40, Dir: dir}
		if unit%3 == 1 {
			// storage faults (interface and SQL-driver level, incl. a failing COMMIT/Close): an update that
			// reports success must still be what a read returns
			o.FaultProb, o.DriverFaults = 0.06, true
		}
		var t0 int64
		var lastAccepted *wit.Step
		// RunHistory calls on() right after Do, so the clock after the call is read there; the
		// clock before the call is the previous step's "after" reading (monotone, only widens the window).
		t0 = time.Now().Unix()
		h, err := wit.RunHistory(r, o, func(h *wit.Hist, s *wit.Step, i int) {
			t1 := time.Now().Unix()
			if router == nil {
				router = mux.NewRouter()
				ihttp.NewServer(h.Rn.W).RegisterHandlers(router)
			}
			run.Count("evaluations")
			if h.FaultFired != "" {
				run.Count("updates_with_storage_fault")
				run.Distinct("fault_points", h.FaultFired)
				if s.Err == nil {
					run.Count("updates_accepted_despite_fault")
				}
			}
			observe(run, unit, h, s, router, t0, t1)
			if s.Err == nil {
				lastAccepted = s
			}
			t0 = t1
		})
		if err != nil {
			run.Inconclusive(err.Error())
			return
		}
		h.Close()
		_ = lastAccepted
	})
	// a read held open across an accepted update must not decide what a LATER read returns
	run.Floor("reads_issued_after_update_while_older_read_open", 40)
	run.Units("overlap", run.Pick(64, 640), 16, func(unit int64, r *rand.Rand) { overlap(run, unit, r, dir) })
	run.Floor("reads_after_update_with_cold_reader_open", 16)
	run.Units("overlap_restart", run.Pick(32, 320), 16, func(unit int64, r *rand.Rand) { overlapRestart(run, unit, r, dir) })
	// discriminating refreshes: own small witnesses, waits in parallel
	run.Units("refresh", disc, 32, func(unit int64, r *rand.Rand) { refresh(run, unit, r, dir) })
}

type sigReport struct {
	ok bool
	ts []uint64
}

// verifyCosigned checks raw against the property's clauses; window [t0,t1] applies when fresh.
func verifyCosigned(l *gen.Log, keys *wit.WitKeys, raw []byte, wantText string, fresh bool, t0, t1 int64) (string, []uint64) {
	n, err := refnote.Parse(raw)
	if err != nil {
		return "not_a_note: " + err.Error(), nil
	}
	if wantText != "" && n.Text != wantText {
		return "text_differs_from_submitted", nil
	}
	if v, _, _ := l.Key.Key(false).ValidSigs(n); len(v) == 0 {
		return "no_valid_log_signature", nil
	}
	var tss []uint64
	for i, k := range keys.Keys {
		valid, ts, lines := k.ValidSigs(n)
		if lines != 1 || len(valid) != 1 {
			return fmt.Sprintf("witness_key_%d_lines=%d_valid=%d", i, lines, len(valid)), nil
		}
		if k.CosigV1 {
			tss = append(tss, ts[0])
			if fresh && (int64(ts[0]) < t0 || int64(ts[0]) > t1) {
				return fmt.Sprintf("timestamp_outside_call_window: T=%d window=[%d,%d]", ts[0], t0, t1), tss
			}
		}
	}
	return "", tss
}

func observe(run *ev.Run, unit int64, h *wit.Hist, s *wit.Step, router *mux.Router, t0, t1 int64) {
	q := s.Req
	rn := h.Rn
	shape := fmt.Sprint(len(rn.Keys.Keys))
	if s.Err == nil {
		l, _ := rn.LogByID(q.LogID)
		path := "growth"
		switch {
		case !s.Pre.Has:
			path = "first"
		case s.Body != nil && s.Body.Size == s.Pre.Size:
			path = "refresh"
		}
		run.Count("accepted_" + path)
		sub, perr := refnote.Parse(q.CP)
		detail := map[string]any{"trace": h.Trace, "store": h.Kind, "submitted": string(q.CP), "returned": string(s.Ret), "keys": len(rn.Keys.Keys)}
		if perr != nil || l == nil {
			run.Violate("accepted_unparsable_submission", "accepted a submission the reference reader cannot parse", unit, detail)
			return
		}
		stale := false
		for _, sg := range sub.Sigs {
			for _, k := range rn.Keys.Keys {
				if sg.Name == k.Name && sg.Hash == k.Hash {
					stale = true
				}
			}
		}
		if stale {
			run.Count("accepted_with_stale_witness_sig")
		}
		run.Distinct("nontrivial", fmt.Sprintf("%s/%s/%s/stale=%v/sigs=%d/%s", path, shape, q.CPKind, stale, len(sub.Sigs), h.Kind))
		if why, _ := verifyCosigned(l, rn.Keys, s.Ret, sub.Text, true, t0, t1); why != "" {
			run.Violate(fmt.Sprintf("returned_checkpoint_bad;path=%s;why=%.40s", path, why), "accepted update returned a checkpoint that is not the log's text validly cosigned and fresh: "+why, unit, detail)
		}
		if got := s.After.CP[q.LogID]; !bytes.Equal(got, s.Ret) {
			detail["read"] = string(got)
			run.Violate("read_after_accept_differs;path="+path, "a read directly after an accepted update does not return the bytes the update returned", unit, detail)
		}
	}
	// every read: all stored checkpoints must be complete and validly cosigned; HTTP serves the same bytes
	for _, l := range rn.U.Logs {
		raw := s.After.CP[l.ID]
		if raw == nil {
			continue
		}
		if why, _ := verifyCosigned(l, rn.Keys, raw, "", false, 0, 0); why != "" {
			run.Violate(fmt.Sprintf("stored_checkpoint_bad;why=%.40s", why), "latest-checkpoint read returned a note that is not validly cosigned: "+why, unit, map[string]any{"trace": h.Trace, "read": string(raw), "store": h.Kind})
		}
		if rn.U.Logs[0] == l || s.Err == nil {
			rec := httptest.NewRecorder()
			router.ServeHTTP(rec, httptest.NewRequest(http.MethodGet, "/witness/v0/logs/"+l.ID+"/checkpoint", nil))
			if isRoutable(l.ID) {
				run.Count("http_reads")
				if rec.Code != 200 || !bytes.Equal(rec.Body.Bytes(), raw) {
					run.Violate("http_read_differs", fmt.Sprintf("GET checkpoint returned %d and different bytes than the in-process read", rec.Code), unit, map[string]any{"trace": h.Trace, "read": string(raw), "http": rec.Body.String()})
				}
			}
		}
	}
}

func isRoutable(id string) bool {
	for _, c := range id {
		if !(c >= 'a' && c <= 'z' || c >= 'A' && c <= 'Z' || c >= '0' && c <= '9' || c == '-') {
			return false
		}
	}
	return id != ""
}

func refresh(run *ev.Run, unit int64, r *rand.Rand, dir string) {
	u := gen.NewUniverse(r, gen.Opts{NLogs: 1, MaxSize: 20, Branches: 1})
	kind := wit.DrawStore(r)
	st, err := wit.NewStore(kind, dir)
	if err != nil {
		run.Inconclusive(err.Error())
		return
	}
	defer st.Close()
	sc := [][]bool{{true}, {false, true}, {true, true}, {false, true, false, true}}[r.IntN(4)]
	keys, _ := wit.NewWitKeys(r, sc, len(sc) == 2)
	rn, err := wit.NewRunner(u, keys, st, nil)
	if err != nil {
		run.Inconclusive(err.Error())
		return
	}
	l := u.Logs[0]
	size := 1 + r.Uint64N(20)
	cp := l.Honest(0, size)
	ret, err := rn.W.Update(context.Background(), l.ID, 0, cp, nil)
	if err != nil {
		run.Inconclusive("first update refused: " + err.Error())
		return
	}
	_, ts0 := verifyCosigned(l, keys, ret, "", false, 0, 0)
	if len(ts0) == 0 {
		run.Inconclusive("no timestamp on first cosignature")
		return
	}
	// wait until the wall clock has passed the previous signature's second
	for time.Now().Unix() <= int64(ts0[0]) {
		time.Sleep(20 * time.Millisecond)
	}
	variant := r.IntN(3)
	sub := cp
	switch variant {
	case 1:
		sub = ret // stale copy of the witness's own signatures, same text
	case 2:
		sub = l.Honest(0, size) // same body re-signed by the log (deterministic: same bytes)
	}
	t0 := time.Now().Unix()
	ret2, err := rn.W.Update(context.Background(), l.ID, size, sub, nil)
	t1 := time.Now().Unix()
	run.Count("evaluations")
	detail := map[string]any{"first": string(ret), "second": string(ret2), "submitted": string(sub), "store": kind, "variant": variant, "err": fmt.Sprint(err)}
	if err != nil {
		return // C08's business
	}
	n, _ := refnote.Parse(cp)
	why, ts1 := verifyCosigned(l, keys, ret2, n.Text, true, t0, t1)
	if int64(ts0[0]) < t0 {
		run.Count("discriminating_refresh")
		run.Distinct("nontrivial", fmt.Sprintf("refresh/%d/%d/%s", len(sc), variant, kind))
	}
	if why != "" {
		run.Violate(fmt.Sprintf("refresh_not_fresh;why=%.32s", why), "same-size resubmission did not yield a fresh valid cosignature: "+why, unit, detail)
		return
	}
	if got, _ := rn.W.GetCheckpoint(l.ID); !bytes.Equal(got, ret2) {
		run.Violate("refresh_read_differs", "read after refresh differs from the returned bytes", unit, detail)
	}
	if unit < 2 {
		run.Sample(map[string]any{"first_T": ts0, "refresh_T": ts1, "window": []int64{t0, t1}, "returned": string(ret2)})
	}
}

// overlap: read A (HTTP GET or in-process GetCheckpoint) is paused after it has fetched its value from the
// store and before it returns; an update is then accepted; read B is issued after that update returned.
// B must return exactly the bytes the update returned - whatever A returns (it overlaps the update).
func overlap(run *ev.Run, unit int64, r *rand.Rand, dir string) {
	u := gen.NewUniverse(r, gen.Opts{NLogs: 1, MaxSize: 30, Branches: 1})
	kind := wit.DrawStore(r)
	st, err := wit.NewStore(kind, dir)
	if err != nil {
		run.Inconclusive(err.Error())
		return
	}
	defer st.Close()
	keys, _ := wit.NewWitKeys(r, []bool{false, true}, true)
	var hook *seams.HookStore
	rn, err := wit.NewRunner(u, keys, st, func(p persistence.LogStatePersistence) persistence.LogStatePersistence {
		hook = seams.NewHookStore(p)
		return hook
	})
	if err != nil {
		run.Inconclusive(err.Error())
		return
	}
	router := mux.NewRouter()
	ihttp.NewServer(rn.W).RegisterHandlers(router)
	l := u.Logs[0]
	viaHTTP := unit%2 == 0
	read := func() (int, []byte) {
		if viaHTTP {
			rec := httptest.NewRecorder()
			router.ServeHTTP(rec, httptest.NewRequest(http.MethodGet, "/witness/v0/logs/"+l.ID+"/checkpoint", nil))
			return rec.Code, rec.Body.Bytes()
		}
		b, err := rn.W.GetCheckpoint(l.ID)
		if err != nil {
			return 500, nil
		}
		return 200, b
	}
	size := uint64(0)
	firstUse := unit%5 == 4 // A reads "nothing stored", then the first checkpoint is accepted
	if !firstUse {
		size = 1 + r.Uint64N(10)
		if _, err := rn.W.Update(context.Background(), l.ID, 0, l.Honest(0, size), nil); err != nil {
			run.Inconclusive("first update refused: " + err.Error())
			return
		}
	}
	paused, release := make(chan struct{}), make(chan struct{})
	var once sync.Once
	hook.SetAfterRead(func(string) {
		first := false
		once.Do(func() { first = true })
		if first {
			close(paused)
			<-release
		}
	})
	aDone := make(chan struct{})
	go func() { read(); close(aDone) }()
	select {
	case <-paused:
	case <-aDone:
		run.Inconclusive("read A returned without reaching the store")
		return
	case <-time.After(20 * time.Second):
		run.Inconclusive("watchdog: read A never reached the store")
		close(release)
		return
	}
	next := size + uint64(r.IntN(3)) // growth or refresh
	if size == 0 {
		next = 1 + r.Uint64N(10)
	}
	ret, uerr := rn.W.Update(context.Background(), l.ID, size, l.Honest(0, next), l.Branches[0].Consistency(size, next))
	if uerr != nil {
		close(release)
		<-aDone
		run.Inconclusive(fmt.Sprintf("honest update %d->%d refused while a read was open: %v", size, next, uerr))
		return
	}
	type res struct {
		code int
		b    []byte
	}
	bch := make(chan res, 1)
	go func() { c, b := read(); bch <- res{c, b} }()
	var got res
	waited := false
	select {
	case got = <-bch:
	case <-time.After(300 * time.Millisecond):
		// B waits for A (it may legitimately queue behind it): let A go; B is judged on its bytes alone
		waited = true
	}
	close(release)
	if waited {
		select {
		case got = <-bch:
		case <-time.After(30 * time.Second):
			run.Inconclusive("watchdog: read B did not return after read A was released")
			return
		}
	}
	<-aDone
	run.Count("evaluations")
	run.Count("reads_issued_after_update_while_older_read_open")
	run.Distinct("nontrivial", fmt.Sprintf("overlap/http=%v/first=%v/refresh=%v/%s/queued_behind_A=%v", viaHTTP, firstUse, next == size, kind, waited))
	if got.code != 200 || !bytes.Equal(got.b, ret) {
		run.Violate(fmt.Sprintf("read_after_accept_differs;older_read_open;http=%v", viaHTTP), fmt.Sprintf("a read issued after an accepted update (%d->%d) returned status %d and bytes that are not the update's result, while an older read of the same log was still open", size, next, got.code), unit, map[string]any{"store": kind, "returned_by_update": string(ret), "read": string(got.b)})
	}
}

// overlapRestart: the same judgement as overlap, for the first read after a restart on a file-backed SQL
// store. The witness stores a checkpoint and is "restarted" (new handle, new persistence, new Witness on the
// same file, through the wrapping driver with two pooled connections so that the paused reader does not keep
// the writer out). Read A is paused inside the driver right after its result set was closed - its SELECT is
// complete and holds no lock, but the storage layer has not returned yet. An update is accepted; read B,
// issued afterwards (and again after A was released), must return the update's bytes.
func overlapRestart(run *ev.Run, unit int64, r *rand.Rand, dir string) {
	u := gen.NewUniverse(r, gen.Opts{NLogs: 1, MaxSize: 30, Branches: 1})
	st, err := wit.NewStore("sqlfile", dir)
	if err != nil {
		run.Inconclusive(err.Error())
		return
	}
	keys, _ := wit.NewWitKeys(r, []bool{false, true}, true)
	rn, err := wit.NewRunner(u, keys, st, nil)
	if err != nil {
		st.Close()
		run.Inconclusive(err.Error())
		return
	}
	l := u.Logs[0]
	size := 1 + r.Uint64N(10)
	if _, err := rn.W.Update(context.Background(), l.ID, 0, l.Honest(0, size), nil); err != nil {
		st.Close()
		run.Inconclusive("first update refused: " + err.Error())
		return
	}
	path := st.Path
	st.Close()
	// restart
	plan := &seams.SQLPlan{}
	db := seams.OpenVSQLite(path, plan)
	db.SetMaxOpenConns(2)
	st2 := &wit.Store{Kind: "sqlfile", P: psql.NewPersistence(db), DB: db, Path: path}
	defer st2.Close()
	rn2, err := wit.NewRunner(u, keys, st2, nil)
	if err != nil {
		run.Inconclusive(err.Error())
		return
	}
	paused, release := make(chan struct{}), make(chan struct{})
	var once sync.Once
	plan.AfterRowsClose = func() {
		first := false
		once.Do(func() { first = true })
		if first {
			close(paused)
			<-release
		}
	}
	aDone := make(chan struct{})
	go func() { _, _ = rn2.W.GetCheckpoint(l.ID); close(aDone) }()
	select {
	case <-paused:
	case <-aDone:
		run.Count("cold_reader_not_paused")
		return
	case <-time.After(20 * time.Second):
		close(release)
		run.Inconclusive("watchdog: the cold read never reached the store")
		return
	}
	next := size + uint64(r.IntN(3))
	var ret []byte
	var uerr error
	uDone := make(chan struct{})
	go func() {
		ret, uerr = rn2.W.Update(context.Background(), l.ID, size, l.Honest(0, next), l.Branches[0].Consistency(size, next))
		close(uDone)
	}()
	select {
	case <-uDone:
	case <-time.After(8 * time.Second):
		// the update queues behind the paused reader on this build: not the situation under test
		close(release)
		<-uDone
		<-aDone
		run.Count("update_queued_behind_cold_reader")
		return
	}
	if uerr != nil {
		close(release)
		<-aDone
		run.Count("update_refused_while_cold_reader_open")
		return
	}
	close(release)
	<-aDone
	got, gerr := rn2.W.GetCheckpoint(l.ID)
	run.Count("evaluations")
	run.Count("reads_after_update_with_cold_reader_open")
	run.Distinct("nontrivial", fmt.Sprintf("overlap_restart/refresh=%v", next == size))
	if gerr != nil || !bytes.Equal(got, ret) {
		run.Violate("read_after_accept_differs;cold_reader_open_after_restart", fmt.Sprintf("after a restart, a read that began before an accepted update (%d->%d) and finished after it made a later read return other bytes than the update returned (err=%v)", size, next, gerr), unit, map[string]any{"returned_by_update": string(ret), "read": string(got)})
	}
}
