// Package xcheck holds the second, separately written verifier
// (golang.org/x/mod/sumdb/tlog) used to cross-check kit/reftree. A
// disagreement between the two is a harness error, never a verdict.
package xcheck

import (
	"fmt"
	"math/rand/v2"

	"github.com/transparency-dev/witness/internal/verif/kit/reftree"
	"golang.org/x/mod/sumdb/tlog"
)

// TlogVerify checks a consistency proof with tlog.CheckTree (0 < m < n < 2^62, 32-byte hashes).
func TlogVerify(m, n uint64, root1, root2 []byte, proof [][]byte) bool {
	if len(root1) != 32 || len(root2) != 32 || m == 0 || m >= n || n >= 1<<62 {
		return false
	}
	p := make(tlog.TreeProof, len(proof))
	for i, h := range proof {
		if len(h) != 32 {
			return false
		}
		copy(p[i][:], h)
	}
	var h1, h2 tlog.Hash
	copy(h1[:], root1)
	copy(h2[:], root2)
	return tlog.CheckTree(p, int64(n), h2, int64(m), h1) == nil
}

// SelfCheck compares reftree's prover and verifier with tlog on random pairs
// and on corrupted proofs. It returns an error on any disagreement.
func SelfCheck(seed uint64, n int) error {
	r := rand.New(rand.NewPCG(seed, 77))
	for i := 0; i < n; i++ {
		t := &reftree.Tree{Seed: r.Uint64(), TagA: 1, TagB: 2, Fork: ^uint64(0)}
		var m, k uint64
		if i%4 == 3 {
			t.Uniform = true
			t.Fork = 1 + r.Uint64N(1<<40)
			k = 2 + r.Uint64N(1<<45)
		} else {
			k = 2 + r.Uint64N(300)
		}
		m = 1 + r.Uint64N(k-1)
		r1, r2 := t.Root(m), t.Root(k)
		p := t.Consistency(m, k)
		a, b := reftree.VerifyConsistency(m, k, r1[:], r2[:], p), TlogVerify(m, k, r1[:], r2[:], p)
		if !a || !b {
			return fmt.Errorf("honest proof %d->%d: reftree=%v tlog=%v", m, k, a, b)
		}
		// corrupted variants must be judged alike
		q := make([][]byte, len(p))
		for j := range p {
			q[j] = append([]byte{}, p[j]...)
		}
		switch r.IntN(4) {
		case 0:
			if len(q) > 0 {
				q[r.IntN(len(q))][r.IntN(32)] ^= 1
			}
		case 1:
			if len(q) > 0 {
				q = q[1:]
			}
		case 2:
			q = append(q, make([]byte, 32))
		case 3:
			r2[0] ^= 1
		}
		a, b = reftree.VerifyConsistency(m, k, r1[:], r2[:], q), TlogVerify(m, k, r1[:], r2[:], q)
		if a != b {
			return fmt.Errorf("corrupted proof %d->%d: reftree=%v tlog=%v", m, k, a, b)
		}
	}
	return nil
}
