// Package refnote is a small signed-note reader written from
// c2sp.org/signed-note and c2sp.org/tlog-cosignature. It deliberately has no
// limit on the number of signature lines and no verifier registry, so it can
// describe notes that golang.org/x/mod/sumdb/note refuses to open.
package refnote

import (
	"bytes"
	"crypto/ed25519"
	"crypto/sha256"
	"encoding/base64"
	"encoding/binary"
	"errors"
	"fmt"
	"strconv"
	"strings"
)

// Sig is one signature line "— name base64(keyhash||sig)".
type Sig struct {
	Name   string
	Hash   uint32
	Raw    []byte // signature bytes after the 4-byte key hash
	Base64 string
	Line   string // the whole line without the trailing newline
}

// Note is a parsed (not verified) note.
type Note struct {
	Text string // including the final newline
	Sigs []Sig
}

var sigPrefix = "— "

// Parse splits msg into text and signature lines. It checks only the
// structure: text ends in newline, blank line, at least one signature line,
// every signature line well-formed.
func Parse(msg []byte) (*Note, error) {
	split := bytes.LastIndex(msg, []byte("\n\n"))
	if split < 0 {
		return nil, errors.New("no blank line")
	}
	text, sigs := msg[:split+1], msg[split+2:]
	if len(sigs) == 0 || sigs[len(sigs)-1] != '\n' {
		return nil, errors.New("signature block empty or unterminated")
	}
	n := &Note{Text: string(text)}
	for _, line := range strings.Split(strings.TrimSuffix(string(sigs), "\n"), "\n") {
		if !strings.HasPrefix(line, sigPrefix) {
			return nil, fmt.Errorf("bad signature line %q", line)
		}
		rest := line[len(sigPrefix):]
		i := strings.IndexByte(rest, ' ')
		if i <= 0 {
			return nil, fmt.Errorf("bad signature line %q", line)
		}
		name, b64 := rest[:i], rest[i+1:]
		raw, err := base64.StdEncoding.DecodeString(b64)
		if err != nil || len(raw) < 5 {
			return nil, fmt.Errorf("bad signature base64 in %q", line)
		}
		n.Sigs = append(n.Sigs, Sig{Name: name, Hash: binary.BigEndian.Uint32(raw), Raw: raw[4:], Base64: b64, Line: line})
	}
	return n, nil
}

// Key is a public key with its note identity.
type Key struct {
	Name string
	Hash uint32
	Pub  ed25519.PublicKey
	// CosigV1 selects the cosignature/v1 scheme (timestamped); otherwise plain Ed25519.
	CosigV1 bool
}

// KeyHash computes the note key hash for (name, algorithm byte, public key).
func KeyHash(name string, alg byte, pub []byte) uint32 {
	h := sha256.New()
	h.Write([]byte(name))
	h.Write([]byte("\n"))
	h.Write([]byte{alg})
	h.Write(pub)
	return binary.BigEndian.Uint32(h.Sum(nil))
}

// KeyFromVkey parses "name+hash+base64(alg||pub)" for Ed25519 keys and
// returns the key for the requested scheme (the same key material gives a
// different key hash under cosignature/v1).
func KeyFromVkey(vkey string, cosig bool) (Key, error) {
	parts := strings.SplitN(vkey, "+", 3)
	if len(parts) != 3 {
		return Key{}, errors.New("vkey needs 3 parts")
	}
	kb, err := base64.StdEncoding.DecodeString(parts[2])
	if err != nil || len(kb) != 33 || kb[0] != 1 {
		return Key{}, errors.New("vkey not ed25519")
	}
	alg := byte(1)
	if cosig {
		alg = 4
	}
	return Key{Name: parts[0], Hash: KeyHash(parts[0], alg, kb[1:]), Pub: ed25519.PublicKey(kb[1:]), CosigV1: cosig}, nil
}

// Verify reports whether sig is a valid signature over text by k.
// For cosignature/v1 it also returns the timestamp.
func (k Key) Verify(text string, s Sig) (ok bool, ts uint64) {
	if s.Name != k.Name || s.Hash != k.Hash {
		return false, 0
	}
	if !k.CosigV1 {
		return len(s.Raw) == ed25519.SignatureSize && ed25519.Verify(k.Pub, []byte(text), s.Raw), 0
	}
	if len(s.Raw) != 8+ed25519.SignatureSize {
		return false, 0
	}
	ts = binary.BigEndian.Uint64(s.Raw)
	m := "cosignature/v1\ntime " + strconv.FormatUint(ts, 10) + "\n" + text
	return ed25519.Verify(k.Pub, []byte(m), s.Raw[8:]), ts
}

// ValidSigs returns the signature lines of n by k that verify, and the number
// of lines that carry k's identity at all.
func (k Key) ValidSigs(n *Note) (valid []Sig, ts []uint64, lines int) {
	for _, s := range n.Sigs {
		if s.Name == k.Name && s.Hash == k.Hash {
			lines++
			if ok, t := k.Verify(n.Text, s); ok {
				valid = append(valid, s)
				ts = append(ts, t)
			}
		}
	}
	return
}

// Checkpoint is the body of a checkpoint note.
type Checkpoint struct {
	Origin string
	Size   uint64
	Root   []byte
	Rest   string
}

// ParseCheckpoint reads the three mandatory lines of a checkpoint body.
func ParseCheckpoint(text string) (*Checkpoint, error) {
	l := strings.SplitN(text, "\n", 4)
	if len(l) < 4 {
		return nil, errors.New("too few lines")
	}
	if l[0] == "" {
		return nil, errors.New("empty origin")
	}
	size, err := strconv.ParseUint(l[1], 10, 64)
	if err != nil {
		return nil, err
	}
	root, err := base64.StdEncoding.DecodeString(l[2])
	if err != nil {
		return nil, err
	}
	return &Checkpoint{Origin: l[0], Size: size, Root: root, Rest: l[3]}, nil
}

// Body formats a checkpoint body with optional extension lines (each without newline).
func Body(origin string, size uint64, root []byte, ext ...string) string {
	var b strings.Builder
	b.WriteString(origin)
	b.WriteByte('\n')
	b.WriteString(strconv.FormatUint(size, 10))
	b.WriteByte('\n')
	b.WriteString(base64.StdEncoding.EncodeToString(root))
	b.WriteByte('\n')
	for _, e := range ext {
		b.WriteString(e)
		b.WriteByte('\n')
	}
	return b.String()
}

// LogID is the witness's identifier for an origin: hex(SHA-256("o:"+origin)),
// written here from the format description rather than imported.
func LogID(origin string) string {
	s := sha256.Sum256([]byte("o:" + origin))
	return fmt.Sprintf("%x", s[:])
}
