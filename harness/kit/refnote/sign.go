package refnote

import (
	"crypto/ed25519"
	"crypto/sha256"
	"encoding/base64"
	"encoding/binary"
	"fmt"
	"strconv"
	"sync"
)

// SignKey is an Ed25519 note key owned by the harness. Every text it signs is
// remembered: Signed(text) is the harness's definition of "authentic under
// this key".
type SignKey struct {
	Name string
	Priv ed25519.PrivateKey
	Pub  ed25519.PublicKey

	mu     sync.Mutex
	signed map[[32]byte]struct{}
}

// NewSignKey derives a key deterministically from seed bytes.
func NewSignKey(name string, seed [32]byte) *SignKey {
	priv := ed25519.NewKeyFromSeed(seed[:])
	return &SignKey{Name: name, Priv: priv, Pub: priv.Public().(ed25519.PublicKey), signed: map[[32]byte]struct{}{}}
}

// Key returns the verification identity for the plain or cosignature/v1 scheme.
func (k *SignKey) Key(cosig bool) Key {
	alg := byte(1)
	if cosig {
		alg = 4
	}
	return Key{Name: k.Name, Hash: KeyHash(k.Name, alg, k.Pub), Pub: k.Pub, CosigV1: cosig}
}

// Vkey is the note verifier string "name+hash+base64(0x01||pub)".
func (k *SignKey) Vkey() string {
	return fmt.Sprintf("%s+%08x+%s", k.Name, KeyHash(k.Name, 1, k.Pub), base64.StdEncoding.EncodeToString(append([]byte{1}, k.Pub...)))
}

// Skey is the note signer string "PRIVATE+KEY+name+hash+base64(0x01||seed)".
func (k *SignKey) Skey() string {
	return fmt.Sprintf("PRIVATE+KEY+%s+%08x+%s", k.Name, KeyHash(k.Name, 1, k.Pub), base64.StdEncoding.EncodeToString(append([]byte{1}, k.Priv.Seed()...)))
}

// SigLine signs text with plain Ed25519 and returns the signature line
// (without newline). The text is recorded as authentic.
func (k *SignKey) SigLine(text string) string {
	k.mu.Lock()
	k.signed[sha256.Sum256([]byte(text))] = struct{}{}
	k.mu.Unlock()
	sig := ed25519.Sign(k.Priv, []byte(text))
	var hb [4]byte
	binary.BigEndian.PutUint32(hb[:], KeyHash(k.Name, 1, k.Pub))
	return sigPrefix + k.Name + " " + base64.StdEncoding.EncodeToString(append(hb[:], sig...))
}

// CosigLine produces a cosignature/v1 line with the given timestamp.
func (k *SignKey) CosigLine(text string, ts uint64) string {
	m := "cosignature/v1\ntime " + strconv.FormatUint(ts, 10) + "\n" + text
	sig := ed25519.Sign(k.Priv, []byte(m))
	raw := make([]byte, 0, 4+8+64)
	raw = binary.BigEndian.AppendUint32(raw, KeyHash(k.Name, 4, k.Pub))
	raw = binary.BigEndian.AppendUint64(raw, ts)
	raw = append(raw, sig...)
	return sigPrefix + k.Name + " " + base64.StdEncoding.EncodeToString(raw)
}

// Signed reports whether text was ever signed by this key (by SigLine).
func (k *SignKey) Signed(text string) bool {
	k.mu.Lock()
	defer k.mu.Unlock()
	_, ok := k.signed[sha256.Sum256([]byte(text))]
	return ok
}

// Note assembles text + blank line + signature lines.
func Assemble(text string, sigLines ...string) []byte {
	b := []byte(text)
	b = append(b, '\n')
	for _, l := range sigLines {
		b = append(b, l...)
		b = append(b, '\n')
	}
	return b
}
