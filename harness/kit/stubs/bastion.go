package stubs

import (
	"bytes"
	"context"
	"crypto/ecdsa"
	"crypto/ed25519"
	"crypto/elliptic"
	crand "crypto/rand"
	"crypto/tls"
	"crypto/x509"
	"crypto/x509/pkix"
	"encoding/pem"
	"fmt"
	"io"
	"math/big"
	"net"
	"net/http"
	"os"
	"path/filepath"
	"time"

	"golang.org/x/net/http2"
)

// BastionTLS is the stub bastion's certificate; CAFile/EmptyDir are what a process must have in
// SSL_CERT_FILE / SSL_CERT_DIR to trust it.
type BastionTLS struct {
	Cert     tls.Certificate
	CAFile   string
	EmptyDir string
}

// NewBastionTLS creates a self-signed certificate for localhost/127.0.0.1 and writes its PEM to dir.
func NewBastionTLS(dir string) (*BastionTLS, error) {
	key, err := ecdsa.GenerateKey(elliptic.P256(), crand.Reader)
	if err != nil {
		return nil, err
	}
	tmpl := &x509.Certificate{
		SerialNumber: big.NewInt(7), Subject: pkix.Name{CommonName: "verif stub bastion"},
		NotBefore: time.Now().Add(-time.Hour), NotAfter: time.Now().Add(24 * time.Hour),
		KeyUsage: x509.KeyUsageDigitalSignature | x509.KeyUsageCertSign, ExtKeyUsage: []x509.ExtKeyUsage{x509.ExtKeyUsageServerAuth},
		IsCA: true, BasicConstraintsValid: true,
		DNSNames: []string{"localhost"}, IPAddresses: []net.IP{net.ParseIP("127.0.0.1"), net.ParseIP("::1")},
	}
	der, err := x509.CreateCertificate(crand.Reader, tmpl, tmpl, &key.PublicKey, key)
	if err != nil {
		return nil, err
	}
	p := filepath.Join(dir, "stub-bastion-ca.pem")
	if err := os.WriteFile(p, pem.EncodeToMemory(&pem.Block{Type: "CERTIFICATE", Bytes: der}), 0o644); err != nil {
		return nil, err
	}
	empty := filepath.Join(dir, "no-certs")
	_ = os.MkdirAll(empty, 0o755)
	return &BastionTLS{Cert: tls.Certificate{Certificate: [][]byte{der}, PrivateKey: key}, CAFile: p, EmptyDir: empty}, nil
}

// Bastion is a stub bastion: a TLS 1.3 listener (ALPN bastion/0, client certificate required) that,
// once a backend has connected, speaks HTTP/2 as the CLIENT over the accepted connection.
type Bastion struct {
	ln net.Listener
}

// ListenBastion opens the listener on a free localhost port.
func ListenBastion(t *BastionTLS) (*Bastion, error) {
	ln, err := tls.Listen("tcp", "127.0.0.1:0", &tls.Config{Certificates: []tls.Certificate{t.Cert}, MinVersion: tls.VersionTLS13, NextProtos: []string{"bastion/0"}, ClientAuth: tls.RequireAnyClientCert})
	if err != nil {
		return nil, err
	}
	return &Bastion{ln: ln}, nil
}

// Addr is host:port as the backend must dial it (by name, so the certificate's DNS SAN applies).
func (b *Bastion) Addr() string {
	_, port, _ := net.SplitHostPort(b.ln.Addr().String())
	return "localhost:" + port
}

func (b *Bastion) Close() { b.ln.Close() }

// Backend is one accepted reverse connection.
type Backend struct {
	Conn  *tls.Conn
	State tls.ConnectionState
	cc    *http2.ClientConn
}

// Accept waits for a backend to connect and completes the handshake.
func (b *Bastion) Accept(limit time.Duration) (*Backend, error) {
	type acc struct {
		c   net.Conn
		err error
	}
	ch := make(chan acc, 1)
	go func() { c, err := b.ln.Accept(); ch <- acc{c, err} }()
	select {
	case a := <-ch:
		if a.err != nil {
			return nil, a.err
		}
		conn := a.c.(*tls.Conn)
		ctx, cancel := context.WithTimeout(context.Background(), 20*time.Second)
		defer cancel()
		if err := conn.HandshakeContext(ctx); err != nil {
			return nil, fmt.Errorf("handshake: %w", err)
		}
		cc, err := (&http2.Transport{}).NewClientConn(conn)
		if err != nil {
			return nil, err
		}
		return &Backend{Conn: conn, State: conn.ConnectionState(), cc: cc}, nil
	case <-time.After(limit):
		return nil, fmt.Errorf("no backend connected within %v", limit)
	}
}

// ClientKeyIs reports whether the backend's client certificate carries the given Ed25519 key.
func (k *Backend) ClientKeyIs(pub ed25519.PublicKey) bool {
	if len(k.State.PeerCertificates) != 1 {
		return false
	}
	pk, ok := k.State.PeerCertificates[0].PublicKey.(ed25519.PublicKey)
	return ok && bytes.Equal(pk, pub)
}

// Post sends one add-checkpoint request over the reverse connection.
func (k *Backend) Post(body []byte, limit time.Duration) (int, string, string, error) {
	req, _ := http.NewRequest(http.MethodPost, "https://backend.invalid/add-checkpoint", bytes.NewReader(body))
	ctx, cancel := context.WithTimeout(context.Background(), limit)
	defer cancel()
	resp, err := k.cc.RoundTrip(req.WithContext(ctx))
	if err != nil {
		return -1, "", "", err
	}
	defer resp.Body.Close()
	rb, _ := io.ReadAll(resp.Body)
	return resp.StatusCode, resp.Header.Get("Content-Type"), string(rb), nil
}

// Close closes the stub's side of the reverse connection.
func (k *Backend) Close() {
	k.cc.Close()
	k.Conn.Close()
}
