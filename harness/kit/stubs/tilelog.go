// Package stubs holds local stand-ins for the services the witness talks to.
package stubs

import (
	"bytes"
	"fmt"
	"io"
	"net/http"
	"strconv"
	"strings"
	"sync"

	"github.com/transparency-dev/witness/internal/verif/kit/refnote"
	"github.com/transparency-dev/witness/internal/verif/kit/reftree"
)

// TileLog serves any prefix of a generated tree in the SumDB layout
// (/latest, /tile/8/<L>/<N>[.p/<W>]) and in the tlog-tiles layout
// (/checkpoint, /tile/<L>/<N>[.p/<W>]), and can switch to a fork on command.
// Tile bytes are the concatenated hashes of the tile's bottom row, computed
// from kit/reftree directly.
type TileLog struct {
	Origin string
	Key    *refnote.SignKey
	SumDB  bool

	mu       sync.Mutex
	tree     *reftree.Tree
	size     uint64
	fetches  int // latest/checkpoint fetches answered
	notFound int
	other    int
	hold     bool // answer 503 to everything (log unavailable)
	hangTile int  // > 0: the n-th tile request from now is accepted and never answered (until the client gives up)
	hung     int
	// damageFirst: the first 200 answer to each complete (256-wide) tile carries one flipped bit; every
	// later answer to the same path is correct (a log that served one bad response and recovered)
	damageFirst bool
	served      map[string]bool
	damaged     int
}

// DamageFirstFull makes the first answer to every complete tile wrong by one bit (later answers are correct).
func (l *TileLog) DamageFirstFull(on bool) {
	l.mu.Lock()
	l.damageFirst, l.served = on, map[string]bool{}
	l.mu.Unlock()
}

// SetKey changes the key the log signs its checkpoints with.
func (l *TileLog) SetKey(k *refnote.SignKey) { l.mu.Lock(); l.Key = k; l.mu.Unlock() }

// Damaged reports how many damaged tile answers were served.
func (l *TileLog) Damaged() int { l.mu.Lock(); defer l.mu.Unlock(); return l.damaged }

// HangTile makes the n-th tile request from now (n >= 1) hang until its request context ends.
func (l *TileLog) HangTile(n int) { l.mu.Lock(); l.hangTile = n; l.mu.Unlock() }

// Hung reports how many tile requests were left hanging so far.
func (l *TileLog) Hung() int { l.mu.Lock(); defer l.mu.Unlock(); return l.hung }

// NewTileLog creates a stub log publishing size 0 of tree t.
func NewTileLog(origin string, key *refnote.SignKey, t *reftree.Tree, sumdb bool) *TileLog {
	return &TileLog{Origin: origin, Key: key, tree: t, SumDB: sumdb}
}

// Publish makes the log serve size n of tree t (t == nil keeps the current tree).
func (l *TileLog) Publish(t *reftree.Tree, n uint64) {
	l.mu.Lock()
	if t != nil {
		l.tree = t
	}
	l.size = n
	l.mu.Unlock()
}

// Fetches returns how many latest/checkpoint requests have been answered.
func (l *TileLog) Fetches() int { l.mu.Lock(); defer l.mu.Unlock(); return l.fetches }

// Stats returns (checkpoint fetches, tile 404s, other requests).
func (l *TileLog) Stats() (int, int, int) {
	l.mu.Lock()
	defer l.mu.Unlock()
	return l.fetches, l.notFound, l.other
}

// Checkpoint returns the currently published signed checkpoint and its body text.
func (l *TileLog) Checkpoint() ([]byte, string) {
	l.mu.Lock()
	defer l.mu.Unlock()
	return l.checkpointLocked()
}

func (l *TileLog) checkpointLocked() ([]byte, string) {
	rt := l.tree.Root(l.size)
	text := refnote.Body(l.Origin, l.size, rt[:])
	return refnote.Assemble(text, l.Key.SigLine(text)), text
}

// Current returns the published tree and size.
func (l *TileLog) Current() (*reftree.Tree, uint64) {
	l.mu.Lock()
	defer l.mu.Unlock()
	return l.tree, l.size
}

func parseN(parts []string) (uint64, int, bool) {
	// parts: x001 x234 067[.p] [W]
	w := 256
	if len(parts) >= 2 && strings.HasSuffix(parts[len(parts)-2], ".p") {
		v, err := strconv.Atoi(parts[len(parts)-1])
		if err != nil || v < 1 || v > 255 {
			return 0, 0, false
		}
		w = v
		parts = parts[:len(parts)-1]
		parts[len(parts)-1] = strings.TrimSuffix(parts[len(parts)-1], ".p")
	}
	var n uint64
	for i, p := range parts {
		last := i == len(parts)-1
		if !last {
			if !strings.HasPrefix(p, "x") {
				return 0, 0, false
			}
			p = p[1:]
		}
		if len(p) != 3 {
			return 0, 0, false
		}
		v, err := strconv.Atoi(p)
		if err != nil {
			return 0, 0, false
		}
		n = n*1000 + uint64(v)
	}
	return n, w, true
}

// RoundTrip serves one request.
func (l *TileLog) RoundTrip(q *http.Request) (*http.Response, error) {
	mk := func(code int, b []byte) (*http.Response, error) {
		return &http.Response{StatusCode: code, Status: fmt.Sprintf("%d stub", code), Body: io.NopCloser(bytes.NewReader(b)), Header: http.Header{}, ContentLength: int64(len(b)), Request: q}, nil
	}
	l.mu.Lock()
	defer l.mu.Unlock()
	if l.hold {
		return mk(503, nil)
	}
	p := strings.Trim(q.URL.Path, "/")
	if (l.SumDB && p == "latest") || (!l.SumDB && p == "checkpoint") {
		cp, _ := l.checkpointLocked()
		l.fetches++
		return mk(200, cp)
	}
	parts := strings.Split(p, "/")
	if len(parts) < 3 || parts[0] != "tile" {
		l.other++
		return mk(404, nil)
	}
	if l.hangTile > 0 {
		l.hangTile--
		if l.hangTile > 0 {
			goto serve
		}
		l.hung++
		l.mu.Unlock()
		<-q.Context().Done()
		l.mu.Lock()
		return nil, q.Context().Err()
	}
serve:
	parts = parts[1:]
	if l.SumDB {
		if parts[0] != "8" {
			l.other++
			return mk(404, nil)
		}
		parts = parts[1:]
	}
	lvl, err := strconv.Atoi(parts[0])
	if err != nil || lvl < 0 || lvl > 7 {
		l.other++
		return mk(404, nil)
	}
	n, w, ok := parseN(parts[1:])
	if !ok {
		l.other++
		return mk(404, nil)
	}
	avail := l.size >> (8 * uint(lvl))
	if n*256+uint64(w) > avail {
		l.notFound++
		return mk(404, nil)
	}
	var b []byte
	for i := 0; i < w; i++ {
		h := l.tree.Complete(uint8(8*lvl), n*256+uint64(i))
		b = append(b, h[:]...)
	}
	if l.damageFirst && w == 256 && !l.served[p] {
		l.served[p] = true
		l.damaged++
		b[len(b)/2] ^= 0x10
	}
	return mk(200, b)
}

// Hold makes the log answer 503 to everything (true) or work normally (false).
func (l *TileLog) Hold(h bool) { l.mu.Lock(); l.hold = h; l.mu.Unlock() }

// HostMux dispatches requests to stubs by URL host.
type HostMux struct {
	mu    sync.Mutex
	hosts map[string]http.RoundTripper
}

func NewHostMux() *HostMux { return &HostMux{hosts: map[string]http.RoundTripper{}} }

func (m *HostMux) Handle(host string, rt http.RoundTripper) {
	m.mu.Lock()
	m.hosts[host] = rt
	m.mu.Unlock()
}

func (m *HostMux) RoundTrip(q *http.Request) (*http.Response, error) {
	m.mu.Lock()
	rt := m.hosts[q.URL.Host]
	m.mu.Unlock()
	if rt == nil {
		return nil, fmt.Errorf("stub: no such host %q", q.URL.Host)
	}
	return rt.RoundTrip(q)
}
