// Package wit builds real witnesses (the code under test) for generated
// universes and runs generated requests through them while taking the
// before/after snapshots the monitors judge. This is the only kit package
// that imports the witness module.
package wit

import (
	"bytes"
	"context"
	"database/sql"
	"errors"
	"flag"
	"fmt"
	"io"
	"math/rand/v2"
	"os"
	"path/filepath"
	"sort"
	"sync/atomic"
	"time"

	_ "github.com/mattn/go-sqlite3"
	f_note "github.com/transparency-dev/formats/note"
	"github.com/transparency-dev/witness/internal/persistence"
	"github.com/transparency-dev/witness/internal/persistence/inmemory"
	psql "github.com/transparency-dev/witness/internal/persistence/sql"
	"github.com/transparency-dev/witness/internal/verif/kit/ev"
	"github.com/transparency-dev/witness/internal/verif/kit/gen"
	"github.com/transparency-dev/witness/internal/verif/kit/refnote"
	"github.com/transparency-dev/witness/internal/verif/kit/refwitness"
	"github.com/transparency-dev/witness/internal/witness"
	"github.com/transparency-dev/witness/monitoring"
	wprom "github.com/transparency-dev/witness/monitoring/prometheus"
	"github.com/transparency-dev/witness/omniwitness"
	"golang.org/x/mod/sumdb/note"
	"google.golang.org/grpc/codes"
	"google.golang.org/grpc/status"
	"k8s.io/klog/v2"
)

func init() {
	// the code under test logs through klog; keep the harness output readable
	Quiet()
}

// Quiet silences klog (the code under test logs every refusal).
func Quiet() {
	fs := flag.NewFlagSet("klog", flag.ContinueOnError)
	klog.InitFlags(fs)
	_ = fs.Set("logtostderr", "false")
	_ = fs.Set("alsologtostderr", "false")
	_ = fs.Set("stderrthreshold", "FATAL")
	klog.SetOutput(io.Discard)
}

// StoreKinds are the storages every history-type check runs on.
var StoreKinds = []string{"mem", "sqlmem", "sqlfile"}

var fileN atomic.Int64

// Store is a storage opened exactly as cmd/omniwitness does.
type Store struct {
	Kind string
	P    persistence.LogStatePersistence
	DB   *sql.DB // nil for mem
	Path string
	// Wedged: a call on this store never returned; the handle is never closed (sql.DB.Close would wait for it).
	Wedged atomic.Bool
}

// NewStore opens a fresh store of the given kind; dir is used for sqlfile.
func NewStore(kind, dir string) (*Store, error) {
	switch kind {
	case "mem":
		return &Store{Kind: kind, P: inmemory.NewPersistence()}, nil
	case "sqlmem", "sqlfile":
		dsn := ":memory:"
		path := ""
		if kind == "sqlfile" {
			path = filepath.Join(dir, fmt.Sprintf("w%d-%d.db", os.Getpid(), fileN.Add(1))) // several worker processes may share one scratch directory
			dsn = path
		}
		db, err := sql.Open("sqlite3", dsn)
		if err != nil {
			return nil, err
		}
		db.SetMaxOpenConns(1)
		return &Store{Kind: kind, P: psql.NewPersistence(db), DB: db, Path: path}, nil
	}
	return nil, fmt.Errorf("unknown store kind %q", kind)
}

func (s *Store) Close() {
	if s.DB != nil && !s.Wedged.Load() {
		s.DB.Close()
	}
}

// ErrWedged is the error of a guarded witness call that did not return.
var ErrWedged = errors.New("verif: the call did not return")

// WedgeAfter is how long a guarded call may run before the pool is inspected. The harnesses that use the
// guard have exactly one request in flight, so a call that waits for a database connection while every
// connection is in use can only be waiting for a transaction an EARLIER, finished request left open.
var WedgeAfter = 15 * time.Second

// WedgeHandler decides what a call that never returned means for the running check. proven: the pool
// inspection showed all connections in use and a queued waiter. The default makes the run inconclusive
// (the property at hand cannot be evaluated) and stops dispatching units; C08 replaces it, because there a
// witness that no longer accepts anything is the violation itself.
var WedgeHandler = func(desc string, proven bool) {
	if run := ev.Current(); run != nil {
		run.Inconclusive("a witness call never returned: " + desc)
		run.Abort()
	}
}

// Guarded runs f; if it does not return within WedgeAfter the store is marked wedged, the handler is
// told, and a description is returned (f keeps running in its goroutine).
func (s *Store) Guarded(f func()) string {
	done := make(chan struct{})
	go func() { f(); close(done) }()
	t := time.NewTimer(WedgeAfter)
	defer t.Stop()
	select {
	case <-done:
		return ""
	case <-t.C:
	}
	s.Wedged.Store(true)
	desc, proven := "no pool to inspect ("+s.Kind+" store)", false
	if s.DB != nil {
		st := s.DB.Stats()
		desc = fmt.Sprintf("pool: %d of %d connections in use, %d requests have queued for one", st.InUse, st.MaxOpenConnections, st.WaitCount)
		proven = st.MaxOpenConnections > 0 && st.InUse >= st.MaxOpenConnections && st.WaitCount > 0
	}
	WedgeHandler(desc, proven)
	return desc
}

// WitKeys is a witness key set with its reference-side identities.
type WitKeys struct {
	Signers []note.Signer
	Keys    []refnote.Key // same order as Signers
	Sign    []*refnote.SignKey
}

// NewWitKeys draws n witness keys; scheme[i] true = cosignature/v1.
// pair=true reproduces the production pair: both schemes from one key.
func NewWitKeys(r *rand.Rand, schemes []bool, pair bool) (*WitKeys, error) {
	wk := &WitKeys{}
	var last *refnote.SignKey
	for i, cosig := range schemes {
		var seed [32]byte
		for j := range seed {
			seed[j] = byte(r.Uint32())
		}
		sk := refnote.NewSignKey(fmt.Sprintf("witness%d.example", i), seed)
		if pair && last != nil && i > 0 && schemes[i] != schemes[i-1] && i%2 == 1 {
			sk = last
		}
		last = sk
		var s note.Signer
		var err error
		if cosig {
			s, err = f_note.NewSignerForCosignatureV1(sk.Skey())
		} else {
			s, err = note.NewSigner(sk.Skey())
		}
		if err != nil {
			return nil, err
		}
		wk.Signers = append(wk.Signers, s)
		wk.Keys = append(wk.Keys, sk.Key(cosig))
		wk.Sign = append(wk.Sign, sk)
	}
	return wk, nil
}

// KnownLogs builds the witness configuration for a universe through the real
// omniwitness.LogConfig.AsLogMap (verifier from the vkey string, RFC 6962 hasher,
// collision check), then files each entry under the universe's ID for that log
// (normally the same derived ID; hand-made IDs are re-keyed).
func KnownLogs(u *gen.Universe) (map[string]witness.LogInfo, error) {
	var cfg omniwitness.LogConfig
	for _, l := range u.Logs {
		cfg.Logs = append(cfg.Logs, omniwitness.LogInfo{Origin: l.Origin, PublicKey: l.Key.Vkey(), URL: "http://unused.invalid/", Feeder: omniwitness.None})
	}
	byDerived, err := cfg.AsLogMap()
	if err != nil {
		return nil, err
	}
	m := map[string]witness.LogInfo{}
	for _, l := range u.Logs {
		info, ok := byDerived[refnote.LogID(l.Origin)]
		if !ok {
			return nil, fmt.Errorf("AsLogMap has no entry under the derived ID of origin %q", l.Origin)
		}
		m[l.ID] = info
	}
	return m, nil
}

// EnsureMetrics installs a metric factory if none is set yet (process-wide, once).
func EnsureMetrics(mf monitoring.MetricFactory) {
	if mf == nil {
		mf = monitoring.InertMetricFactory{}
	}
	monitoring.SetMetricFactory(mf)
}

// ProdMetrics installs the Prometheus-backed factory exactly as cmd/omniwitness does by default
// (-metrics_listen defaults to :8081): counters then validate their label values, and a label that is
// not valid UTF-8 panics inside the request that incremented it.
func ProdMetrics() {
	monitoring.SetMetricFactory(wprom.MetricFactory{Prefix: "omniwitness_"})
}

// Snapshot is the observable state of a witness.
type Snapshot struct {
	Logs []string          // sorted GetLogs
	CP   map[string][]byte // per probed ID; nil = NotFound
	Err  map[string]string // per probed ID; non-NotFound read errors
}

func (a *Snapshot) Equal(b *Snapshot) bool {
	if len(a.Logs) != len(b.Logs) {
		return false
	}
	for i := range a.Logs {
		if a.Logs[i] != b.Logs[i] {
			return false
		}
	}
	if len(a.CP) != len(b.CP) {
		return false
	}
	for k, v := range a.CP {
		w, ok := b.CP[k]
		if !ok || !bytes.Equal(v, w) || (v == nil) != (w == nil) {
			return false
		}
	}
	for k, v := range a.Err {
		if b.Err[k] != v {
			return false
		}
	}
	return len(a.Err) == len(b.Err)
}

// Runner drives one real witness with generated requests.
type Runner struct {
	U      *gen.Universe
	W      *witness.Witness
	Store  *Store
	Keys   *WitKeys
	Probe  []string // IDs snapshotted: all configured + some unconfigured
	Model  map[string]refwitness.LogState
	Sess   map[int]*gen.Session
	RawSQL bool // additionally snapshot the table through the pool
	Pool   []gen.PoolEntry
}

// NewRunner creates a witness over a fresh store.
func NewRunner(u *gen.Universe, keys *WitKeys, st *Store, wrap func(persistence.LogStatePersistence) persistence.LogStatePersistence) (*Runner, error) {
	EnsureMetrics(nil)
	kl, err := KnownLogs(u)
	if err != nil {
		return nil, err
	}
	p := st.P
	if wrap != nil {
		p = wrap(p)
	}
	w, err := witness.New(witness.Opts{Persistence: p, Signers: keys.Signers, KnownLogs: kl})
	if err != nil {
		return nil, err
	}
	rn := &Runner{U: u, W: w, Store: st, Keys: keys, Model: map[string]refwitness.LogState{}, Sess: map[int]*gen.Session{}}
	for _, l := range u.Logs {
		rn.Probe = append(rn.Probe, l.ID)
		rn.Sess[l.Idx] = &gen.Session{WitnessSigners: len(keys.Signers), Pool: &rn.Pool}
	}
	rn.Probe = append(rn.Probe, "unconfigured-id", refnote.LogID("unconfigured origin"), u.Logs[0].Origin)
	return rn, nil
}

// Snap reads the observable state.
func (rn *Runner) Snap() *Snapshot {
	s := &Snapshot{CP: map[string][]byte{}, Err: map[string]string{}}
	logs, err := rn.W.GetLogs()
	if err != nil {
		s.Err["<logs>"] = err.Error()
	}
	sort.Strings(logs)
	s.Logs = logs
	for _, id := range rn.Probe {
		cp, err := rn.W.GetCheckpoint(id)
		if err != nil {
			if status.Code(err) != codes.NotFound {
				s.Err[id] = err.Error()
			}
			s.CP[id] = nil
			continue
		}
		if cp == nil {
			cp = []byte{}
		}
		s.CP[id] = cp
	}
	if rn.RawSQL && rn.Store.DB != nil {
		rows, err := rn.Store.DB.Query("SELECT logID, chkpt FROM chkpts ORDER BY logID")
		if err != nil {
			s.Err["<raw>"] = err.Error()
		} else {
			for rows.Next() {
				var id string
				var cp []byte
				if err := rows.Scan(&id, &cp); err == nil {
					if cp == nil {
						cp = []byte{}
					}
					s.CP["raw:"+id] = cp
				}
			}
			rows.Close()
		}
	}
	return s
}

// View derives the generator's view of log l from a snapshot.
func (rn *Runner) View(l *gen.Log, s *Snapshot) gen.View { return ViewOf(l, s) }

// ViewOf derives the generator's view of log l from a snapshot.
func ViewOf(l *gen.Log, s *Snapshot) gen.View {
	raw := s.CP[l.ID]
	if raw == nil {
		return gen.View{}
	}
	v := gen.View{Has: true, Raw: raw}
	if n, err := refnote.Parse(raw); err == nil {
		if cp, err := refnote.ParseCheckpoint(n.Text); err == nil {
			v.Size, v.Root = cp.Size, cp.Root
		}
	}
	return v
}

// Step is the record of one request put through the real witness.
type Step struct {
	Req       *gen.Request
	Ret       []byte
	Err       error
	Before    *Snapshot
	After     *Snapshot
	Known     bool
	Authentic bool
	Body      *refnote.Checkpoint
	Pre       refwitness.LogState
	Class     refwitness.Class
	OutClaim  bool
	Ambiguous bool
	// Wedged: the Update never returned (see Store.Guarded); Err is ErrWedged and After is Before.
	Wedged string
}

// Do runs one request and fills in the reference model's view of it.
// before may be nil (a snapshot is taken).
func (rn *Runner) Do(q *gen.Request, before *Snapshot) *Step { return rn.DoWith(q, before, nil) }

// DoWith is Do with a callback that runs right after Update returned (before the after-snapshot is read).
func (rn *Runner) DoWith(q *gen.Request, before *Snapshot, afterUpdate func()) *Step {
	if before == nil {
		before = rn.Snap()
	}
	st := &Step{Req: q, Before: before}
	// model side (refnote / refwitness only)
	_, st.Known = rn.logByID(q.LogID)
	if l, ok := rn.logByID(q.LogID); ok {
		st.Authentic, st.Body = l.Judge(q.CP)
	}
	st.Pre = rn.Model[q.LogID]
	mr := refwitness.Req{Known: st.Known, Authentic: st.Authentic, OldSize: q.OldSize, Proof: q.Proof}
	if st.Body != nil {
		mr.Size, mr.Root = st.Body.Size, st.Body.Root
	}
	var next refwitness.LogState
	st.Class, next = refwitness.Step(st.Pre, mr)
	st.OutClaim = refwitness.OutOfClaim(st.Pre, mr)
	st.Ambiguous = q.Ambiguous || (st.Authentic && (q.CPKind == "mutated" || q.CPKind == "garbage"))

	var ret []byte
	var uerr error
	if wd := rn.Store.Guarded(func() { ret, uerr = rn.W.Update(context.Background(), q.LogID, q.OldSize, q.CP, q.Proof) }); wd != "" {
		st.Wedged, st.Err, st.After = wd, ErrWedged, before
		if afterUpdate != nil {
			afterUpdate()
		}
		return st
	}
	st.Ret, st.Err = ret, uerr
	if afterUpdate != nil {
		afterUpdate()
	}
	// the read-back can be the first operation to meet a transaction the request left open
	if wd := rn.Store.Guarded(func() { st.After = rn.Snap() }); wd != "" {
		st.Wedged, st.After = "the read-back after the request never returned; "+wd, before
		return st
	}
	// The model follows the implementation's stored state (read back), not its
	// own prediction, so one divergence is reported once and not at every later step.
	if l, ok := rn.logByID(q.LogID); ok {
		v := rn.View(l, st.After)
		rn.Model[q.LogID] = refwitness.LogState{Has: v.Has, Size: v.Size, Root: v.Root}
		if st.Err == nil {
			rn.Sess[l.Idx].LastProof = q.Proof
			if len(rn.Pool) < 64 {
				rn.Pool = append(rn.Pool, gen.PoolEntry{Log: l.Idx, Raw: q.CP}, gen.PoolEntry{Log: l.Idx, Raw: st.Ret})
			}
		}
	}
	_ = next
	return st
}

func (rn *Runner) logByID(id string) (*gen.Log, bool) {
	for _, l := range rn.U.Logs {
		if l.ID == id {
			return l, true
		}
	}
	return nil, false
}

// LogByID exposes the lookup.
func (rn *Runner) LogByID(id string) (*gen.Log, bool) { return rn.logByID(id) }
