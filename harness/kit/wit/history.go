package wit

import (
	"errors"
	"fmt"
	"math/rand/v2"

	"github.com/transparency-dev/witness/internal/persistence"
	psql "github.com/transparency-dev/witness/internal/persistence/sql"
	"github.com/transparency-dev/witness/internal/verif/kit/gen"
	"github.com/transparency-dev/witness/internal/verif/kit/seams"
	"google.golang.org/grpc/codes"
	"google.golang.org/grpc/status"
)

// HistOpts configures one generated history against a fresh real witness.
type HistOpts struct {
	Gen       gen.Opts
	Store     string   // "" = drawn (mem 50%, sqlmem 35%, sqlfile 15%)
	Schemes   [][]bool // candidate witness key sets; nil = {legacy},{v1},{legacy+v1 pair}
	MinSteps  int
	MaxSteps  int
	FaultProb float64 // probability that a request runs with one injected storage fault
	// DriverFaults: SQL stores are opened through the wrapping driver and half of the injected faults are
	// driver-level (query / row fetch / exec / commit / rollback) instead of interface-level.
	DriverFaults bool
	RawSQL       bool
	Dir          string
}

// Hist is a running history.
type Hist struct {
	Rn    *Runner
	Hook  *seams.HookStore
	Kind  string
	Trace []string
	// FaultFired is set by Do when the injected fault of the current step was reached.
	FaultFired string
	// ClosedWithError: the write handle's Close was made to fail in this step (a fault the witness may ignore).
	ClosedWithError bool
	inUpdate        bool // driver faults only strike inside the request, never the harness's own snapshot reads
	plan            *seams.SQLPlan
}

// ReadFault runs fn while the next storage READ fails once: at the persistence interface (ReadOps or the
// reader's GetLatest) or, on SQL stores opened through the wrapping driver, at the driver (issuing the
// query or fetching the row). It reports the point that fired ("" if fn reached none).
func (h *Hist) ReadFault(r *rand.Rand, fn func()) string {
	ferr := faultErrs[r.IntN(len(faultErrs))]
	fired := ""
	if h.plan != nil && r.IntN(2) == 0 {
		dop := []string{seams.SQLQuery, seams.SQLNext}[r.IntN(2)]
		h.plan.SetHook(func(gotOp string, idx int, phase string) error {
			if fired == "" && gotOp == dop && phase == "before" {
				fired = "driver:" + dop
				return ferr
			}
			return nil
		})
		defer h.plan.SetHook(nil)
	} else {
		op := []string{seams.OpReadOps, seams.OpRGet}[r.IntN(2)]
		h.Hook.SetHook(func(gotOp, id string) error {
			if fired == "" && gotOp == op {
				fired = op
				return ferr
			}
			return nil
		})
		defer h.Hook.SetHook(nil)
	}
	fn()
	return fired
}

// DrawStore picks a store kind.
func DrawStore(r *rand.Rand) string {
	switch x := r.IntN(20); {
	case x < 10:
		return "mem"
	case x < 17:
		return "sqlmem"
	}
	return "sqlfile"
}

var faultErrs = []error{
	errors.New("injected: storage unavailable"),
	status.Error(codes.Internal, "injected internal"),
	status.Error(codes.Unavailable, "injected unavailable"),
	errors.New("injected: rpc error: code = NotFound desc = looks like NotFound but is a plain error"),
}

// Close releases the store.
func (h *Hist) Close() {
	if h != nil && h.Rn != nil {
		h.Rn.Store.Close()
	}
}

// RunHistory draws a universe, builds a real witness and feeds it generated
// requests; on is called after every request with the recorded step.
func RunHistory(r *rand.Rand, o HistOpts, on func(h *Hist, s *Step, i int)) (*Hist, error) {
	u := gen.NewUniverse(r, o.Gen)
	kind := o.Store
	if kind == "" {
		kind = DrawStore(r)
	}
	st, err := NewStore(kind, o.Dir)
	if err != nil {
		return nil, err
	}
	var plan *seams.SQLPlan
	if o.DriverFaults && st.DB != nil {
		// reopen the same kind of store through the wrapping driver
		dsn := ":memory:"
		if kind == "sqlfile" {
			dsn = st.Path
		}
		st.Close()
		plan = &seams.SQLPlan{}
		st.DB = seams.OpenVSQLite(dsn, plan)
		st.P = psql.NewPersistence(st.DB)
	}
	schemes := o.Schemes
	if schemes == nil {
		schemes = [][]bool{{false}, {true}, {false, true}}
	}
	sc := schemes[r.IntN(len(schemes))]
	keys, err := NewWitKeys(r, sc, len(sc) == 2 && r.IntN(2) == 0)
	if err != nil {
		st.Close()
		return nil, err
	}
	h := &Hist{Kind: kind, plan: plan}
	rn, err := NewRunner(u, keys, st, func(p persistence.LogStatePersistence) persistence.LogStatePersistence {
		h.Hook = seams.NewHookStore(p)
		return h.Hook
	})
	if err != nil {
		st.Close()
		return nil, err
	}
	rn.RawSQL = o.RawSQL
	h.Rn = rn
	snap := rn.Snap()
	n := o.MinSteps
	if o.MaxSteps > o.MinSteps {
		n += r.IntN(o.MaxSteps - o.MinSteps + 1)
	}
	for i := 0; i < n; i++ {
		l := u.Logs[r.IntN(len(u.Logs))]
		v := rn.View(l, snap)
		q := u.Next(r, l, v, rn.Sess[l.Idx])
		h.FaultFired = ""
		h.ClosedWithError = false
		if o.FaultProb > 0 && r.Float64() < o.FaultProb {
			ferr := faultErrs[r.IntN(len(faultErrs))]
			if plan != nil && r.IntN(2) == 0 {
				// driver level: fail the k-th matching driver operation of this request
				dop := []string{seams.SQLQuery, seams.SQLNext, seams.SQLExec, seams.SQLCommit, seams.SQLBegin}[r.IntN(5)]
				armed := true
				plan.SetHook(func(gotOp string, idx int, phase string) error {
					if armed && gotOp == dop && phase == "before" && h.inUpdate {
						armed = false
						h.FaultFired = "driver:" + dop
						return ferr
					}
					return nil
				})
			} else {
				op := []string{seams.OpWriteOps, seams.OpWGet, seams.OpWSet, seams.OpWClose}[r.IntN(4)]
				h.Hook.SetHook(func(gotOp, id string) error {
					if gotOp == op {
						h.FaultFired = op
						return ferr
					}
					return nil
				})
			}
		}
		h.inUpdate = true
		s := rn.DoWith(q, snap, func() { h.inUpdate = false })
		h.inUpdate = false
		h.Hook.SetHook(nil)
		if plan != nil {
			plan.SetHook(nil)
		}
		if h.FaultFired == seams.OpWClose {
			// the witness ignores the result of Close: the request's outcome is whatever it would have been.
			// Monitors still see the step (a refusal must change nothing, counters must be right).
			h.ClosedWithError = true
			h.FaultFired = ""
		}
		if h.FaultFired != "" {
			// the snapshot inside Do was taken through the faulty store only for ops
			// that are not hooked (reads), so it is valid; nothing to redo.
			s.Ambiguous = true
		}
		if s.Wedged != "" {
			h.Trace = append(h.Trace, fmt.Sprintf("%d: %s -> NEVER RETURNED (%s)", i, q, s.Wedged))
			return h, fmt.Errorf("%w: request %d of the history (%s)", ErrWedged, i, s.Wedged)
		}
		snap = s.After
		h.Trace = append(h.Trace, fmt.Sprintf("%d: %s fault=%q -> err=%v", i, q, h.FaultFired, s.Err))
		if len(h.Trace) > 70 {
			h.Trace = h.Trace[1:]
		}
		on(h, s, i)
	}
	return h, nil
}
