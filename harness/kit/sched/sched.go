// Package sched is a controlled scheduler for the real witness code: every
// storage operation (and every request invocation) is a yield point at which
// the calling task parks; a single scheduler goroutine releases exactly one
// parked task at a time, so an execution IS a sequence of scheduler choices
// and can be enumerated. Enabledness is observed on the real connection pool,
// not modelled.
package sched

import (
	"database/sql"
	"fmt"
	"runtime"
	"sync"
	"sync/atomic"
	"time"

	"github.com/transparency-dev/witness/internal/persistence"
)

func gid() uint64 {
	var b [64]byte
	n := runtime.Stack(b[:], false)
	// "goroutine 123 ["
	var id uint64
	for _, c := range b[len("goroutine "):n] {
		if c < '0' || c > '9' {
			break
		}
		id = id*10 + uint64(c-'0')
	}
	return id
}

// StuckAfter is how long the scheduler waits, when nothing else can run, before inspecting why no task comes back.
var StuckAfter = 5 * time.Second

// BlockedAfter is how long the scheduler waits for a released task to park again or finish before it
// considers the task blocked on something outside the storage layer (another request, say) and goes on
// scheduling the other tasks. The judgement only affects scheduling, never a verdict: a task that was
// merely slow simply runs concurrently with the next one, and its call/return interval stays a superset
// of the real one (the logical clock only moves forward).
var BlockedAfter = 250 * time.Millisecond

// Op is one operation of a task, bracketed by call/return events on the logical clock.
type Op struct {
	Run    func() any // performs the real call and returns its recorded output
	Input  any
	Call   int64
	Return int64
	Output any
	Done   bool
}

// Task is a sequence of operations executed by one goroutine.
type Task struct {
	ID      int
	Ops     []*Op
	resume  chan struct{}
	parked  string
	holdsTx bool
	done    bool
	blocked bool
}

type arrival struct {
	t    *Task
	op   string
	done bool
}

// Exec is one controlled execution.
type Exec struct {
	Tasks  []*Task
	DB     *sql.DB // nil: every operation is always enabled
	Choose func(step int, candidates []int, last int) int
	// Bound is the preemption bound (-1: unbounded).
	Bound int

	arrive chan arrival
	mu     sync.Mutex
	byGID  map[uint64]*Task
	clock  atomic.Int64

	// results
	Choices   []int
	Branching []int
	Trace     []string
	Deadlock  bool
	// Stuck is set when a released task did not come back; Deadlock tells whether that is a proven wedge.
	Stuck string
	Steps int
	// BlockedEvents counts how often a released task was judged blocked (see BlockedAfter).
	BlockedEvents int
}

// NewExec prepares an execution over the given tasks.
func NewExec(db *sql.DB, tasks ...*Task) *Exec {
	e := &Exec{Tasks: tasks, DB: db, Bound: -1, arrive: make(chan arrival), byGID: map[uint64]*Task{}}
	for i, t := range tasks {
		t.ID = i
		t.resume = make(chan struct{})
	}
	return e
}

func (e *Exec) current() *Task {
	g := gid()
	e.mu.Lock()
	defer e.mu.Unlock()
	return e.byGID[g]
}

// yield parks the calling task until the scheduler releases it.
func (e *Exec) yield(t *Task, op string) {
	e.arrive <- arrival{t: t, op: op}
	<-t.resume
}

func needsConn(op string) bool {
	return op == "writeops" || op == "r.getlatest" || op == "logs"
}

func (e *Exec) enabled(t *Task) bool {
	if e.DB == nil || !needsConn(t.parked) {
		return true
	}
	s := e.DB.Stats()
	return s.InUse < s.MaxOpenConnections || s.MaxOpenConnections == 0
}

// Run executes the tasks under the scheduler. It returns when every task has
// finished or when no parked task is enabled (Deadlock).
func (e *Exec) Run() {
	for _, t := range e.Tasks {
		t := t
		go func() {
			e.mu.Lock()
			e.byGID[gid()] = t
			e.mu.Unlock()
			for _, op := range t.Ops {
				e.yield(t, "invoke")
				op.Call = e.clock.Load()
				op.Output = op.Run()
				op.Return = e.clock.Load() + 1
				op.Done = true
			}
			e.arrive <- arrival{t: t, done: true}
		}()
	}
	live := len(e.Tasks)
	for i := 0; i < live; i++ {
		a := <-e.arrive
		a.t.parked = a.op
	}
	last, preempt := -1, 0
	note := func(a arrival) {
		a.t.blocked = false
		if a.done {
			a.t.done = true
		} else {
			a.t.parked = a.op
		}
	}
	selfDeadlock := func() bool {
		if e.DB == nil {
			return false
		}
		st := e.DB.Stats()
		if st.MaxOpenConnections == 0 || st.InUse < st.MaxOpenConnections {
			return false
		}
		for _, t := range e.Tasks {
			if t.blocked && t.holdsTx {
				return true
			}
		}
		return false
	}
	for {
		var en []int
		parked, blocked := 0, 0
		for _, t := range e.Tasks {
			if t.blocked {
				blocked++
			}
		}
		if blocked > 0 {
			// tasks judged blocked may have come back in the meantime
			runtime.Gosched()
		drain:
			for {
				select {
				case a := <-e.arrive:
					note(a)
				default:
					break drain
				}
			}
		}
		blocked = 0
		var blockedAt string
		for _, t := range e.Tasks {
			if t.done {
				continue
			}
			if t.blocked {
				blocked++
				blockedAt = fmt.Sprintf("task %d did not return from %s", t.ID, t.parked)
				continue
			}
			parked++
			if e.enabled(t) {
				en = append(en, t.ID)
			}
		}
		if parked == 0 && blocked == 0 {
			return
		}
		if len(en) == 0 {
			if blocked == 0 {
				e.Deadlock = true
				// leave the parked goroutines parked; the caller discards the execution
				return
			}
			// only blocked tasks could still move anything: wait for one of them
			timer := time.NewTimer(StuckAfter)
			select {
			case a := <-e.arrive:
				timer.Stop()
				note(a)
				continue
			case <-timer.C:
				// Time only triggers the inspection; the verdict is structural: a task that holds the
				// only connection (its own open transaction) and waits for another one can never proceed.
				e.Stuck = blockedAt
				if selfDeadlock() {
					e.Deadlock = true
					e.Stuck += " while holding its own transaction on a pool with no free connection (self-deadlock)"
				}
				return
			}
		}
		cand := en
		lastEnabled := false
		for _, id := range en {
			if id == last {
				lastEnabled = true
			}
		}
		if e.Bound >= 0 && preempt >= e.Bound && lastEnabled {
			cand = []int{last}
		}
		c := 0
		if len(cand) > 1 {
			c = e.Choose(e.Steps, cand, last)
		}
		pick := cand[c]
		if lastEnabled && pick != last {
			preempt++
		}
		e.Choices = append(e.Choices, c)
		e.Branching = append(e.Branching, len(cand))
		t := e.Tasks[pick]
		e.Trace = append(e.Trace, fmt.Sprintf("t%d:%s", pick, t.parked))
		e.Steps++
		e.clock.Add(2)
		last = pick
		t.resume <- struct{}{}
		timer := time.NewTimer(BlockedAfter)
	wait:
		for {
			select {
			case a := <-e.arrive:
				note(a)
				if a.t == t {
					timer.Stop()
					break wait
				}
				// a task judged blocked earlier came back; keep waiting for the released one
			case <-timer.C:
				t.blocked = true
				e.BlockedEvents++
				e.Trace = append(e.Trace, fmt.Sprintf("t%d:blocked", pick))
				break wait
			}
		}
	}
}

// Store wraps a LogStatePersistence so that every operation of a task is a yield point.
// Calls from goroutines that are not tasks pass straight through.
type Store struct {
	Inner persistence.LogStatePersistence
	E     *Exec
}

func (s *Store) Init() error { return s.Inner.Init() }

func (s *Store) Logs() ([]string, error) {
	if t := s.E.current(); t != nil {
		s.E.yield(t, "logs")
	}
	return s.Inner.Logs()
}

func (s *Store) ReadOps(id string) (persistence.LogStateReadOps, error) {
	t := s.E.current()
	if t != nil {
		s.E.yield(t, "readops")
	}
	r, err := s.Inner.ReadOps(id)
	if err != nil || t == nil {
		return r, err
	}
	return &yreader{s: s, t: t, r: r}, nil
}

func (s *Store) WriteOps(id string) (persistence.LogStateWriteOps, error) {
	t := s.E.current()
	if t != nil {
		s.E.yield(t, "writeops")
	}
	w, err := s.Inner.WriteOps(id)
	if err != nil || t == nil {
		return w, err
	}
	t.holdsTx = true
	return &ywriter{s: s, t: t, w: w}, nil
}

type yreader struct {
	s *Store
	t *Task
	r persistence.LogStateReadOps
}

func (r *yreader) GetLatest() ([]byte, error) {
	r.s.E.yield(r.t, "r.getlatest")
	return r.r.GetLatest()
}

type ywriter struct {
	s *Store
	t *Task
	w persistence.LogStateWriteOps
}

func (w *ywriter) GetLatest() ([]byte, error) {
	w.s.E.yield(w.t, "w.getlatest")
	return w.w.GetLatest()
}

func (w *ywriter) Set(c []byte) error {
	w.s.E.yield(w.t, "w.set")
	return w.w.Set(c)
}

func (w *ywriter) Close() error {
	w.s.E.yield(w.t, "w.close")
	w.t.holdsTx = false
	return w.w.Close()
}

// Explore enumerates schedules by stateless depth-first search. mk builds a
// fresh execution (fresh store, fresh witness, fresh tasks); visit is called
// after each execution. fixed is the part of the choice vector this worker
// must not change (for splitting the search over workers); with depthCap > 0
// positions at or beyond it are never varied. It returns the number of executions.
func Explore(mk func() *Exec, fixed []int, bound int, depthCap int, visit func(e *Exec) bool) int {
	prefix := append([]int{}, fixed...)
	n := 0
	for {
		e := mk()
		e.Bound = bound
		p := prefix
		e.Choose = func(step int, cand []int, last int) int {
			if step < len(p) {
				if p[step] < len(cand) {
					return p[step]
				}
				return len(cand) - 1
			}
			return 0
		}
		e.Run()
		n++
		if !visit(e) || e.Stuck != "" {
			return n
		}
		// next schedule: increment the last incrementable position beyond the fixed part
		i := len(e.Choices) - 1
		if depthCap > 0 && i >= depthCap {
			i = depthCap - 1
		}
		for ; i >= len(fixed); i-- {
			if e.Choices[i]+1 < e.Branching[i] {
				break
			}
		}
		if i < len(fixed) {
			return n
		}
		prefix = append(append([]int{}, e.Choices[:i]...), e.Choices[i]+1)
	}
}

// Prefixes expands the schedule tree to the given depth and returns every
// distinct choice prefix of that depth (shorter if executions end earlier).
func Prefixes(mk func() *Exec, depth, bound int) [][]int {
	var out [][]int
	seen := map[string]bool{}
	Explore(func() *Exec { return mk() }, nil, bound, depth, func(e *Exec) bool {
		d := depth
		if len(e.Choices) < d {
			d = len(e.Choices)
		}
		k := fmt.Sprint(e.Choices[:d])
		if !seen[k] {
			seen[k] = true
			out = append(out, append([]int{}, e.Choices[:d]...))
		}
		return true
	})
	return out
}
