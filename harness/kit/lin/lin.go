// Package lin is the linearizability oracle for witness histories: a
// porcupine model built on kit/refwitness, partitioned per log ID.
package lin

import (
	"fmt"
	"time"

	"github.com/anishathalye/porcupine"
	"github.com/transparency-dev/witness/internal/verif/kit/refwitness"
)

// In is the input of one recorded operation.
type In struct {
	Read  bool
	LogID string
	Idx   int // index of this operation in the history (identifies its returned bytes)
	Req   refwitness.Req
	// Overlapped: the operation's interval overlaps another update of the same log
	// (only then may it fail with a storage error and no effect).
	Overlapped bool
	// OutOfClaim: the reference model's verdict is not binding (see C09).
	Desc string
}

// Out is the recorded output.
type Out struct {
	// Kind: "accepted", "refused:<class>", "storage_error", "read", "read_error"
	Kind string
	Has  bool
	// Cur identifies the checkpoint bytes carried by the output: the Idx of the
	// update that returned exactly these bytes, -1 for the initial (prelude)
	// checkpoint, -2 for no bytes, -3 for bytes no update returned.
	Cur  int
	Size uint64
}

// State is the model state of one log.
type State struct {
	Has  bool
	Size uint64
	Root string
	Cur  int
}

// Model returns the porcupine model; init gives the state of each log after the prelude.
func Model(init map[string]State) porcupine.Model {
	return porcupine.Model{
		Partition: func(h []porcupine.Operation) [][]porcupine.Operation {
			m := map[string][]porcupine.Operation{}
			var order []string
			for _, o := range h {
				id := o.Input.(In).LogID
				if _, ok := m[id]; !ok {
					order = append(order, id)
				}
				m[id] = append(m[id], o)
			}
			var out [][]porcupine.Operation
			for _, id := range order {
				out = append(out, m[id])
			}
			return out
		},
		Init: func() any { return nil }, // resolved per partition at the first step
		Step: func(st, in, out any) (bool, any) {
			i, o := in.(In), out.(Out)
			var s State
			if st == nil {
				s = init[i.LogID]
				if !s.Has {
					s.Cur = -2
				}
			} else {
				s = st.(State)
			}
			if i.Read {
				if o.Kind != "read" {
					return false, s
				}
				if o.Has != s.Has {
					return false, s
				}
				return !s.Has || o.Cur == s.Cur, s
			}
			if o.Kind == "storage_error" {
				return i.Overlapped, s
			}
			class, next := refwitness.Step(refwitness.LogState{Has: s.Has, Size: s.Size, Root: []byte(s.Root)}, i.Req)
			if class.Accepted() {
				if o.Kind != "accepted" || o.Cur != i.Idx {
					return false, s
				}
				return true, State{Has: true, Size: next.Size, Root: string(next.Root), Cur: i.Idx}
			}
			if o.Kind != "refused:"+class.String() {
				return false, s
			}
			if class.ReturnsStored() && o.Cur != s.Cur {
				return false, s // the refusal carried a checkpoint that was not current at its linearization point
			}
			return true, s
		},
		Equal: func(a, b any) bool {
			if a == nil || b == nil {
				return a == nil && b == nil
			}
			return a.(State) == b.(State)
		},
		DescribeOperation: func(in, out any) string {
			return fmt.Sprintf("%s -> %+v", in.(In).Desc, out.(Out))
		},
	}
}

// Check runs porcupine; the result is "ok", "illegal" or "unknown" (timeout).
func Check(m porcupine.Model, ops []porcupine.Operation, timeout time.Duration) string {
	switch porcupine.CheckOperationsTimeout(m, ops, timeout) {
	case porcupine.Ok:
		return "ok"
	case porcupine.Illegal:
		return "illegal"
	}
	return "unknown"
}

// MarkOverlaps sets In.Overlapped for every update whose interval overlaps another update of the same log.
func MarkOverlaps(ops []porcupine.Operation) {
	for a := range ops {
		ia := ops[a].Input.(In)
		if ia.Read {
			continue
		}
		for b := range ops {
			ib := ops[b].Input.(In)
			if a == b || ib.Read || ib.LogID != ia.LogID {
				continue
			}
			if ops[a].Call < ops[b].Return && ops[b].Call < ops[a].Return {
				ia.Overlapped = true
			}
		}
		ops[a].Input = ia
	}
}
