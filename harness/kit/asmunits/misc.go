package asmunits

import (
	"context"
	"errors"
	"fmt"
	"io"
	"math/rand/v2"
	"net/http"
	"net/url"
	"os"
	"sort"
	"strings"
	"sync"
	"time"

	whttp "github.com/transparency-dev/witness/client/http"
	"github.com/transparency-dev/witness/internal/persistence/inmemory"
	"github.com/transparency-dev/witness/internal/verif/kit/asm"
	"github.com/transparency-dev/witness/internal/verif/kit/ev"
	"github.com/transparency-dev/witness/internal/verif/kit/gen"
	"github.com/transparency-dev/witness/internal/verif/kit/refnote"
	"github.com/transparency-dev/witness/internal/verif/kit/seams"
	"github.com/transparency-dev/witness/internal/verif/kit/wit"
	"github.com/transparency-dev/witness/internal/witness"
)

// Counters: through the assembled service, every add-checkpoint request that names a configured log moves
// that log's attempt counter by one and every request answered 200 moves its success counter by one -
// including two byte-identical requests that overlap in time. rec must be the process's metric factory.
func Counters(run *ev.Run, unit int64, r *rand.Rand, rec *seams.RecMetrics) {
	u := gen.NewUniverse(r, gen.Opts{NLogs: 3, MaxSize: 16, Branches: 1, Unique: true})
	for _, l := range u.Logs {
		// the counters are process-wide and keyed by log ID: every unit needs IDs of its own
		l.Origin = fmt.Sprintf("%s/asm-counters-%d", l.Origin, unit)
		l.ID = refnote.LogID(l.Origin)
	}
	keys, _ := wit.NewWitKeys(r, []bool{false, true}, true)
	hs := seams.NewHookStore(inmemory.NewPersistence())
	gate := asm.NewGate()
	hs.SetHook(gate.Hook)
	var specs []asm.LogSpec
	for _, l := range u.Logs {
		specs = append(specs, asm.LogSpec{Log: l})
	}
	svc, err := asm.Start(asm.Opts{Logs: specs, Keys: keys, Store: hs, Bastion: true})
	if err != nil {
		run.Inconclusive("assembled service: " + err.Error())
		return
	}
	defer func() {
		if !svc.Stop() {
			run.Inconclusive("watchdog: Main did not return after the bastion connection was closed and its context cancelled")
		}
	}()
	for _, l := range u.Logs {
		before := rec.Snapshot()
		var mu sync.Mutex
		sent, ok200, bad := 0, 0, false
		var codes []int
		post := func(old uint64, cp []byte, proof [][]byte) {
			code, _, _ := svc.Post(asm.Body(old, proof, cp), 30*time.Second)
			mu.Lock()
			sent++
			codes = append(codes, code)
			if code == 200 {
				ok200++
			}
			if code < 0 {
				bad = true
			}
			mu.Unlock()
		}
		a := 1 + r.Uint64N(4)
		b := a + 1 + r.Uint64N(4)
		post(0, l.Honest(0, a), nil)
		if r.IntN(2) == 0 {
			post(a+1, l.Honest(0, b), l.Branches[0].Consistency(a, b)) // stale old size
		}
		cp, proof := l.Honest(0, b), l.Branches[0].Consistency(a, b)
		release := gate.Hold(seams.OpWriteOps, l.ID, 1)
		var wg sync.WaitGroup
		n := 2 + r.IntN(2)
		wg.Add(1)
		go func() { defer wg.Done(); post(a, cp, proof) }()
		parked := gate.WaitEntered(10 * time.Second)
		for i := 1; i < n; i++ {
			wg.Add(1)
			go func() { defer wg.Done(); post(a, cp, proof) }()
		}
		time.Sleep(150 * time.Millisecond)
		release()
		wg.Wait()
		run.Count("evaluations")
		run.Count("assembled_counter_sessions")
		if parked {
			run.Count("assembled_identical_requests_overlapping")
		}
		if bad {
			run.Count("assembled_counter_sessions_unjudged_transport_error")
			continue
		}
		d := seams.Delta(before, rec.Snapshot())
		att, suc := int64(0), int64(0)
		for k, v := range d {
			if !strings.Contains(k, l.ID) {
				continue
			}
			if strings.HasPrefix(k, "witness_update_request") {
				att += v
			}
			if strings.HasPrefix(k, "witness_update_success") {
				suc += v
			}
		}
		sort.Ints(codes)
		run.Distinct("nontrivial", fmt.Sprintf("assembled_counters/sent=%d/ok=%d/parked=%v", sent, ok200, parked))
		if att != int64(sent) || suc != int64(ok200) {
			run.Violate("assembled_counter_delta", fmt.Sprintf("%d add-checkpoint requests named this configured log (%d of them byte-identical and overlapping), %d were answered 200 (statuses %v); the attempt counter moved by %d and the success counter by %d", sent, n, ok200, codes, att, suc), unit, map[string]any{"log": l.Origin, "delta": d})
		}
	}
}

type getter struct {
	hc   *http.Client
	base string
}

// Reads: the read API of the assembled service over a store that already holds checkpoints for some of the
// configured logs. Raw GETs do not follow redirects; the bundled client is pointed at the same listener.
func Reads(run *ev.Run, unit int64, r *rand.Rand) {
	wit.EnsureMetrics(nil)
	u := gen.NewUniverse(r, gen.Opts{NLogs: 2 + r.IntN(4), MaxSize: 12, Branches: 1, ShareKeys: true})
	keys, _ := wit.NewWitKeys(r, []bool{false, true}, true)
	pers := inmemory.NewPersistence()
	kl, err := wit.KnownLogs(u)
	if err != nil {
		run.Inconclusive(err.Error())
		return
	}
	w0, err := witness.New(witness.Opts{Persistence: pers, Signers: keys.Signers, KnownLogs: kl})
	if err != nil {
		run.Inconclusive(err.Error())
		return
	}
	stored := map[string][]byte{}
	for i, l := range u.Logs {
		if i == 0 || r.IntN(3) > 0 {
			if _, err := w0.Update(context.Background(), l.ID, 0, l.Honest(0, 1+r.Uint64N(10)), nil); err != nil {
				run.Inconclusive("could not pre-load the store: " + err.Error())
				return
			}
			stored[l.ID], _ = w0.GetCheckpoint(l.ID)
		}
	}
	var specs []asm.LogSpec
	for _, l := range u.Logs {
		specs = append(specs, asm.LogSpec{Log: l})
	}
	svc, err := asm.Start(asm.Opts{Logs: specs, Keys: keys, Store: pers})
	if err != nil {
		run.Inconclusive("assembled service: " + err.Error())
		return
	}
	defer func() {
		if !svc.Stop() {
			run.Inconclusive("watchdog: Main did not return after its context was cancelled")
		}
	}()
	run.Count("assembled_read_services")
	base, _ := url.Parse(svc.URL + "/")
	cl := whttp.NewWitness(base, &http.Client{Timeout: 10 * time.Second})
	type probe struct{ id, kind string }
	var probes []probe
	for _, l := range u.Logs {
		if stored[l.ID] != nil {
			probes = append(probes, probe{l.ID, "stored"})
		} else {
			probes = append(probes, probe{l.ID, "configured_nothing_stored"})
		}
	}
	hexd := "0123456789abcdef"
	for i := 0; i < 3; i++ {
		var b strings.Builder
		for j := 0; j < 64; j++ {
			b.WriteByte(hexd[r.IntN(16)])
		}
		probes = append(probes, probe{b.String(), "unknown_hex"})
	}
	some := u.Logs[0].ID
	odd := []string{some + "_", some[:20] + "." + some[20:], "~" + some, some[:10] + ":" + some[10:], some + ",x", "a_b", "logs.json", some + "@", "(" + some + ")", some + "=", "!" + some, some + "*", some + "+1", "_"}
	for i := 0; i < 5; i++ {
		probes = append(probes, probe{odd[r.IntN(len(odd))], "odd_id"})
	}
	for _, p := range probes {
		code, hdr, body := svc.Get("/witness/v0/logs/" + p.id + "/checkpoint")
		cb, cerr := cl.GetLatestCheckpoint(context.Background(), p.id)
		run.Count("evaluations")
		run.Count("assembled_gets")
		run.Distinct("nontrivial", fmt.Sprintf("assembled_read/%s/%d", p.kind, code))
		d := map[string]any{"id": p.id, "kind": p.kind, "status": code, "location": hdr.Get("Location"), "body": string(body[:min(len(body), 200)]), "client_err": fmt.Sprint(cerr), "client_bytes": string(cb[:min(len(cb), 200)])}
		if p.kind == "stored" {
			if code != 200 || string(body) != string(stored[p.id]) {
				run.Violate("assembled_read_stored", fmt.Sprintf("GET of a log with a stored checkpoint answered %d / bytes equal=%v", code, string(body) == string(stored[p.id])), unit, d)
			}
			if cerr != nil || string(cb) != string(stored[p.id]) {
				run.Violate("assembled_client_read_stored", fmt.Sprintf("the bundled client read err=%v / bytes equal=%v for a log with a stored checkpoint", cerr, string(cb) == string(stored[p.id])), unit, d)
			}
			continue
		}
		if code != 404 {
			run.Violate("assembled_read_absent_not_404;"+p.kind, fmt.Sprintf("GET for an ID with nothing to serve (%s) answered %d (Location %q) instead of 404", p.kind, code, hdr.Get("Location")), unit, d)
		}
		if !errors.Is(cerr, os.ErrNotExist) {
			run.Violate("assembled_client_absent_not_notexist;"+p.kind, fmt.Sprintf("the bundled client, asked for an ID with nothing to serve (%s), returned err=%v and %d bytes instead of os.ErrNotExist", p.kind, cerr, len(cb)), unit, d)
		}
	}
	want := []string{}
	for id := range stored {
		want = append(want, id)
	}
	sort.Strings(want)
	if got := svc.LogIDs(); strings.Join(got, ",") != strings.Join(want, ",") {
		run.Violate("assembled_log_list", fmt.Sprintf("log list %v, stored %v", got, want), unit, nil)
	}
	run.Count("assembled_loglist_checks")
}

// Signers: the assembled service is configured with a drawn list of witness keys (as an operator rotating a
// key would: several cosignature/v1 keys, with or without legacy ones), a feeder submits one checkpoint,
// and what the witness's endpoint serves must carry the log's text, exactly one valid log signature, exactly
// one valid signature per configured key and no other line.
func Signers(run *ev.Run, unit int64, r *rand.Rand) {
	configs := [][]bool{{false, true}, {false, true, true}, {true, true}, {false, false, true}, {true}, {true, false, true}, {true, true, true}}
	sch := configs[int(unit)%len(configs)]
	keys, err := wit.NewWitKeys(r, sch, len(sch) == 2 && !sch[0] && unit%2 == 0)
	if err != nil {
		run.Inconclusive(err.Error())
		return
	}
	u := gen.NewUniverse(r, gen.Opts{NLogs: 1 + r.IntN(2), MaxSize: 30, Branches: 1})
	specs, mux, fl := feedSetup(u)
	for _, f := range fl {
		f.tl.Publish(nil, 1+r.Uint64N(25))
	}
	svc, err := asm.Start(asm.Opts{Logs: specs, Keys: keys, Store: inmemory.NewPersistence(), Client: &http.Client{Transport: mux, Timeout: 5 * time.Second}, FeedInterval: 100 * time.Millisecond})
	if err != nil {
		run.Violate("assembled_service_does_not_start", fmt.Sprintf("omniwitness.Main with witness key schemes %v (true = cosignature/v1): %v", sch, err), unit, nil)
		return
	}
	defer func() {
		if !svc.Stop() {
			run.Inconclusive("watchdog: Main did not return after its context was cancelled")
		}
	}()
	for round := 0; round < 2; round++ {
		for _, f := range fl {
			_, n := f.tl.Current()
			if !waitSize(svc, f.l, n, 30*time.Second) {
				run.Inconclusive("the assembled service did not witness a published checkpoint")
				return
			}
			raw, _, _ := served(svc, f.l)
			nt, err := refnote.Parse(raw)
			run.Count("evaluations")
			run.Count("assembled_signer_sets_checked")
			run.Distinct("nontrivial", fmt.Sprintf("assembled_signers/%v/round%d", sch, round))
			d := map[string]any{"schemes_cosig_v1": sch, "served": string(raw)}
			if err != nil {
				run.Violate("assembled_served_unparsable", "the served checkpoint is not a signed note: "+err.Error(), unit, d)
				continue
			}
			_, text := f.tl.Checkpoint()
			if nt.Text != text {
				run.Violate("assembled_served_text", "the served text is not the text the log published", unit, d)
			}
			if v, _, _ := f.l.Key.Key(false).ValidSigs(nt); len(v) != 1 {
				run.Violate("assembled_log_signatures", fmt.Sprintf("%d valid log signatures on the served checkpoint, want 1", len(v)), unit, d)
			}
			for i, k := range keys.Keys {
				if v, _, _ := k.ValidSigs(nt); len(v) != 1 {
					run.Violate(fmt.Sprintf("assembled_witness_signatures;keys=%d;cosig=%v", len(sch), sch[i]), fmt.Sprintf("configured witness key #%d (cosignature/v1=%v) of %d has %d valid signatures on the checkpoint the assembled service serves, want exactly 1", i, sch[i], len(sch), len(v)), unit, d)
				}
			}
			if len(nt.Sigs) != 1+len(keys.Keys) {
				run.Violate("assembled_signature_lines", fmt.Sprintf("%d signature lines, want %d", len(nt.Sigs), 1+len(keys.Keys)), unit, d)
			}
		}
		for _, f := range fl {
			_, n := f.tl.Current()
			f.tl.Publish(nil, n+r.Uint64N(5)) // growth or a same-size refresh
		}
	}
}

// Distributor: one read of the distributor is parked after it has fetched the latest checkpoint; an update
// is accepted meanwhile; the read is released. Whatever that one round pushes, the rounds after it must
// push what the witness's own endpoint reports: judged on the PUTs of the log, three of them carrying the
// superseded checkpoint after the release is the violation (no wall-clock verdict).
func Distributor(run *ev.Run, unit int64, r *rand.Rand) {
	u := gen.NewUniverse(r, gen.Opts{NLogs: 2, MaxSize: 30, Branches: 1, Unique: true})
	keys, _ := wit.NewWitKeys(r, []bool{false, true}, true)
	hs := seams.NewHookStore(inmemory.NewPersistence())
	var specs []asm.LogSpec
	for _, l := range u.Logs {
		specs = append(specs, asm.LogSpec{Log: l})
	}
	type put struct {
		id   string
		size uint64
	}
	var mu sync.Mutex
	var puts []put
	client := &http.Client{Timeout: 5 * time.Second, Transport: rtFunc(func(q *http.Request) (*http.Response, error) {
		var b []byte
		if q.Body != nil {
			b, _ = io.ReadAll(q.Body)
		}
		parts := strings.Split(q.URL.EscapedPath(), "/")
		p := put{size: ^uint64(0)}
		if len(parts) > 4 {
			p.id = parts[4]
		}
		if n, err := refnote.Parse(b); err == nil {
			if cp, err := refnote.ParseCheckpoint(n.Text); err == nil {
				p.size = cp.Size
			}
		}
		mu.Lock()
		puts = append(puts, p)
		mu.Unlock()
		return &http.Response{StatusCode: 200, Status: "200 OK", Body: io.NopCloser(strings.NewReader("")), Header: http.Header{}, Request: q}, nil
	})}
	svc, err := asm.Start(asm.Opts{Logs: specs, Keys: keys, Store: hs, Client: client, Bastion: true, DistributorURL: "http://distributor.stub", DistributeInterval: 40 * time.Millisecond})
	if err != nil {
		run.Inconclusive("assembled service: " + err.Error())
		return
	}
	defer func() {
		hs.SetAfterRead(nil)
		if !svc.Stop() {
			run.Inconclusive("watchdog: Main did not return after the bastion connection was closed and its context cancelled")
		}
	}()
	for _, l := range u.Logs {
		a := 1 + r.Uint64N(10)
		b := a + 1 + r.Uint64N(10)
		if code, _, rb := svc.Post(asm.Body(0, nil, l.Honest(0, a)), 30*time.Second); code != 200 {
			run.Inconclusive(fmt.Sprintf("first use answered %d %s", code, rb))
			return
		}
		// park the next read of this log after it has fetched its value
		parkedCh, releaseCh := make(chan struct{}, 1), make(chan struct{})
		var once sync.Once
		hs.SetAfterRead(func(id string) {
			if id != l.ID {
				return
			}
			fire := false
			once.Do(func() { fire = true })
			if fire {
				parkedCh <- struct{}{}
				<-releaseCh
			}
		})
		parked := false
		select {
		case <-parkedCh:
			parked = true
		case <-time.After(10 * time.Second):
		}
		code, _, rb := svc.Post(asm.Body(a, l.Branches[0].Consistency(a, b), l.Honest(0, b)), 30*time.Second)
		mu.Lock()
		mark := len(puts)
		mu.Unlock()
		close(releaseCh)
		hs.SetAfterRead(nil)
		if code != 200 {
			run.Inconclusive(fmt.Sprintf("growth answered %d %s", code, rb))
			return
		}
		run.Count("evaluations")
		run.Count("assembled_distributor_episodes")
		if parked {
			run.Count("assembled_distributor_reads_parked_across_an_update")
		}
		// judge on the PUTs after the release
		end := time.Now().Add(20 * time.Second)
		verdict := ""
		for verdict == "" && time.Now().Before(end) {
			time.Sleep(20 * time.Millisecond)
			mu.Lock()
			stale := 0
			for _, p := range puts[mark:] {
				if p.id != l.ID {
					continue
				}
				if p.size == b {
					verdict = "current"
					break
				}
				stale++
				if stale >= 4 { // the parked round may push the old one once; allow one more for a round already under way
					verdict = "stale"
					break
				}
			}
			mu.Unlock()
		}
		run.Distinct("nontrivial", fmt.Sprintf("assembled_distributor/parked=%v/%s", parked, verdict))
		switch verdict {
		case "stale":
			_, _, sz := served(svc, l)
			run.Violate("assembled_distributor_pushes_superseded", fmt.Sprintf("after an update to size %d was answered 200 (the witness's endpoint reports size %d), the distributor pushed the superseded size-%d checkpoint of this log four more times and never the current one", b, sz, a), unit, map[string]any{"log": l.Origin, "read_parked_across_update": parked})
		case "":
			run.Inconclusive("watchdog: the distributor made no decisive PUT for the log within 20 s")
			return
		}
	}
}

type rtFunc func(*http.Request) (*http.Response, error)

func (f rtFunc) RoundTrip(q *http.Request) (*http.Response, error) { return f(q) }
