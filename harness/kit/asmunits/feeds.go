package asmunits

import (
	"fmt"
	"math/rand/v2"
	"net/http"
	"sort"
	"strings"
	"sync"
	"sync/atomic"
	"time"

	"github.com/transparency-dev/witness/internal/persistence"
	"github.com/transparency-dev/witness/internal/persistence/inmemory"
	"github.com/transparency-dev/witness/internal/verif/kit/asm"
	"github.com/transparency-dev/witness/internal/verif/kit/ev"
	"github.com/transparency-dev/witness/internal/verif/kit/gen"
	"github.com/transparency-dev/witness/internal/verif/kit/refnote"
	"github.com/transparency-dev/witness/internal/verif/kit/reftree"
	"github.com/transparency-dev/witness/internal/verif/kit/seams"
	"github.com/transparency-dev/witness/internal/verif/kit/stubs"
	"github.com/transparency-dev/witness/internal/verif/kit/wit"
)

type fedLog struct {
	l    *gen.Log
	tl   *stubs.TileLog
	host string
}

// feedSetup puts a stub tlog-tiles log behind a host multiplexer for every log of the universe.
func feedSetup(u *gen.Universe) ([]asm.LogSpec, *stubs.HostMux, []*fedLog) {
	mux := stubs.NewHostMux()
	var specs []asm.LogSpec
	var fl []*fedLog
	for i, l := range u.Logs {
		host := fmt.Sprintf("log%d.stub", i)
		tl := stubs.NewTileLog(l.Origin, l.Key, l.Branches[0], false)
		mux.Handle(host, tl)
		specs = append(specs, asm.LogSpec{Log: l, Feeder: "tiles", URL: "http://" + host + "/"})
		fl = append(fl, &fedLog{l: l, tl: tl, host: host})
	}
	return specs, mux, fl
}

// served parses what the witness's own endpoint serves for a log.
func served(svc *asm.Service, l *gen.Log) (raw []byte, has bool, size uint64) {
	raw = svc.Checkpoint(l.ID)
	if raw == nil {
		return nil, false, 0
	}
	n, err := refnote.Parse(raw)
	if err != nil {
		return raw, true, ^uint64(0)
	}
	cp, err := refnote.ParseCheckpoint(n.Text)
	if err != nil {
		return raw, true, ^uint64(0)
	}
	return raw, true, cp.Size
}

func waitSize(svc *asm.Service, l *gen.Log, n uint64, limit time.Duration) bool {
	end := time.Now().Add(limit)
	for {
		if _, has, sz := served(svc, l); has && sz == n {
			return true
		}
		if time.Now().After(end) {
			return false
		}
		time.Sleep(15 * time.Millisecond)
	}
}

// waitPolls waits until the stub log has answered n further checkpoint requests (false: watchdog).
func waitPolls(tl *stubs.TileLog, n int, limit time.Duration) bool {
	f0 := tl.Fetches()
	end := time.Now().Add(limit)
	for tl.Fetches() < f0+n {
		if time.Now().After(end) {
			return false
		}
		time.Sleep(10 * time.Millisecond)
	}
	return true
}

// LateEffect: a feeder's update is parked inside its storage write. The feeder loop is sequential, so the
// log being polled AGAIN proves the parked update's caller was already given an answer. Every later update
// of the log is parked before it opens a write handle; then only the first write is released. If the served
// state changes now, an update took effect after its caller had been answered and while no other update had
// touched the store: no sequential order explains that.
func LateEffect(run *ev.Run, unit int64, r *rand.Rand) {
	u := gen.NewUniverse(r, gen.Opts{NLogs: 2, MaxSize: 40, Branches: 1})
	keys, _ := wit.NewWitKeys(r, []bool{false, true}, true)
	specs, mux, fl := feedSetup(u)
	hs := seams.NewHookStore(inmemory.NewPersistence())
	gate := asm.NewGate()
	hs.SetHook(gate.Hook)
	target := fl[0]
	n := 3 + r.Uint64N(30)
	target.tl.Publish(nil, n)
	fl[1].tl.Publish(nil, 1+r.Uint64N(20))
	releaseFirst := gate.Hold(seams.OpWSet, target.l.ID, 1)
	interval := 250 * time.Millisecond
	svc, err := asm.Start(asm.Opts{Logs: specs, Keys: keys, Store: hs, Client: &http.Client{Transport: mux, Timeout: 5 * time.Second}, FeedInterval: interval})
	if err != nil {
		releaseFirst()
		run.Inconclusive("assembled service: " + err.Error())
		return
	}
	var releaseRest func()
	defer func() {
		releaseFirst()
		if releaseRest != nil {
			releaseRest()
		}
		if !svc.Stop() {
			run.Inconclusive("watchdog: Main did not return after its context was cancelled")
		}
	}()
	if !gate.WaitEntered(20 * time.Second) {
		run.Inconclusive("the feeder's first update never reached storage")
		return
	}
	releaseRest = gate.Hold(seams.OpWriteOps, target.l.ID, 1<<30)
	run.Count("evaluations")
	run.Count("assembled_parked_feeder_updates")
	polledAgain := waitPolls(target.tl, 1, 10*interval)
	if !polledAgain {
		// the cycle is still waiting for its update, as a synchronous call must
		run.Count("assembled_parked_update_kept_its_cycle_waiting")
		run.Distinct("nontrivial", "late_effect/cycle_waits")
		releaseFirst()
		releaseRest()
		if !waitSize(svc, target.l, n, 20*time.Second) {
			run.Violate("assembled_update_lost_after_release", fmt.Sprintf("the parked update to size %d was released and the log kept publishing it, yet the service never served it", n), unit, nil)
		}
		return
	}
	run.Distinct("nontrivial", "late_effect/cycle_ended_while_update_parked")
	_, hasBefore, sizeBefore := served(svc, target.l)
	releaseFirst()
	time.Sleep(400 * time.Millisecond)
	_, hasAfter, sizeAfter := served(svc, target.l)
	if hasAfter && (!hasBefore || sizeAfter != sizeBefore) {
		run.Violate("assembled_effect_after_the_call_was_answered", fmt.Sprintf("the feeder polled its log again (so its previous update call had been answered) while that update's storage write was still parked; the endpoint served has=%v size=%d then, and has=%v size=%d after only that write was released, every later update still being parked before it opens a write handle: an update took effect after its caller was answered", hasBefore, sizeBefore, hasAfter, sizeAfter), unit, map[string]any{"log": target.l.Origin, "store": "mem", "feed_interval_ms": interval.Milliseconds()})
	}
}

// progressMode is what goes wrong before the service must make progress again.
var progressModes = []string{"restart_with_stored_state", "storage_fault_burst", "fault_on_first_read_after_restart", "first_answer_to_each_full_tile_damaged", "other_log_forks_same_size"}

// Progress: bounded progress of the assembled service once a transient problem is over. The verdict counts
// the log's own polls (each is the start of a feed cycle) instead of wall-clock time: after the problem has
// stopped and the stub log has answered 12 further polls, the witness must serve the published size.
func Progress(run *ev.Run, unit int64, r *rand.Rand, modes ...string) {
	if len(modes) == 0 {
		modes = progressModes
	}
	mode := modes[int(unit)%len(modes)]
	big := mode == "first_answer_to_each_full_tile_damaged"
	o := gen.Opts{NLogs: 2, MaxSize: 60, Branches: 2}
	if big {
		o.MaxSize = 900
	}
	u := gen.NewUniverse(r, o)
	for _, l := range u.Logs {
		// branch 1 shares exactly one leaf with branch 0: every size above 1 has another root there
		l.ReplaceBranch(1, &reftree.Tree{Seed: l.Branches[0].Seed, TagA: 1, TagB: 3, Fork: 1})
	}
	keys, _ := wit.NewWitKeys(r, []bool{false, true}, true)
	specs, mux, fl := feedSetup(u)
	inner := inmemory.NewPersistence()
	hs := seams.NewHookStore(inner)
	var faultsLeft atomic.Int64
	var armed atomic.Bool // the burst starts at the next write-handle open
	var fired []string
	var fmu sync.Mutex
	target, other := fl[0], fl[1]
	burst := int64(2 + r.IntN(3))
	hs.SetHook(func(op, id string) error {
		if id != target.l.ID {
			return nil
		}
		if armed.Load() && op == seams.OpWriteOps {
			armed.Store(false)
			faultsLeft.Store(burst)
		}
		if faultsLeft.Load() > 0 {
			faultsLeft.Add(-1)
			fmu.Lock()
			fired = append(fired, op)
			fmu.Unlock()
			return fmt.Errorf("injected storage fault at %s", op)
		}
		return nil
	})
	interval := 150 * time.Millisecond
	client := &http.Client{Transport: mux, Timeout: 5 * time.Second}
	start := func(p persistence.LogStatePersistence) (*asm.Service, error) {
		return asm.Start(asm.Opts{Logs: specs, Keys: keys, Store: p, Client: client, FeedInterval: interval})
	}
	n1, n2 := 2+r.Uint64N(20), uint64(0)
	if big {
		n1 = 257 + r.Uint64N(100)
		n2 = 2*256 + 1 + r.Uint64N(300)
	} else {
		n2 = n1 + 1 + r.Uint64N(20)
	}
	target.tl.Publish(nil, n1)
	om := 2 + r.Uint64N(10)
	other.tl.Publish(nil, om)
	svc, err := start(hs)
	if err != nil {
		run.Inconclusive("assembled service: " + err.Error())
		return
	}
	stop := func() {
		if !svc.Stop() {
			run.Inconclusive("watchdog: Main did not return after its context was cancelled")
		}
	}
	if !waitSize(svc, target.l, n1, 30*time.Second) || !waitSize(svc, other.l, om, 30*time.Second) {
		stop()
		run.Inconclusive("the assembled service did not witness the first published sizes")
		return
	}
	detail := map[string]any{"mode": mode, "from": n1, "to": n2, "log": target.l.Origin}
	switch mode {
	case "storage_fault_burst":
		armed.Store(true)
		target.tl.Publish(nil, n2)
		end := time.Now().Add(20 * time.Second)
		for (armed.Load() || faultsLeft.Load() > 0) && time.Now().Before(end) {
			time.Sleep(10 * time.Millisecond)
		}
		if armed.Load() || faultsLeft.Load() > 0 {
			armed.Store(false)
			faultsLeft.Store(0)
		}
	case "fault_on_first_read_after_restart":
		stop()
		faultsLeft.Store(1) // the first storage operation on the target log after the restart fails
		target.tl.Publish(nil, n2)
		if svc, err = start(hs); err != nil {
			run.Violate("assembled_service_does_not_restart", "omniwitness.Main on the store it had just used: "+err.Error(), unit, detail)
			return
		}
		end := time.Now().Add(20 * time.Second)
		for faultsLeft.Load() > 0 && time.Now().Before(end) {
			time.Sleep(10 * time.Millisecond)
		}
		faultsLeft.Store(0)
	case "restart_with_stored_state":
		stop()
		target.tl.Publish(nil, n2)
		if svc, err = start(hs); err != nil {
			run.Violate("assembled_service_does_not_restart", "omniwitness.Main on the store it had just used: "+err.Error(), unit, detail)
			return
		}
	case "first_answer_to_each_full_tile_damaged":
		target.tl.DamageFirstFull(true)
		target.tl.Publish(nil, n2)
	case "other_log_forks_same_size":
		// the OTHER log republishes its current size with another root; the target grows honestly
		other.tl.Publish(other.l.Branches[1], om)
		if !waitPolls(other.tl, 3, 30*time.Second) {
			stop()
			run.Inconclusive("watchdog: the forked log was not polled")
			return
		}
		target.tl.Publish(nil, n2)
	}
	defer stop()
	fmu.Lock()
	detail["faults_fired"] = append([]string{}, fired...)
	fmu.Unlock()
	detail["damaged_tile_answers"] = target.tl.Damaged()
	run.Count("evaluations")
	run.Count("assembled_progress_episodes")
	run.Distinct("nontrivial", fmt.Sprintf("progress/%s/faults=%d", mode, len(fired)))
	if !waitPolls(target.tl, 12, 60*time.Second) {
		if _, _, sz := served(svc, target.l); sz != n2 {
			run.Violate("assembled_log_not_polled", fmt.Sprintf("after %s the log stopped being polled (fewer than 12 polls in 60 s at a %v interval) and the witness serves size %d, not %d", mode, interval, sz, n2), unit, detail)
		}
		return
	}
	if waitSize(svc, target.l, n2, 2*time.Second) {
		want := []string{target.l.ID, other.l.ID}
		sort.Strings(want)
		if got := svc.LogIDs(); strings.Join(got, ",") != strings.Join(want, ",") {
			detail["log_list"], detail["configured_and_witnessed"] = got, want
			run.Violate("assembled_log_list_after_"+mode, fmt.Sprintf("after %s the service lists %d logs; exactly the 2 configured logs have been witnessed", mode, len(got)), unit, detail)
		}
		if mode == "other_log_forks_same_size" {
			if _, has, sz := served(svc, other.l); !has || sz != om {
				run.Violate("assembled_forked_log_state_moved", fmt.Sprintf("the forked log is served at has=%v size=%d, witnessed at %d", has, sz, om), unit, detail)
			}
		}
		return
	}
	_, has, sz := served(svc, target.l)
	detail["damaged_tile_answers"] = target.tl.Damaged()
	run.Violate("assembled_no_progress_after_"+mode, fmt.Sprintf("%s: the problem is over and the log has been polled 12 more times, each poll a fresh feed cycle over a healthy store and a correct log, yet the witness serves has=%v size=%d instead of the published size %d", mode, has, sz, n2), unit, detail)
}

// CrossSigned: two configured logs whose keys carry the same NAME and different key material. The second
// log's endpoint publishes checkpoints with its own origin signed by the FIRST log's key. Nothing of that
// may ever be witnessed for the second log; once it signs with its own key it must be witnessed.
func CrossSigned(run *ev.Run, unit int64, r *rand.Rand) {
	u := gen.NewUniverse(r, gen.Opts{NLogs: 2 + r.IntN(2), MaxSize: 40, Branches: 1, SameKeyNames: true})
	keys, _ := wit.NewWitKeys(r, []bool{false, true}, true)
	var seed [32]byte
	for i := range seed {
		seed[i] = byte(r.Uint32())
	}
	// the last-listed log's key: the first log's key NAME, key material of its own
	u.Logs[len(u.Logs)-1].Key = refnote.NewSignKey(u.Logs[0].Key.Name, seed)
	specs, mux, fl := feedSetup(u)
	a, b := fl[0], fl[len(fl)-1]
	if a.l.Key.Name != b.l.Key.Name || string(a.l.Key.Pub) == string(b.l.Key.Pub) {
		run.Inconclusive("generator: the logs do not share a key name with different keys")
		return
	}
	b.tl.SetKey(a.l.Key)
	for _, f := range fl {
		f.tl.Publish(nil, 1+r.Uint64N(30))
	}
	svc, err := asm.Start(asm.Opts{Logs: specs, Keys: keys, Store: inmemory.NewPersistence(), Client: &http.Client{Transport: mux, Timeout: 5 * time.Second}, FeedInterval: 100 * time.Millisecond})
	if err != nil {
		run.Inconclusive("assembled service: " + err.Error())
		return
	}
	defer func() {
		if !svc.Stop() {
			run.Inconclusive("watchdog: Main did not return after its context was cancelled")
		}
	}()
	_, an := a.tl.Current()
	if !waitSize(svc, a.l, an, 30*time.Second) || !waitPolls(b.tl, 10, 60*time.Second) {
		run.Inconclusive("watchdog: the assembled service did not follow its logs")
		return
	}
	run.Count("evaluations")
	run.Count("assembled_cross_signed_episodes")
	run.Distinct("nontrivial", fmt.Sprintf("cross_signed/logs=%d", len(fl)))
	raw, has, sz := served(svc, b.l)
	listed := false
	for _, id := range svc.LogIDs() {
		listed = listed || id == b.l.ID
	}
	if has || listed {
		run.Violate("assembled_witnessed_checkpoint_signed_by_another_logs_key", fmt.Sprintf("log %q published checkpoints signed with the key of log %q (same key name, different key); the assembled service witnessed one (size %d, listed=%v)", b.l.Origin, a.l.Origin, sz, listed), unit, map[string]any{"served": string(raw)})
		return
	}
	b.tl.SetKey(b.l.Key)
	_, bn := b.tl.Current()
	if !waitPolls(b.tl, 12, 60*time.Second) {
		run.Inconclusive("watchdog: the log was not polled")
		return
	}
	if !waitSize(svc, b.l, bn, 2*time.Second) {
		run.Violate("assembled_log_with_shared_key_name_not_witnessed", fmt.Sprintf("log %q now signs with its own configured key and has been polled 12 times; the service still does not serve its size %d", b.l.Origin, bn), unit, nil)
	}
}
