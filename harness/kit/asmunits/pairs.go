// Package asmunits holds the monitors that run against the ASSEMBLED service (kit/asm): each function is one
// unit of a check and records its observations in the check's ev.Run. They exist because a change confined
// to the wiring layer (omniwitness.Main, the adapter it puts between the witness and its callers, the router,
// the signer list, the client it hands down) is invisible to a harness that wires those pieces itself.
package asmunits

import (
	"fmt"
	"math/rand/v2"
	"strings"
	"sync"
	"time"

	"github.com/anishathalye/porcupine"
	"github.com/transparency-dev/witness/internal/verif/kit/asm"
	"github.com/transparency-dev/witness/internal/verif/kit/ev"
	"github.com/transparency-dev/witness/internal/verif/kit/gen"
	"github.com/transparency-dev/witness/internal/verif/kit/refnote"
	"github.com/transparency-dev/witness/internal/verif/kit/reftree"
	"github.com/transparency-dev/witness/internal/verif/kit/refwitness"
	"github.com/transparency-dev/witness/internal/verif/kit/seams"
	"github.com/transparency-dev/witness/internal/verif/kit/wit"
)

// hin / hout: one add-checkpoint request (or one read of the witness's own endpoint) and its answer.
type hin struct {
	Read       bool
	Req        refwitness.Req
	Overlapped bool
	Desc       string
}

type hout struct {
	Code  int
	CT    string
	Body  string
	SigOK bool // 200: every body line is one cosignature verifying under the witness key over the SUBMITTED text
	Has   bool // read: a checkpoint was served
	Size  uint64
	Root  string
}

type hstate struct {
	Has  bool
	Size uint64
	Root string
}

// httpModel is the sequential specification of one log seen through the bastion endpoint: the rule list of
// kit/refwitness mapped to the documented statuses. A 500 is admitted, without effect, only for a request
// that overlapped another update of the log (the stores refuse the loser of a write-write conflict).
func httpModel() porcupine.Model {
	return porcupine.Model{
		Init: func() any { return hstate{} },
		Step: func(st, in, out any) (bool, any) {
			s, i, o := st.(hstate), in.(hin), out.(hout)
			if i.Read {
				return o.Has == s.Has && (!s.Has || (o.Size == s.Size && o.Root == s.Root)), s
			}
			if o.Code == 500 {
				return i.Overlapped, s
			}
			class, next := refwitness.Step(refwitness.LogState{Has: s.Has, Size: s.Size, Root: []byte(s.Root)}, i.Req)
			switch class {
			case refwitness.AcceptFirst, refwitness.Accept:
				return o.Code == 200 && o.SigOK, hstate{Has: true, Size: next.Size, Root: string(next.Root)}
			case refwitness.BadSignature:
				return o.Code == 403, s
			case refwitness.UnknownLog:
				return o.Code == 404, s
			case refwitness.OldTooLarge:
				return o.Code == 400, s
			case refwitness.Stale:
				return o.Code == 409 && o.CT == "text/x.tlog.size" && o.Body == fmt.Sprintf("%d\n", s.Size), s
			case refwitness.RootMismatch:
				return o.Code == 409, s
			case refwitness.BadProof:
				return o.Code == 422, s
			}
			return false, s
		},
		Equal: func(a, b any) bool { return a.(hstate) == b.(hstate) },
		DescribeOperation: func(in, out any) string {
			o := out.(hout)
			if in.(hin).Read {
				return fmt.Sprintf("read -> has=%v size=%d", o.Has, o.Size)
			}
			return fmt.Sprintf("%s -> %d %q sig_ok=%v", in.(hin).Desc, o.Code, o.Body, o.SigOK)
		},
	}
}

// cosigOK: the 200 body is one or more cosignature lines, each verifying under key over the submitted text.
func cosigOK(key refnote.Key, cp []byte, body string) bool {
	sub, err := refnote.Parse(cp)
	if err != nil || body == "" || !strings.HasSuffix(body, "\n") {
		return false
	}
	for _, line := range strings.Split(strings.TrimSuffix(body, "\n"), "\n") {
		n, err := refnote.Parse(refnote.Assemble(sub.Text, line))
		if err != nil || len(n.Sigs) != 1 {
			return false
		}
		if ok, _ := key.Verify(sub.Text, n.Sigs[0]); !ok {
			return false
		}
	}
	return true
}

type preq struct {
	old   uint64
	cp    []byte
	proof [][]byte
	desc  string
	req   refwitness.Req
}

func mkReq(l *gen.Log, old uint64, cp []byte, proof [][]byte, desc string) preq {
	a, body := l.Judge(cp)
	q := refwitness.Req{Known: true, Authentic: a, OldSize: old, Proof: proof}
	if body != nil {
		q.Size, q.Root = body.Size, body.Root
	}
	return preq{old: old, cp: cp, proof: proof, desc: desc, req: q}
}

var pairKinds = []string{"junk_proof_in_flight_then_same_checkpoint_honest", "same_old_size_other_checkpoint", "genuine_in_flight_then_forged", "identical_pair", "same_old_size_fork"}

// Pairs: one assembled service (Main + stub bastion, storage behind a gate), several logs; on each log one
// scripted pair of overlapping add-checkpoint requests: the first is parked where the witness opens its
// write handle, the second is sent while it is parked, then the first is released. The recorded history
// (call/return times at the stub bastion, i.e. at the client boundary) plus reads of the witness's own
// endpoint is checked against httpModel with porcupine.
func Pairs(run *ev.Run, unit int64, r *rand.Rand, dir string) {
	nl := 5
	u := gen.NewUniverse(r, gen.Opts{NLogs: nl, MaxSize: 16, Branches: 2, Unique: true})
	for _, l := range u.Logs {
		l.ReplaceBranch(1, &reftree.Tree{Seed: l.Branches[0].Seed, TagA: 1, TagB: 3, Fork: 2})
	}
	keys, _ := wit.NewWitKeys(r, []bool{false, true}, true)
	kind := []string{"mem", "sqlfile"}[unit%2]
	st, err := wit.NewStore(kind, dir)
	if err != nil {
		run.Inconclusive(err.Error())
		return
	}
	defer st.Close()
	hs := seams.NewHookStore(st.P)
	gate := asm.NewGate()
	hs.SetHook(gate.Hook)
	var specs []asm.LogSpec
	for _, l := range u.Logs {
		specs = append(specs, asm.LogSpec{Log: l})
	}
	svc, err := asm.Start(asm.Opts{Logs: specs, Keys: keys, Store: hs, Bastion: true})
	if err != nil {
		run.Inconclusive("assembled service: " + err.Error())
		return
	}
	defer func() {
		if !svc.Stop() {
			run.Inconclusive("watchdog: Main did not return after the bastion connection was closed and its context cancelled")
		}
	}()
	run.Count("assembled_services")
	wkey := keys.Keys[1]
	t0 := time.Now()
	now := func() int64 { return int64(time.Since(t0)) }
	for li, l := range u.Logs {
		k := int((unit*int64(nl) + int64(li)) % int64(len(pairKinds)))
		a := 1 + r.Uint64N(4)
		b := a + 1 + r.Uint64N(4)
		c := b + 1 + r.Uint64N(4)
		first := mkReq(l, a, l.Honest(0, b), l.Branches[0].Consistency(a, b), fmt.Sprintf("update %d->%d", a, b))
		var second preq
		switch pairKinds[k] {
		case "junk_proof_in_flight_then_same_checkpoint_honest":
			junk := [][]byte{make([]byte, 32), make([]byte, 32)}
			junk[0][0], junk[1][5] = 7, 9
			second = first
			second.desc += " (same bytes, correct proof)"
			first = mkReq(l, a, first.cp, junk, fmt.Sprintf("update %d->%d with a junk proof", a, b))
		case "same_old_size_other_checkpoint":
			second = mkReq(l, a, l.Honest(0, c), l.Branches[0].Consistency(a, c), fmt.Sprintf("update %d->%d", a, c))
			if r.IntN(2) == 0 {
				first, second = second, first
			}
		case "genuine_in_flight_then_forged":
			text := refnote.Body(l.Origin, c, l.Root(0, c))
			var seed [32]byte
			seed[0], seed[1] = byte(unit), byte(li)
			imp := refnote.NewSignKey(l.Key.Name, seed)
			second = mkReq(l, a, refnote.Assemble(text, imp.SigLine(text)), l.Branches[0].Consistency(a, c), fmt.Sprintf("update %d->%d signed by an impostor key of the same name", a, c))
		case "identical_pair":
			second = first
			second.desc += " (identical request)"
		case "same_old_size_fork":
			second = mkReq(l, a, l.Honest(1, b), l.Branches[1].Consistency(a, b), fmt.Sprintf("update %d->%d on a fork", a, b))
		}
		var ops []porcupine.Operation
		var mu sync.Mutex
		judged := true
		do := func(client int, q preq) {
			call := now()
			code, ct, body := svc.Post(asm.Body(q.old, q.proof, q.cp), 30*time.Second)
			ret := now()
			o := hout{Code: code, CT: ct, Body: body}
			if code == 200 {
				o.SigOK = cosigOK(wkey, q.cp, body)
			}
			mu.Lock()
			if code < 0 {
				judged = false
			}
			ops = append(ops, porcupine.Operation{ClientId: client, Input: hin{Req: q.req, Desc: q.desc}, Call: call, Output: o, Return: ret})
			mu.Unlock()
		}
		read := func(client int) {
			call := now()
			raw := svc.Checkpoint(l.ID)
			ret := now()
			o := hout{}
			if raw != nil {
				if n, err := refnote.Parse(raw); err == nil {
					if cp, err := refnote.ParseCheckpoint(n.Text); err == nil {
						o.Has, o.Size, o.Root = true, cp.Size, string(cp.Root)
					}
				}
				if !o.Has {
					o.Has, o.Size = true, ^uint64(0) // served bytes that are no checkpoint: never legal
				}
			}
			mu.Lock()
			ops = append(ops, porcupine.Operation{ClientId: client, Input: hin{Read: true}, Call: call, Output: o, Return: ret})
			mu.Unlock()
		}
		do(0, mkReq(l, 0, l.Honest(0, a), nil, fmt.Sprintf("first use at %d", a)))
		read(0)
		release := gate.Hold(seams.OpWriteOps, l.ID, 1)
		var wg sync.WaitGroup
		wg.Add(1)
		go func() { defer wg.Done(); do(1, first) }()
		parked := gate.WaitEntered(10 * time.Second)
		secondDone := make(chan struct{})
		wg.Add(1)
		go func() { defer wg.Done(); do(2, second); close(secondDone) }()
		answeredWhileParked := false
		select {
		case <-secondDone:
			answeredWhileParked = parked
		case <-time.After(3 * time.Second):
		}
		if answeredWhileParked {
			read(3)
		}
		release()
		wg.Wait()
		read(0)
		run.Count("evaluations")
		run.Count("assembled_pairs")
		if !parked {
			run.Count("assembled_pairs_first_never_reached_storage")
		}
		if answeredWhileParked {
			run.Count("assembled_pairs_second_answered_while_first_parked")
		}
		if !judged {
			run.Count("assembled_pairs_unjudged_transport_error")
			continue
		}
		// overlap marks
		for x := range ops {
			ix := ops[x].Input.(hin)
			for y := range ops {
				iy := ops[y].Input.(hin)
				if x != y && !ix.Read && !iy.Read && ops[x].Call < ops[y].Return && ops[y].Call < ops[x].Return {
					ix.Overlapped = true
				}
			}
			ops[x].Input = ix
		}
		var shape []string
		for _, o := range ops {
			if !o.Input.(hin).Read {
				shape = append(shape, fmt.Sprint(o.Output.(hout).Code))
			}
		}
		run.Distinct("nontrivial", fmt.Sprintf("assembled_pair/%s/%s/%s", pairKinds[k], kind, strings.Join(shape, ",")))
		res, info := porcupine.CheckOperationsVerbose(httpModel(), ops, 20*time.Second)
		_ = info
		switch res {
		case porcupine.Unknown:
			run.Inconclusive("porcupine timed out on an assembled pair")
		case porcupine.Illegal:
			var hist []string
			for _, o := range ops {
				hist = append(hist, fmt.Sprintf("[%d..%d] client %d: %s", o.Call/1e3, o.Return/1e3, o.ClientId, httpModel().DescribeOperation(o.Input, o.Output)))
			}
			run.Violate("assembled_not_linearizable;"+pairKinds[k], fmt.Sprintf("through the assembled service (omniwitness.Main + bastion endpoint, %s store) the answers to two overlapping requests of one log match no sequential order of the update rules: %s", kind, strings.Join(hist, " | ")), unit, map[string]any{"history": hist, "kind": pairKinds[k], "store": kind, "log": l.Origin})
		}
	}
}
