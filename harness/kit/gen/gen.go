// Package gen is the hostile update-request generator shared by the
// history-driven monitors. It imports nothing from the witness module: logs,
// keys, trees and notes are built with reftree/refnote only.
package gen

import (
	"encoding/base64"
	"fmt"
	"math/rand/v2"
	"strings"
	"sync"

	"github.com/transparency-dev/witness/internal/verif/kit/refnote"
	"github.com/transparency-dev/witness/internal/verif/kit/reftree"
)

// BS names a tree a root may commit to.
type BS struct {
	Branch int
	Size   uint64
}

// Log is one (possibly forking) log of a universe.
type Log struct {
	Idx      int
	Origin   string
	ID       string
	Key      *refnote.SignKey
	Branches []*reftree.Tree
	U        *Universe

	mu    sync.Mutex
	roots map[string][]BS
	extN  int
}

// Universe is a set of logs the witness under test is configured with.
type Universe struct {
	Logs    []*Log
	MaxSize uint64 // honest sizes are drawn from 0..MaxSize
	Big     bool   // uniform region trees, sizes up to 2^BigBits
	BigBits uint
	// Unique makes every honest checkpoint carry a unique extension line.
	Unique bool
	// Lazy: the root index is filled as roots are computed (large size ranges).
	Lazy bool
	// Foreign keys: never configured anywhere.
	Foreign []*refnote.SignKey
}

// Opts configures NewUniverse.
type Opts struct {
	NLogs     int
	MaxSize   uint64
	Big       bool
	BigBits   uint
	ShareKeys bool // some logs share one key under different origins
	Branches  int  // per log, >= 1
	Unique    bool
	HandIDs   bool // some IDs are hand-made rather than hex(SHA-256("o:"+origin))
	// SameKeyNames: some logs use a key with the same NAME as another log's key but different key material (a rotated key).
	SameKeyNames bool
}

func seed32(r *rand.Rand) (s [32]byte) {
	for i := 0; i < 32; i += 8 {
		v := r.Uint64()
		for j := 0; j < 8; j++ {
			s[i+j] = byte(v >> (8 * j))
		}
	}
	return
}

var originShapes = []string{
	"log%d.example/%x",
	"example.com/log %d with spaces/%x",
	"transparency.example/firmware/%d/%x",
	"rekor.example - %d%x",
	"lög-%d.example/ünï/%x",
	"x%d%x",
}

// NewUniverse draws a universe.
func NewUniverse(r *rand.Rand, o Opts) *Universe {
	u := &Universe{MaxSize: o.MaxSize, Big: o.Big, BigBits: o.BigBits, Unique: o.Unique, Lazy: o.Big || o.MaxSize > 64}
	if o.Branches < 1 {
		o.Branches = 1
	}
	for i := 0; i < o.NLogs; i++ {
		l := &Log{Idx: i, U: u, roots: map[string][]BS{}}
		l.Origin = fmt.Sprintf(originShapes[r.IntN(len(originShapes))], i, r.Uint64()) // 64 random bits: IDs must be unique across all units of a run
		l.ID = refnote.LogID(l.Origin)
		if o.HandIDs && r.IntN(3) == 0 {
			l.ID = fmt.Sprintf("hand-made-id-%d", i)
		}
		if o.ShareKeys && i > 0 && r.IntN(2) == 0 {
			other := u.Logs[r.IntN(i)]
			l.Key = other.Key
			if r.IntN(2) == 0 {
				// numbered shards: this origin strictly extends the other log's origin (".../1" vs ".../10")
				l.Origin = other.Origin + []string{"0", "/ci", "-2", " b"}[r.IntN(4)]
				for dup := true; dup; {
					dup = false
					for _, e := range u.Logs {
						if e.Origin == l.Origin {
							dup = true
							l.Origin += "1"
						}
					}
				}
				l.ID = refnote.LogID(l.Origin)
			}
		} else {
			name := fmt.Sprintf("logkey%d.example", i)
			if o.SameKeyNames && i > 0 && r.IntN(2) == 0 {
				name = u.Logs[r.IntN(i)].Key.Name
			}
			l.Key = refnote.NewSignKey(name, seed32(r))
		}
		seed := r.Uint64()
		for b := 0; b < o.Branches; b++ {
			t := &reftree.Tree{Seed: seed, TagA: 1, TagB: 1, Fork: ^uint64(0), Uniform: o.Big}
			if b > 0 {
				t.TagB = uint32(b + 1)
				if o.Big {
					t.Fork = u.bigSize(r)
				} else {
					t.Fork = r.Uint64N(o.MaxSize + 1)
				}
			}
			l.Branches = append(l.Branches, t)
		}
		if !u.Lazy {
			for b, t := range l.Branches {
				for s := uint64(0); s <= o.MaxSize; s++ {
					rt := t.Root(s)
					l.roots[string(rt[:])] = append(l.roots[string(rt[:])], BS{b, s})
				}
			}
		}
		u.Logs = append(u.Logs, l)
	}
	for i := 0; i < 2; i++ {
		u.Foreign = append(u.Foreign, refnote.NewSignKey(fmt.Sprintf("foreign%d.example", i), seed32(r)))
	}
	return u
}

func (u *Universe) bigSize(r *rand.Rand) uint64 {
	bits := 1 + r.UintN(u.BigBits)
	v := r.Uint64() >> (64 - bits)
	switch r.IntN(4) {
	case 0:
		v = uint64(1) << (bits - 1) // power of two
	case 1:
		v = (uint64(1) << (bits - 1)) + 1
	}
	if v == 0 {
		v = 1
	}
	return v
}

// NewLog builds a single log over given trees (for harnesses that bring their own tree).
func NewLog(u *Universe, idx int, origin, id string, key *refnote.SignKey, branches ...*reftree.Tree) *Log {
	return &Log{Idx: idx, Origin: origin, ID: id, Key: key, Branches: branches, U: u, roots: map[string][]BS{}}
}

// ReplaceBranch swaps in a new tree object for branch b and rebuilds the root index.
// (Never mutate the fields of a Tree that has been used: its memo would be stale.)
func (l *Log) ReplaceBranch(b int, t *reftree.Tree) {
	l.mu.Lock()
	l.Branches[b] = t
	l.roots = map[string][]BS{}
	l.mu.Unlock()
	if !l.U.Lazy {
		for bi, tr := range l.Branches {
			for s := uint64(0); s <= l.U.MaxSize; s++ {
				rt := tr.Root(s)
				l.mu.Lock()
				l.roots[string(rt[:])] = append(l.roots[string(rt[:])], BS{bi, s})
				l.mu.Unlock()
			}
		}
	}
}

// Root returns the root of (branch,size) and remembers it for Lookup.
func (l *Log) Root(b int, size uint64) []byte {
	rt := l.Branches[b].Root(size)
	if l.U.Lazy {
		l.mu.Lock()
		k := string(rt[:])
		found := false
		for _, e := range l.roots[k] {
			if e.Branch == b && e.Size == size {
				found = true
			}
		}
		if !found {
			l.roots[k] = append(l.roots[k], BS{b, size})
		}
		l.mu.Unlock()
	}
	return rt[:]
}

// Lookup returns the trees of this log a root may commit to (nil: phantom).
func (l *Log) Lookup(root []byte) []BS {
	l.mu.Lock()
	defer l.mu.Unlock()
	return l.roots[string(root)]
}

// Prefix reports, on leaves, whether tree (b1,s1) is a prefix of tree (b2,s2).
func (l *Log) Prefix(b1 int, s1 uint64, b2 int, s2 uint64) bool {
	return s1 <= s2 && l.Branches[b1].SharesPrefix(l.Branches[b2], s1)
}

// Deco are the optional decorations of an honest checkpoint note.
type Deco struct {
	Ext        []string // extension lines
	UnknownSig int      // number of extra signature lines by unknown keys
	DupLogSig  bool
	ExtraLines []string // verbatim extra signature lines (appended after the log's)
	SigFirst   []string // verbatim signature lines placed before the log's
}

func (l *Log) nextExt() string {
	l.mu.Lock()
	l.extN++
	n := l.extN
	l.mu.Unlock()
	return fmt.Sprintf("u-%d-%d", l.Idx, n)
}

// Note builds a note over the given body text signed by key k with decorations.
func (l *Log) Note(r *rand.Rand, k *refnote.SignKey, text string, d Deco) []byte {
	lines := append([]string{}, d.SigFirst...)
	lg := k.SigLine(text)
	lines = append(lines, lg)
	if d.DupLogSig {
		lines = append(lines, lg)
	}
	for i := 0; i < d.UnknownSig; i++ {
		raw := make([]byte, 4+64)
		for j := range raw {
			raw[j] = byte(r.Uint32())
		}
		lines = append(lines, fmt.Sprintf("— junk%d.example %s", i, base64.StdEncoding.EncodeToString(raw)))
	}
	lines = append(lines, d.ExtraLines...)
	return refnote.Assemble(text, lines...)
}

// Honest is a clean checkpoint of (branch,size) bearing just the log's signature.
func (l *Log) Honest(b int, size uint64) []byte {
	ext := []string{}
	if l.U.Unique {
		ext = append(ext, l.nextExt())
	}
	return refnote.Assemble(refnote.Body(l.Origin, size, l.Root(b, size), ext...), l.Key.SigLine(refnote.Body(l.Origin, size, l.Root(b, size), ext...)))
}

// View is what the monitor knows about the witness's current state for a log.
type View struct {
	Has  bool
	Size uint64
	Root []byte
	Raw  []byte
}

// Request is one generated update request with its provenance.
type Request struct {
	Log       *Log
	LogID     string // the ID used in the call (may be an unknown one)
	OldSize   uint64
	CP        []byte
	Proof     [][]byte
	CPKind    string
	OldKind   string
	ProofKind string
	// Branch/Size are set when the checkpoint body commits to a tree of the universe.
	Branch int
	Size   uint64
	Tree   bool
	// Ambiguous marks notes whose acceptability the statements leave open
	// (e.g. more signature lines than the note library will re-open).
	Ambiguous bool
}

func (q *Request) String() string {
	return fmt.Sprintf("log=%d id=%.12s old=%d(%s) cp=%s tree=%v b=%d size=%d proof=%s(%d) amb=%v", q.Log.Idx, q.LogID, q.OldSize, q.OldKind, q.CPKind, q.Tree, q.Branch, q.Size, q.ProofKind, len(q.Proof), q.Ambiguous)
}

type weighted struct {
	name string
	w    int
}

func pick(r *rand.Rand, ws []weighted) string {
	t := 0
	for _, w := range ws {
		t += w.w
	}
	x := r.IntN(t)
	for _, w := range ws {
		if x < w.w {
			return w.name
		}
		x -= w.w
	}
	return ws[len(ws)-1].name
}

var cpMenu = []weighted{
	{"honest", 62}, {"phantom", 5}, {"wrongkey", 3}, {"otherlogkey", 4}, {"wrongorigin", 4},
	{"otherlog_verbatim", 4}, {"mutated", 10}, {"garbage", 3}, {"unknown_id", 3}, {"samekeyname_foreign", 2},
	{"replay_accepted_elsewhere", 3},
}

var oldMenu = []weighted{
	{"cur", 62}, {"zero", 8}, {"cur-1", 4}, {"cur+1", 4}, {"submitted", 6}, {"submitted+1", 4},
	{"2^63", 2}, {"max", 2}, {"uniform", 8},
}

var proofMenu = []weighted{
	{"correct_cur", 58}, {"correct_old", 7}, {"neighbour", 6}, {"other_branch", 6}, {"empty", 7},
	{"drop_first", 2}, {"drop_last", 2}, {"add_front", 2}, {"add_back", 2}, {"flip", 3},
	{"random_same_count", 2}, {"len31", 1}, {"len33", 1}, {"replay", 1},
}

// Session carries per-history generator memory (for replays).
type Session struct {
	LastProof [][]byte
	// WitnessSigners is the number of keys the witness signs with (needed to
	// flag notes that would exceed the note library's line limit once cosigned).
	WitnessSigners int
	// Pool points at the byte strings this witness has accepted or returned so far, for any
	// log (shared by all sessions of one witness): material for cross-log replays.
	Pool *[]PoolEntry
}

// PoolEntry is a checkpoint the witness accepted (as submitted) or handed out (cosigned).
type PoolEntry struct {
	Log int
	Raw []byte
}

func (u *Universe) sizeNear(r *rand.Rand, cur uint64) uint64 {
	if u.Big {
		switch r.IntN(6) {
		case 0:
			return cur
		case 1:
			return cur + 1
		case 2:
			return cur + 1 + r.Uint64N(300)
		case 3:
			if cur > 1 {
				return cur * 2
			}
			return 2
		}
		s := u.bigSize(r)
		if s < cur && r.IntN(4) != 0 {
			s += cur
		}
		return s
	}
	var s uint64
	switch r.IntN(10) {
	case 0, 1:
		s = cur
	case 2:
		if cur > 0 {
			s = r.Uint64N(cur)
		}
	case 3:
		s = r.Uint64N(u.MaxSize + 1)
	default:
		s = cur + 1 + r.Uint64N(8)
	}
	if s > u.MaxSize {
		s = u.MaxSize
	}
	return s
}

// Compatible lists the branches whose tree of size v.Size has root v.Root.
func (l *Log) Compatible(v View) []int {
	var out []int
	if !v.Has {
		for b := range l.Branches {
			out = append(out, b)
		}
		return out
	}
	for _, e := range l.Lookup(v.Root) {
		if e.Size == v.Size {
			out = append(out, e.Branch)
		}
	}
	return out
}

// Next draws the next hostile request for log l given the witness's view.
func (u *Universe) Next(r *rand.Rand, l *Log, v View, s *Session) *Request {
	q := &Request{Log: l, LogID: l.ID}
	q.CPKind = pick(r, cpMenu)
	other := u.Logs[r.IntN(len(u.Logs))]

	// choose an honest (branch,size) as the base of most kinds
	comp := l.Compatible(v)
	b := r.IntN(len(l.Branches))
	if len(comp) > 0 && r.IntN(4) != 0 {
		b = comp[r.IntN(len(comp))]
	}
	size := u.sizeNear(r, v.Size)
	text := func(origin string, ext ...string) string {
		return refnote.Body(origin, size, l.Root(b, size), ext...)
	}
	var d Deco
	if u.Unique {
		d.Ext = append(d.Ext, l.nextExt())
	}
	switch q.CPKind {
	case "honest":
		q.Tree, q.Branch, q.Size = true, b, size
		if r.IntN(7) == 0 {
			d.Ext = append(d.Ext, fmt.Sprintf("ext %d", r.Uint32()))
			if r.IntN(3) == 0 {
				// extension lines are opaque text: percent signs, printf verbs, escapes are all ordinary bytes
				d.Ext = append(d.Ext, []string{"rollout 50%done %s %d %v", "path=/a%2Fb?x=%41", "100% %!x(MISSING) %%", `back\\slash \\n stays two characters`}[r.IntN(4)])
			}
			if r.IntN(4) == 0 {
				d.Ext = append(d.Ext, "", "after-blank")
			}
		}
		switch x := r.IntN(40); {
		case x < 4:
			d.UnknownSig = 1 + r.IntN(5)
		case x == 4:
			d.UnknownSig = 90 + r.IntN(10) // 1 log line + up to 99 others: still within the library limit
		}
		if r.IntN(20) == 0 {
			d.DupLogSig = true
		}
		if v.Raw != nil && r.IntN(12) == 0 {
			// a stale copy of the witness's own signature lines (from the stored checkpoint)
			if n, err := refnote.Parse(v.Raw); err == nil {
				for _, sg := range n.Sigs {
					if sg.Name != l.Key.Name {
						d.ExtraLines = append(d.ExtraLines, sg.Line)
					}
				}
			}
		}
		if other != l && other.Key != l.Key && r.IntN(15) == 0 {
			// another configured log's (valid) signature over this text
			d.ExtraLines = append(d.ExtraLines, other.Key.SigLine(text(l.Origin, d.Ext...)))
		}
		q.CP = l.Note(r, l.Key, text(l.Origin, d.Ext...), d)
		nl := 1 + d.UnknownSig + len(d.ExtraLines)
		if nl+s.WitnessSigners > 100 {
			q.Ambiguous = true
		}
		if v.Raw != nil && !u.Unique && r.IntN(25) == 0 {
			// resubmit the stored cosigned checkpoint verbatim (stale witness signature, same text)
			q.CP = append([]byte{}, v.Raw...)
			q.CPKind = "honest_resubmit_cosigned"
			q.Tree = false
			if n, err := refnote.Parse(v.Raw); err == nil {
				if cp, err := refnote.ParseCheckpoint(n.Text); err == nil {
					for _, e := range l.Lookup(cp.Root) {
						if e.Size == cp.Size {
							q.Tree, q.Branch, q.Size = true, e.Branch, e.Size
						}
					}
					size = cp.Size
				}
			}
		}
	case "phantom":
		hl := []int{32, 32, 32, 0, 5, 33}[r.IntN(6)]
		root := make([]byte, hl)
		for i := range root {
			root[i] = byte(r.Uint32())
		}
		t := refnote.Body(l.Origin, size, root, d.Ext...)
		q.CP = l.Note(r, l.Key, t, Deco{})
		q.Size = size
	case "wrongkey":
		q.CP = l.Note(r, u.Foreign[r.IntN(len(u.Foreign))], text(l.Origin, d.Ext...), Deco{})
	case "samekeyname_foreign":
		fk := refnote.NewSignKey(l.Key.Name, seed32(r))
		q.CP = l.Note(r, fk, text(l.Origin, d.Ext...), Deco{})
	case "otherlogkey":
		q.CP = l.Note(r, other.Key, text(l.Origin, d.Ext...), Deco{})
		if other.Key == l.Key {
			q.CPKind = "honest"
			q.Tree, q.Branch, q.Size = true, b, size
		}
	case "wrongorigin":
		o := other.Origin
		if other == l {
			o = l.Origin + "x"
		}
		q.CP = l.Note(r, l.Key, text(o, d.Ext...), Deco{})
	case "otherlog_verbatim":
		if other == l {
			q.CPKind = "honest"
			q.Tree, q.Branch, q.Size = true, b, size
			q.CP = l.Note(r, l.Key, text(l.Origin, d.Ext...), Deco{})
		} else {
			ob := r.IntN(len(other.Branches))
			q.CP = other.Honest(ob, size)
		}
	case "replay_accepted_elsewhere":
		// exact bytes this witness already accepted or returned for ANOTHER log, now under this log's ID
		var cands []PoolEntry
		if s.Pool != nil {
			for _, e := range *s.Pool {
				if e.Log != l.Idx {
					cands = append(cands, e)
				}
			}
		}
		if len(cands) == 0 {
			q.CPKind = "honest"
			q.Tree, q.Branch, q.Size = true, b, size
			q.CP = l.Note(r, l.Key, text(l.Origin, d.Ext...), Deco{})
		} else {
			q.CP = append([]byte{}, cands[r.IntN(len(cands))].Raw...)
		}
	case "mutated":
		base := l.Note(r, l.Key, text(l.Origin, d.Ext...), Deco{})
		q.CP = Mutate(r, base)
	case "garbage":
		n := r.IntN(400)
		q.CP = make([]byte, n)
		for i := range q.CP {
			q.CP[i] = byte(r.Uint32())
		}
	case "unknown_id":
		q.Tree, q.Branch, q.Size = true, b, size
		q.CP = l.Note(r, l.Key, text(l.Origin, d.Ext...), Deco{})
		switch r.IntN(4) {
		case 0:
			q.LogID = l.Origin
		case 1:
			q.LogID = l.ID[:len(l.ID)-1]
		case 2:
			q.LogID = strings.ToUpper(l.ID)
			if q.LogID == l.ID {
				q.LogID += "0"
			}
		default:
			q.LogID = fmt.Sprintf("%064x", r.Uint64())
		}
	}

	// old size
	q.OldKind = pick(r, oldMenu)
	switch q.OldKind {
	case "cur":
		q.OldSize = v.Size
	case "zero":
		q.OldSize = 0
	case "cur-1":
		q.OldSize = v.Size - 1 // wraps to 2^64-1 at 0 on purpose
	case "cur+1":
		q.OldSize = v.Size + 1
	case "submitted":
		q.OldSize = size
	case "submitted+1":
		q.OldSize = size + 1
	case "2^63":
		q.OldSize = 1 << 63
	case "max":
		q.OldSize = ^uint64(0)
	case "uniform":
		if u.Big {
			q.OldSize = u.bigSize(r)
		} else {
			q.OldSize = r.Uint64N(u.MaxSize + 2)
		}
	}

	// proof
	q.ProofKind = pick(r, proofMenu)
	cons := func(b int, m, n uint64) [][]byte {
		if !u.Big && (m > u.MaxSize || n > u.MaxSize) {
			return [][]byte{}
		}
		if u.Big && (m > 1<<63 || n > 1<<63) {
			return [][]byte{}
		}
		return l.Branches[b].Consistency(m, n)
	}
	correct := cons(b, v.Size, size)
	switch q.ProofKind {
	case "correct_cur":
		q.Proof = correct
	case "correct_old":
		q.Proof = cons(b, q.OldSize, size)
	case "neighbour":
		switch r.IntN(4) {
		case 0:
			q.Proof = cons(b, v.Size+1, size)
		case 1:
			if v.Size > 0 {
				q.Proof = cons(b, v.Size-1, size)
			}
		case 2:
			q.Proof = cons(b, v.Size, size+1)
		default:
			if size > 0 {
				q.Proof = cons(b, v.Size, size-1)
			}
		}
	case "other_branch":
		ob := r.IntN(len(l.Branches))
		q.Proof = cons(ob, v.Size, size)
	case "empty":
		q.Proof = [][]byte{}
	case "drop_first":
		if len(correct) > 0 {
			q.Proof = correct[1:]
		}
	case "drop_last":
		if len(correct) > 0 {
			q.Proof = correct[:len(correct)-1]
		}
	case "add_front":
		q.Proof = append([][]byte{randHash(r, 32)}, correct...)
	case "add_back":
		q.Proof = append(append([][]byte{}, correct...), randHash(r, 32))
	case "flip":
		q.Proof = clone(correct)
		if len(q.Proof) > 0 {
			i := r.IntN(len(q.Proof))
			q.Proof[i][r.IntN(32)] ^= 1 << r.UintN(8)
		}
	case "random_same_count":
		for range correct {
			q.Proof = append(q.Proof, randHash(r, 32))
		}
	case "len31":
		q.Proof = clone(correct)
		if len(q.Proof) > 0 {
			i := r.IntN(len(q.Proof))
			q.Proof[i] = q.Proof[i][:31]
		}
	case "len33":
		q.Proof = clone(correct)
		if len(q.Proof) > 0 {
			i := r.IntN(len(q.Proof))
			q.Proof[i] = append(q.Proof[i], 0)
		}
	case "replay":
		q.Proof = clone(s.LastProof)
	}
	if q.Proof == nil {
		q.Proof = [][]byte{}
	}
	return q
}

func randHash(r *rand.Rand, n int) []byte {
	h := make([]byte, n)
	for i := range h {
		h[i] = byte(r.Uint32())
	}
	return h
}

func clone(p [][]byte) [][]byte {
	o := make([][]byte, len(p))
	for i := range p {
		o[i] = append([]byte{}, p[i]...)
	}
	return o
}

// Mutate applies one structural or bit-level edit to a valid note.
func Mutate(r *rand.Rand, base []byte) []byte {
	b := append([]byte{}, base...)
	if len(b) == 0 {
		return b
	}
	switch r.IntN(8) {
	case 0: // bit flip
		b[r.IntN(len(b))] ^= 1 << r.UintN(8)
	case 1: // truncate
		b = b[:r.IntN(len(b))]
	case 2: // drop a line
		ls := strings.SplitAfter(string(b), "\n")
		i := r.IntN(len(ls))
		b = []byte(strings.Join(append(append([]string{}, ls[:i]...), ls[i+1:]...), ""))
	case 3: // duplicate a line
		ls := strings.SplitAfter(string(b), "\n")
		i := r.IntN(len(ls))
		b = []byte(strings.Join(append(append(append([]string{}, ls[:i+1]...), ls[i]), ls[i+1:]...), ""))
	case 4: // swap two lines
		ls := strings.SplitAfter(string(b), "\n")
		i, j := r.IntN(len(ls)), r.IntN(len(ls))
		ls[i], ls[j] = ls[j], ls[i]
		b = []byte(strings.Join(ls, ""))
	case 5: // edit the size line
		ls := strings.SplitAfter(string(b), "\n")
		if len(ls) > 1 {
			ls[1] = fmt.Sprintf("%d\n", r.Uint64N(100))
		}
		b = []byte(strings.Join(ls, ""))
	case 6: // edit inside the signature base64
		i := strings.LastIndex(string(b), " ")
		if i > 0 && i+2 < len(b) {
			j := i + 1 + r.IntN(len(b)-i-2)
			b[j] = "ABCDEFGHabcdefgh0123456789+/"[r.IntN(28)]
		}
	case 7: // insert a byte
		i := r.IntN(len(b))
		b = append(b[:i], append([]byte{byte(r.Uint32())}, b[i:]...)...)
	}
	return b
}

// Judge decides with refnote only what a submitted byte string is for log l:
// whether it is authentic (text signed by the harness with l's key, first line
// l's origin, a verifying signature line by l's key, well-formed body) and,
// if so, its parsed body.
func (l *Log) Judge(cp []byte) (authentic bool, body *refnote.Checkpoint) {
	n, err := refnote.Parse(cp)
	if err != nil {
		return false, nil
	}
	if !l.Key.Signed(n.Text) {
		return false, nil
	}
	if v, _, _ := l.Key.Key(false).ValidSigs(n); len(v) == 0 {
		return false, nil
	}
	c, err := refnote.ParseCheckpoint(n.Text)
	if err != nil || c.Origin != l.Origin {
		return false, nil
	}
	return true, c
}
