package seams

import (
	"strings"
	"sync"

	"github.com/transparency-dev/witness/monitoring"
)

// RecMetrics is a monitoring.MetricFactory that records every increment.
type RecMetrics struct {
	mu    sync.Mutex
	vals  map[string]int64 // "counter|label|label"
	names []string
}

func NewRecMetrics() *RecMetrics { return &RecMetrics{vals: map[string]int64{}} }

type recCounter struct {
	f    *RecMetrics
	name string
}

func (f *RecMetrics) NewCounter(name, help string, labelNames ...string) monitoring.Counter {
	f.mu.Lock()
	f.names = append(f.names, name)
	f.mu.Unlock()
	return &recCounter{f: f, name: name}
}

func (c *recCounter) Inc(labelVals ...string) {
	k := c.name + "|" + strings.Join(labelVals, "|")
	c.f.mu.Lock()
	c.f.vals[k]++
	c.f.mu.Unlock()
}

// Snapshot copies all counters.
func (f *RecMetrics) Snapshot() map[string]int64 {
	f.mu.Lock()
	defer f.mu.Unlock()
	o := make(map[string]int64, len(f.vals))
	for k, v := range f.vals {
		o[k] = v
	}
	return o
}

// Get returns one counter value.
func (f *RecMetrics) Get(name string, labels ...string) int64 {
	f.mu.Lock()
	defer f.mu.Unlock()
	return f.vals[name+"|"+strings.Join(labels, "|")]
}

// Delta returns after-before for every key that changed.
func Delta(before, after map[string]int64) map[string]int64 {
	d := map[string]int64{}
	for k, v := range after {
		if v != before[k] {
			d[k] = v - before[k]
		}
	}
	return d
}

// ForLabels returns every counter value whose label list is exactly one of the given labels.
func (f *RecMetrics) ForLabels(labels []string) map[string]int64 {
	f.mu.Lock()
	defer f.mu.Unlock()
	o := map[string]int64{}
	for _, n := range f.names {
		for _, l := range labels {
			if v, ok := f.vals[n+"|"+l]; ok {
				o[n+"|"+l] = v
			}
		}
	}
	return o
}
