// Package seams wraps the narrow interfaces through which the code under test
// reaches shared mutable state: persistence.LogStatePersistence, the SQLite
// database/sql driver and the metric factory. All yield points, faults, kills
// and counter observations go through these wrappers; nothing in /repo is edited.
package seams

import (
	"sync"

	"github.com/transparency-dev/witness/internal/persistence"
)

// Op names used by the hooks.
const (
	OpInit      = "init"
	OpLogs      = "logs"
	OpReadOps   = "readops"
	OpRGet      = "r.getlatest"
	OpWriteOps  = "writeops"
	OpWGet      = "w.getlatest"
	OpWSet      = "w.set"
	OpWSetAfter = "w.set.after" // consulted after the real Set succeeded: error returned although the write happened
	OpWClose    = "w.close"
)

// Hook is consulted before each storage operation (after, for OpWSetAfter).
// A non-nil error is returned to the caller instead of performing the
// operation; Close is always performed and the hook's error returned after it.
type Hook func(op, logID string) error

// HookStore wraps a LogStatePersistence with a Hook and a call log.
type HookStore struct {
	Inner persistence.LogStatePersistence
	mu    sync.Mutex
	hook  Hook
	// OpenWrites counts write handles returned and not yet closed.
	openWrites int
	Calls      []string
	Record     bool
	afterRead  func(logID string)
}

// SetAfterRead installs (or clears) a callback run after a reader's GetLatest has fetched its value and
// before it returns: a pause point for holding one read open while other requests run. It is not a fault
// position and does not appear in the call log.
func (s *HookStore) SetAfterRead(f func(logID string)) { s.mu.Lock(); s.afterRead = f; s.mu.Unlock() }

func NewHookStore(inner persistence.LogStatePersistence) *HookStore { return &HookStore{Inner: inner} }

// SetHook installs (or clears, with nil) the hook.
func (s *HookStore) SetHook(h Hook) { s.mu.Lock(); s.hook = h; s.mu.Unlock() }

// OpenWrites reports write handles not yet closed.
func (s *HookStore) OpenWrites() int { s.mu.Lock(); defer s.mu.Unlock(); return s.openWrites }

func (s *HookStore) call(op, id string) error {
	s.mu.Lock()
	h := s.hook
	if s.Record {
		s.Calls = append(s.Calls, op)
	}
	s.mu.Unlock()
	if h == nil {
		return nil
	}
	return h(op, id)
}

func (s *HookStore) Init() error {
	if err := s.call(OpInit, ""); err != nil {
		return err
	}
	return s.Inner.Init()
}

func (s *HookStore) Logs() ([]string, error) {
	if err := s.call(OpLogs, ""); err != nil {
		return nil, err
	}
	return s.Inner.Logs()
}

func (s *HookStore) ReadOps(id string) (persistence.LogStateReadOps, error) {
	if err := s.call(OpReadOps, id); err != nil {
		return nil, err
	}
	r, err := s.Inner.ReadOps(id)
	if err != nil {
		return nil, err
	}
	return &hookReader{s: s, id: id, r: r}, nil
}

func (s *HookStore) WriteOps(id string) (persistence.LogStateWriteOps, error) {
	if err := s.call(OpWriteOps, id); err != nil {
		return nil, err
	}
	w, err := s.Inner.WriteOps(id)
	if err != nil {
		return nil, err
	}
	s.mu.Lock()
	s.openWrites++
	s.mu.Unlock()
	return &hookWriter{s: s, id: id, w: w}, nil
}

type hookReader struct {
	s  *HookStore
	id string
	r  persistence.LogStateReadOps
}

func (r *hookReader) GetLatest() ([]byte, error) {
	if err := r.s.call(OpRGet, r.id); err != nil {
		return nil, err
	}
	b, err := r.r.GetLatest()
	r.s.mu.Lock()
	f := r.s.afterRead
	r.s.mu.Unlock()
	if f != nil {
		f(r.id)
	}
	return b, err
}

type hookWriter struct {
	s      *HookStore
	id     string
	w      persistence.LogStateWriteOps
	closed bool
}

func (w *hookWriter) GetLatest() ([]byte, error) {
	if err := w.s.call(OpWGet, w.id); err != nil {
		return nil, err
	}
	return w.w.GetLatest()
}

func (w *hookWriter) Set(c []byte) error {
	if err := w.s.call(OpWSet, w.id); err != nil {
		return err
	}
	if err := w.w.Set(c); err != nil {
		return err
	}
	return w.s.call(OpWSetAfter, w.id)
}

func (w *hookWriter) Close() error {
	herr := w.s.call(OpWClose, w.id)
	err := w.w.Close()
	w.s.mu.Lock()
	if !w.closed {
		w.closed = true
		w.s.openWrites--
	}
	w.s.mu.Unlock()
	if herr != nil {
		return herr
	}
	return err
}
