package seams

import (
	"context"
	"database/sql"
	"database/sql/driver"
	"io"
	"sync"

	sqlite3 "github.com/mattn/go-sqlite3"
)

// SQL operation names seen by the wrapping driver.
const (
	SQLBegin    = "begin"
	SQLQuery    = "query"
	SQLExec     = "exec"
	SQLCommit   = "commit"
	SQLRollback = "rollback"
	SQLPrepare  = "prepare"
	SQLNext     = "next" // fetching a result row (where SQLite reports BUSY / IOERR of a running statement)
)

// SQLPlan observes and perturbs the driver operations of one database handle.
// Hook is called before ("before") and after ("after") every operation with the
// running operation index; a non-nil error from a "before" call is returned
// instead of performing the operation (for commit and rollback the real
// ROLLBACK is performed first, as go-sqlite3 itself does when COMMIT fails,
// because database/sql regards the transaction as finished either way); a
// non-nil error from an "after" call replaces a successful result.
type SQLPlan struct {
	mu   sync.Mutex
	n    int
	Log  []string
	Hook func(op string, idx int, phase string) error
	// AfterRowsClose, if set, runs after a result set has been closed (statement reset, no lock held any
	// more) and before the caller gets its row: a pause point, not a counted operation.
	AfterRowsClose func()
}

func (p *SQLPlan) step(op string) (int, func(string) error) {
	p.mu.Lock()
	idx := p.n
	p.n++
	p.Log = append(p.Log, op)
	h := p.Hook
	p.mu.Unlock()
	if h == nil {
		return idx, func(string) error { return nil }
	}
	return idx, func(phase string) error { return h(op, idx, phase) }
}

// Ops returns a copy of the operation log and the count.
func (p *SQLPlan) Ops() []string {
	p.mu.Lock()
	defer p.mu.Unlock()
	return append([]string{}, p.Log...)
}

// Reset clears the log and counter.
func (p *SQLPlan) Reset() { p.mu.Lock(); p.n = 0; p.Log = nil; p.mu.Unlock() }

// SetHook installs a hook.
func (p *SQLPlan) SetHook(h func(op string, idx int, phase string) error) {
	p.mu.Lock()
	p.Hook = h
	p.mu.Unlock()
}

type vconnector struct {
	dsn  string
	plan *SQLPlan
}

func (c *vconnector) Connect(context.Context) (driver.Conn, error) {
	inner, err := (&sqlite3.SQLiteDriver{}).Open(c.dsn)
	if err != nil {
		return nil, err
	}
	return &vconn{inner: inner.(*sqlite3.SQLiteConn), plan: c.plan}, nil
}

func (c *vconnector) Driver() driver.Driver { return &sqlite3.SQLiteDriver{} }

// OpenVSQLite opens dsn through the wrapping driver with the production pool setting.
func OpenVSQLite(dsn string, plan *SQLPlan) *sql.DB {
	db := sql.OpenDB(&vconnector{dsn: dsn, plan: plan})
	db.SetMaxOpenConns(1)
	return db
}

type vconn struct {
	inner *sqlite3.SQLiteConn
	plan  *SQLPlan
}

func (c *vconn) Prepare(q string) (driver.Stmt, error) {
	return c.PrepareContext(context.Background(), q)
}
func (c *vconn) Close() error { return c.inner.Close() }
func (c *vconn) Begin() (driver.Tx, error) {
	return c.BeginTx(context.Background(), driver.TxOptions{})
}
func (c *vconn) Ping(ctx context.Context) error         { return c.inner.Ping(ctx) }
func (c *vconn) ResetSession(ctx context.Context) error { return nil }
func (c *vconn) IsValid() bool                          { return true }

func (c *vconn) PrepareContext(ctx context.Context, q string) (driver.Stmt, error) {
	_, h := c.plan.step(SQLPrepare)
	if err := h("before"); err != nil {
		return nil, err
	}
	s, err := c.inner.PrepareContext(ctx, q)
	if err == nil {
		if e := h("after"); e != nil {
			s.Close()
			return nil, e
		}
	}
	return s, err
}

func (c *vconn) BeginTx(ctx context.Context, o driver.TxOptions) (driver.Tx, error) {
	_, h := c.plan.step(SQLBegin)
	if err := h("before"); err != nil {
		return nil, err
	}
	tx, err := c.inner.BeginTx(ctx, o)
	if err != nil {
		return nil, err
	}
	if e := h("after"); e != nil {
		_ = tx.Rollback()
		return nil, e
	}
	return &vtx{inner: tx, plan: c.plan}, nil
}

func (c *vconn) ExecContext(ctx context.Context, q string, a []driver.NamedValue) (driver.Result, error) {
	_, h := c.plan.step(SQLExec)
	if err := h("before"); err != nil {
		return nil, err
	}
	r, err := c.inner.ExecContext(ctx, q, a)
	if err == nil {
		if e := h("after"); e != nil {
			return nil, e
		}
	}
	return r, err
}

func (c *vconn) QueryContext(ctx context.Context, q string, a []driver.NamedValue) (driver.Rows, error) {
	_, h := c.plan.step(SQLQuery)
	if err := h("before"); err != nil {
		return nil, err
	}
	r, err := c.inner.QueryContext(ctx, q, a)
	if err == nil {
		if e := h("after"); e != nil {
			r.Close()
			return nil, e
		}
		return &vrows{inner: r, plan: c.plan}, nil
	}
	return r, err
}

// vrows makes every row fetch an operation of its own.
type vrows struct {
	inner driver.Rows
	plan  *SQLPlan
}

func (r *vrows) Columns() []string { return r.inner.Columns() }
func (r *vrows) Close() error {
	err := r.inner.Close()
	r.plan.mu.Lock()
	f := r.plan.AfterRowsClose
	r.plan.mu.Unlock()
	if f != nil {
		f()
	}
	return err
}
func (r *vrows) Next(dest []driver.Value) error {
	_, h := r.plan.step(SQLNext)
	if err := h("before"); err != nil {
		return err
	}
	err := r.inner.Next(dest)
	if err != nil && err != io.EOF {
		return err
	}
	if e := h("after"); e != nil {
		return e
	}
	return err // nil or io.EOF
}

type vtx struct {
	inner driver.Tx
	plan  *SQLPlan
}

func (t *vtx) Commit() error {
	_, h := t.plan.step(SQLCommit)
	if err := h("before"); err != nil {
		_ = t.inner.Rollback() // failed COMMIT: the real driver rolls back and reports the error
		return err
	}
	if err := t.inner.Commit(); err != nil {
		return err
	}
	return h("after") // error reported although the commit happened
}

func (t *vtx) Rollback() error {
	_, h := t.plan.step(SQLRollback)
	if err := h("before"); err != nil {
		_ = t.inner.Rollback()
		return err
	}
	if err := t.inner.Rollback(); err != nil {
		return err
	}
	return h("after")
}
