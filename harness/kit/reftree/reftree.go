// Package reftree is an RFC 6962 Merkle tree written from the text of the RFC
// (section 2.1 for MTH and PROOF, RFC 9162 section 2.1.4.2 for verification).
// It shares no code with the witness or its dependencies and is the ground
// truth the monitors use for "what tree does this root commit to" and "is this
// proof a valid consistency proof".
package reftree

import (
	"bytes"
	"crypto/sha256"
	"encoding/binary"
	"math/bits"
	"sync"
)

type Hash = [32]byte

// EmptyRoot is MTH({}).
var EmptyRoot = sha256.Sum256(nil)

func leafHash(data []byte) Hash {
	h := sha256.New()
	h.Write([]byte{0})
	h.Write(data)
	var r Hash
	h.Sum(r[:0])
	return r
}

func nodeHash(l, r Hash) Hash {
	h := sha256.New()
	h.Write([]byte{1})
	h.Write(l[:])
	h.Write(r[:])
	var o Hash
	h.Sum(o[:0])
	return o
}

// Tree is an (unbounded) leaf sequence. Leaves are either explicit
// (pseudo-random per index, derived from Seed and a per-region tag) or uniform
// per region. A Tree has at most two regions: [0,Fork) carries tag TagA,
// [Fork,inf) carries TagB. Two trees of one family (same Seed, same TagA,
// same Uniform) share exactly the leaves below min(Fork1,Fork2), and all of
// them if both Fork and TagB agree.
type Tree struct {
	Seed    uint64
	Fork    uint64 // first index of region B
	TagA    uint32
	TagB    uint32
	Uniform bool // leaf data does not depend on the index (allows sizes up to 2^63)

	mu   sync.Mutex
	memo map[nodeKey]Hash
	uni  [2][]Hash // per region, per level, for Uniform trees
}

type nodeKey struct {
	level uint8
	index uint64
}

// LeafData returns the leaf bytes at index i.
func (t *Tree) LeafData(i uint64) []byte {
	tag := t.TagA
	if i >= t.Fork {
		tag = t.TagB
	}
	var b [24]byte
	binary.BigEndian.PutUint64(b[0:], t.Seed)
	binary.BigEndian.PutUint32(b[8:], tag)
	if !t.Uniform {
		binary.BigEndian.PutUint64(b[12:], i)
	}
	s := sha256.Sum256(b[:20])
	return s[:]
}

// FirstDiff returns the first leaf index at which t and o differ
// (^uint64(0) if they never do). Both must belong to the same family.
func (t *Tree) FirstDiff(o *Tree) uint64 {
	if t.Seed != o.Seed || t.TagA != o.TagA || t.Uniform != o.Uniform {
		return 0
	}
	if t.Fork == o.Fork {
		if t.TagB == o.TagB {
			return ^uint64(0)
		}
		return t.Fork
	}
	// the one with the smaller fork has tag B where the other still has tag A
	f := t.Fork
	tagAtF := t.TagB
	if o.Fork < f {
		f = o.Fork
		tagAtF = o.TagB
	}
	if tagAtF == t.TagA {
		// degenerate: region B looks like region A; fall back to the other fork
		if t.Fork > o.Fork {
			return t.Fork
		}
		return o.Fork
	}
	return f
}

// SharesPrefix reports whether the first m leaves of t and o are identical.
func (t *Tree) SharesPrefix(o *Tree, m uint64) bool { return m <= t.FirstDiff(o) }

func (t *Tree) complete(level uint8, index uint64) Hash {
	if t.Uniform {
		lo := index << level
		hi := lo + (uint64(1) << level)
		if hi < lo { // wrapped: the subtree reaches the end of the index space
			hi = ^uint64(0)
		}
		if hi <= t.Fork || lo >= t.Fork {
			region := 0
			if lo >= t.Fork {
				region = 1
			}
			return t.uniform(region, level)
		}
	}
	if level == 0 {
		return leafHash(t.LeafData(index))
	}
	k := nodeKey{level, index}
	t.mu.Lock()
	if h, ok := t.memo[k]; ok {
		t.mu.Unlock()
		return h
	}
	t.mu.Unlock()
	h := nodeHash(t.complete(level-1, 2*index), t.complete(level-1, 2*index+1))
	t.mu.Lock()
	if t.memo == nil {
		t.memo = make(map[nodeKey]Hash)
	}
	t.memo[k] = h
	t.mu.Unlock()
	return h
}

func (t *Tree) uniform(region int, level uint8) Hash {
	t.mu.Lock()
	defer t.mu.Unlock()
	if len(t.uni[region]) == 0 {
		idx := uint64(0)
		if region == 1 {
			idx = t.Fork
		}
		t.uni[region] = []Hash{leafHash(t.LeafData(idx))}
	}
	for len(t.uni[region]) <= int(level) {
		p := t.uni[region][len(t.uni[region])-1]
		t.uni[region] = append(t.uni[region], nodeHash(p, p))
	}
	return t.uni[region][level]
}

// mth is MTH(D[lo:lo+n]); lo is always a multiple of the largest power of two
// not exceeding n on every call the RFC recursion makes.
func (t *Tree) mth(lo, n uint64) Hash {
	switch {
	case n == 0:
		return EmptyRoot
	case n&(n-1) == 0:
		lvl := uint8(bits.TrailingZeros64(n))
		return t.complete(lvl, lo>>lvl)
	}
	k := uint64(1) << (bits.Len64(n-1) - 1) // largest power of two < n
	return nodeHash(t.mth(lo, k), t.mth(lo+k, n-k))
}

// Root is MTH(D[0:n]).
func (t *Tree) Root(n uint64) Hash { return t.mth(0, n) }

// Consistency is PROOF(m, D[n]) of RFC 6962 2.1.2 for 0 < m <= n, and the
// empty list for m == 0 or m == n.
func (t *Tree) Consistency(m, n uint64) [][]byte {
	if m == 0 || m >= n {
		return [][]byte{}
	}
	out := [][]byte{}
	t.subproof(m, 0, n, true, &out)
	return out
}

func (t *Tree) subproof(m, lo, n uint64, b bool, out *[][]byte) {
	if m == n {
		if !b {
			h := t.mth(lo, n)
			*out = append(*out, h[:])
		}
		return
	}
	k := uint64(1) << (bits.Len64(n-1) - 1)
	if m <= k {
		t.subproof(m, lo, k, b, out)
		h := t.mth(lo+k, n-k)
		*out = append(*out, h[:])
	} else {
		t.subproof(m-k, lo+k, n-k, false, out)
		h := t.mth(lo, k)
		*out = append(*out, h[:])
	}
}

// VerifyConsistency is the algorithm of RFC 9162 2.1.4.2, extended with the
// two degenerate cases the witness protocol uses: equal sizes (valid iff the
// proof is empty and the roots are equal) and first == 0 (valid iff the proof
// is empty: every tree extends the empty tree).
func VerifyConsistency(first, second uint64, firstHash, secondHash []byte, proof [][]byte) bool {
	if first > second {
		return false
	}
	if first == second {
		return len(proof) == 0 && bytes.Equal(firstHash, secondHash)
	}
	if first == 0 {
		return len(proof) == 0
	}
	for _, p := range proof {
		if len(p) != 32 {
			return false
		}
	}
	if len(firstHash) != 32 || len(secondHash) != 32 {
		return false
	}
	path := proof
	// 1. If first is an exact power of 2, then prepend first_hash to the path.
	if first&(first-1) == 0 {
		path = append([][]byte{firstHash}, proof...)
	}
	if len(path) == 0 {
		return false
	}
	// 2. fn = first-1, sn = second-1
	fn, sn := first-1, second-1
	// 3. while LSB(fn) set, shift both right
	for fn&1 == 1 {
		fn >>= 1
		sn >>= 1
	}
	// 4. fr = sr = path[0]
	fr := append([]byte{}, path[0]...)
	sr := append([]byte{}, path[0]...)
	// 5. for each subsequent c
	for _, c := range path[1:] {
		if sn == 0 {
			return false
		}
		if fn&1 == 1 || fn == sn {
			fr = hashChildren(c, fr)
			sr = hashChildren(c, sr)
			for fn&1 == 0 && fn != 0 {
				fn >>= 1
				sn >>= 1
			}
		} else {
			sr = hashChildren(sr, c)
		}
		fn >>= 1
		sn >>= 1
	}
	// 6. compare
	return sn == 0 && bytes.Equal(fr, firstHash) && bytes.Equal(sr, secondHash)
}

func hashChildren(l, r []byte) []byte {
	h := sha256.New()
	h.Write([]byte{1})
	h.Write(l)
	h.Write(r)
	return h.Sum(nil)
}

// Complete returns the hash of the complete subtree of 2^level leaves at the given index.
func (t *Tree) Complete(level uint8, index uint64) Hash { return t.complete(level, index) }
