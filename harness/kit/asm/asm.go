// Package asm runs the ASSEMBLED service - omniwitness.Main exactly as the binary calls it - inside a check
// process, over a storage seam the check controls, with a stub bastion on its reverse connection, stub logs
// behind the HTTP client handed to the feeders, and the witness's own listener for reads. Everything between
// the witness and its callers that only Main builds (the adapter the feeders, the bastion handler and the
// distributor share, the router, the signer list, the client handed down) is therefore the code under
// observation; the kit's other runners build those pieces themselves and cannot see a change made there.
package asm

import (
	"context"
	"crypto/ed25519"
	crand "crypto/rand"
	"encoding/base64"
	"encoding/json"
	"fmt"
	"io"
	"net"
	"net/http"
	"os"
	"sort"
	"strings"
	"sync"
	"time"

	"github.com/transparency-dev/witness/internal/persistence"
	"github.com/transparency-dev/witness/internal/verif/kit/gen"
	"github.com/transparency-dev/witness/internal/verif/kit/stubs"
	"github.com/transparency-dev/witness/internal/verif/kit/wit"
	"github.com/transparency-dev/witness/omniwitness"
	"golang.org/x/mod/sumdb/note"
)

var (
	tlsOnce sync.Once
	tlsErr  error
	stubTLS *stubs.BastionTLS
	// omniwitness.ConfigLogs is a process-wide variable Main reads once at start.
	cfgMu sync.Mutex
)

// SetupTLS creates the stub bastion's certificate and makes this process trust it. It must run before the
// first TLS use of the process (the system root pool is loaded once).
func SetupTLS(dir string) error {
	tlsOnce.Do(func() {
		t, err := stubs.NewBastionTLS(dir)
		if err != nil {
			tlsErr = err
			return
		}
		os.Setenv("SSL_CERT_FILE", t.CAFile)
		os.Setenv("SSL_CERT_DIR", t.EmptyDir)
		stubTLS = t
	})
	return tlsErr
}

// LogSpec is one configured log.
type LogSpec struct {
	Log    *gen.Log
	Feeder string // "none", "tiles", "sumdb", ...
	URL    string // default http://unused.invalid/
}

// YAML renders a log configuration in the format of the shipped logs.yaml.
func YAML(specs []LogSpec) []byte {
	var y strings.Builder
	y.WriteString("Logs:\n")
	for _, s := range specs {
		o, _ := json.Marshal(s.Log.Origin)
		u := s.URL
		if u == "" {
			u = "http://unused.invalid/"
		}
		f := s.Feeder
		if f == "" {
			f = "none"
		}
		fmt.Fprintf(&y, "  - Origin: %s\n    URL: %s\n    PublicKey: %s\n    Feeder: %s\n", o, u, s.Log.Key.Vkey(), f)
	}
	return []byte(y.String())
}

// Opts configures one assembled service.
type Opts struct {
	Logs    []LogSpec
	Keys    *wit.WitKeys
	Store   persistence.LogStatePersistence
	Client  *http.Client // handed to the feeders and the distributor (default: a client that reaches nothing)
	Bastion bool         // connect the service to a stub bastion and wait for its reverse connection (about 5 s)

	RateLimit          float64 // bastion requests per second (default 1e6)
	FeedInterval       time.Duration
	DistributeInterval time.Duration
	DistributorURL     string
}

// Service is one running omniwitness.Main.
type Service struct {
	URL  string // the witness's own listener
	BE   *stubs.Backend
	HC   *http.Client // for the witness's own listener; does not follow redirects
	Done chan error

	bl     *stubs.Bastion
	ln     net.Listener
	cancel context.CancelFunc
	exited bool
	err    error
}

// Verifier returns the note verifier Main is given as the witness's published key: the last
// cosignature/v1 signer of the key list.
func Verifier(k *wit.WitKeys) note.Verifier {
	return k.Signers[len(k.Signers)-1].(interface{ Verifier() note.Verifier }).Verifier()
}

type nowhere struct{}

func (nowhere) RoundTrip(q *http.Request) (*http.Response, error) {
	return nil, fmt.Errorf("stub network: no route to %s", q.URL.Host)
}

// Start runs Main and returns once its listener answers (and, with Bastion, once the reverse connection is up).
func Start(o Opts) (*Service, error) {
	wit.EnsureMetrics(nil)
	s := &Service{Done: make(chan error, 1)}
	var err error
	if s.ln, err = net.Listen("tcp", "127.0.0.1:0"); err != nil {
		return nil, err
	}
	s.URL = "http://" + s.ln.Addr().String()
	s.HC = &http.Client{Timeout: 10 * time.Second, CheckRedirect: func(*http.Request, []*http.Request) error { return http.ErrUseLastResponse }}
	oc := omniwitness.OperatorConfig{WitnessKeys: o.Keys.Signers, WitnessVerifier: Verifier(o.Keys),
		FeedInterval: o.FeedInterval, DistributeInterval: o.DistributeInterval, RestDistributorBaseURL: o.DistributorURL}
	if o.Bastion {
		if stubTLS == nil {
			s.ln.Close()
			return nil, fmt.Errorf("asm.SetupTLS was not called")
		}
		if s.bl, err = stubs.ListenBastion(stubTLS); err != nil {
			s.ln.Close()
			return nil, err
		}
		_, bkey, _ := ed25519.GenerateKey(crand.Reader)
		oc.BastionAddr, oc.BastionKey, oc.BastionRateLimit = s.bl.Addr(), bkey, o.RateLimit
		if o.RateLimit == 0 {
			oc.BastionRateLimit = 1e6
		}
	}
	client := o.Client
	if client == nil {
		client = &http.Client{Transport: nowhere{}, Timeout: 5 * time.Second}
	}
	ctx, cancel := context.WithCancel(context.Background())
	s.cancel = cancel
	cfgMu.Lock()
	saved := omniwitness.ConfigLogs
	omniwitness.ConfigLogs = YAML(o.Logs)
	go func() { s.Done <- omniwitness.Main(ctx, oc, o.Store, s.ln, client) }()
	up := false
	for i := 0; i < 500 && !up; i++ {
		select {
		case err := <-s.Done:
			omniwitness.ConfigLogs = saved
			cfgMu.Unlock()
			s.exited, s.err = true, err
			s.closeListeners()
			return nil, fmt.Errorf("Main returned at start-up: %v", err)
		default:
		}
		if resp, err := s.HC.Get(s.URL + "/witness/v0/logs"); err == nil {
			io.Copy(io.Discard, resp.Body)
			resp.Body.Close()
			up = resp.StatusCode == 200
		}
		if !up {
			time.Sleep(10 * time.Millisecond)
		}
	}
	omniwitness.ConfigLogs = saved
	cfgMu.Unlock()
	if !up {
		s.Stop()
		return nil, fmt.Errorf("Main did not start serving")
	}
	if o.Bastion {
		// the backend dials on its 5 s reconnect ticker
		if s.BE, err = s.bl.Accept(60 * time.Second); err != nil {
			s.Stop()
			return nil, fmt.Errorf("stub bastion: %v", err)
		}
	}
	return s, nil
}

func (s *Service) closeListeners() {
	if s.bl != nil {
		s.bl.Close()
	}
	s.ln.Close()
}

// Stop ends the service: the stub closes its side of the reverse connection first (while it is up,
// cancelling the context does not end Main). It reports whether Main returned within the watchdog.
func (s *Service) Stop() bool {
	if s.BE != nil {
		s.BE.Close()
	}
	s.cancel()
	ok := s.exited
	if !ok {
		select {
		case s.err = <-s.Done:
			ok, s.exited = true, true
		case <-time.After(40 * time.Second):
		}
	}
	s.closeListeners()
	return ok
}

// Body renders an add-checkpoint request body.
func Body(old uint64, proof [][]byte, cp []byte) []byte {
	var b strings.Builder
	fmt.Fprintf(&b, "old %d\n", old)
	for _, h := range proof {
		b.WriteString(base64.StdEncoding.EncodeToString(h))
		b.WriteByte('\n')
	}
	b.WriteByte('\n')
	b.Write(cp)
	return []byte(b.String())
}

// Post sends one add-checkpoint request through the stub bastion. code -1: transport error.
func (s *Service) Post(body []byte, limit time.Duration) (int, string, string) {
	code, ct, rb, err := s.BE.Post(body, limit)
	if err != nil {
		return -1, "", "transport: " + err.Error()
	}
	return code, ct, rb
}

// Get reads one path of the witness's own listener without following redirects. code -1: transport error.
func (s *Service) Get(path string) (int, http.Header, []byte) {
	resp, err := s.HC.Get(s.URL + path)
	if err != nil {
		return -1, nil, []byte(err.Error())
	}
	defer resp.Body.Close()
	b, _ := io.ReadAll(resp.Body)
	return resp.StatusCode, resp.Header, b
}

// Checkpoint reads one log's latest checkpoint (nil when the answer is not 200).
func (s *Service) Checkpoint(id string) []byte {
	code, _, b := s.Get("/witness/v0/logs/" + id + "/checkpoint")
	if code != 200 {
		return nil
	}
	return b
}

// LogIDs reads the log list, sorted.
func (s *Service) LogIDs() []string {
	var ids []string
	if code, _, b := s.Get("/witness/v0/logs"); code == 200 {
		_ = json.Unmarshal(b, &ids)
	}
	sort.Strings(ids)
	return ids
}

// Snap reads the served state of the given logs into the kit's snapshot form.
func (s *Service) Snap(logs []*gen.Log) *wit.Snapshot {
	sn := &wit.Snapshot{CP: map[string][]byte{}, Err: map[string]string{}}
	sn.Logs = s.LogIDs()
	for _, l := range logs {
		sn.CP[l.ID] = s.Checkpoint(l.ID)
	}
	return sn
}

// Gate parks storage operations: Hold(op, logID) makes the next matching operation wait until Release.
// It is installed as the hook of a seams.HookStore (Gate.Hook) and is safe for concurrent use.
type Gate struct {
	mu      sync.Mutex
	holds   []*hold
	Entered chan string // receives "op/logID" each time an operation parks
}

type hold struct {
	op, id string
	n      int // how many matching operations to park (the next n)
	ch     chan struct{}
}

func NewGate() *Gate { return &Gate{Entered: make(chan string, 64)} }

// Hold parks the next n operations named op on logID; the returned function releases them (and any
// that would still match).
func (g *Gate) Hold(op, id string, n int) func() {
	h := &hold{op: op, id: id, n: n, ch: make(chan struct{})}
	g.mu.Lock()
	g.holds = append(g.holds, h)
	g.mu.Unlock()
	var once sync.Once
	return func() {
		once.Do(func() {
			g.mu.Lock()
			h.n = 0
			g.mu.Unlock()
			close(h.ch)
		})
	}
}

// Hook is the seams.Hook form of the gate; it never injects an error.
func (g *Gate) Hook(op, id string) error {
	g.mu.Lock()
	var w *hold
	for _, h := range g.holds {
		if h.n > 0 && h.op == op && h.id == id {
			h.n--
			w = h
			break
		}
	}
	g.mu.Unlock()
	if w != nil {
		select {
		case g.Entered <- op + "/" + id:
		default:
		}
		<-w.ch
	}
	return nil
}

// WaitEntered waits until an operation has parked (false: none within the limit).
func (g *Gate) WaitEntered(limit time.Duration) bool {
	select {
	case <-g.Entered:
		return true
	case <-time.After(limit):
		return false
	}
}
