// Package crash holds what C06 (kill injection) and C07's process-level pass (errno injection)
// share: the world of logs and keys, the update scripts, the child-process runner and the
// acknowledgement reader.
package crash

import (
	"bufio"
	"context"
	"encoding/json"
	"fmt"
	"math/rand/v2"
	"os"
	"os/exec"
	"path/filepath"
	"strings"
	"sync/atomic"
	"syscall"
	"time"

	"github.com/transparency-dev/witness/internal/verif/kit/gen"
	"github.com/transparency-dev/witness/internal/verif/kit/refnote"
	"github.com/transparency-dev/witness/internal/verif/kit/reftree"
	"github.com/transparency-dev/witness/internal/verif/kit/wit"
)

type Upd struct {
	ID      int
	LogID   string
	Old     uint64
	CP      []byte
	Proof   [][]byte
	Refused bool // must be refused whatever happens
	Log     *gen.Log
}

type Script struct {
	Name string
	Ups  []Upd
}

type World struct {
	U    *gen.Universe
	A, B *gen.Log
	Keys *wit.WitKeys
	cfg  map[string]any
	// ChildTimeout bounds one child run (default 60 s); a child that is still running then is killed and reported as "watchdog".
	ChildTimeout time.Duration
}

func NewWorld(r *rand.Rand) *World {
	u := gen.NewUniverse(r, gen.Opts{NLogs: 2, MaxSize: 40, Branches: 2, Unique: true})
	for _, l := range u.Logs {
		l.ReplaceBranch(1, &reftree.Tree{Seed: l.Branches[0].Seed, TagA: 1, TagB: 4, Fork: 0} /* branch 1 shares no leaf with branch 0: never consistent with anything stored */)
	}
	keys, _ := wit.NewWitKeys(r, []bool{false, true}, true)
	w := &World{U: u, A: u.Logs[0], B: u.Logs[1], Keys: keys}
	var logs []map[string]string
	for _, l := range u.Logs {
		logs = append(logs, map[string]string{"ID": l.ID, "Origin": l.Origin, "Vkey": l.Key.Vkey()})
	}
	var sk []map[string]any
	for i, k := range keys.Sign {
		sk = append(sk, map[string]any{"Skey": k.Skey(), "CosigV1": keys.Keys[i].CosigV1})
	}
	w.cfg = map[string]any{"Logs": logs, "Skeys": sk}
	return w
}

func (w *World) Step(id int, l *gen.Log, old, size uint64) Upd {
	return Upd{ID: id, LogID: l.ID, Old: old, CP: l.Honest(0, size), Proof: l.Branches[0].Consistency(old, size), Log: l}
}

func (w *World) Scripts() []Script {
	a, b := w.A, w.B
	stale := w.Step(2, a, 3, 9)
	stale.Refused = true
	return []Script{
		{"first_use", []Upd{w.Step(1, a, 0, 5)}},
		{"growth", []Upd{w.Step(1, a, 0, 5), w.Step(2, a, 5, 9)}},
		{"refresh", []Upd{w.Step(1, a, 0, 5), w.Step(2, a, 5, 5)}},
		{"growth_after_refused", []Upd{w.Step(1, a, 0, 5), stale, w.Step(3, a, 5, 9), w.Step(4, a, 9, 9), w.Step(5, a, 9, 12)}},
		{"two_logs", []Upd{w.Step(1, b, 0, 4), w.Step(2, a, 0, 5), w.Step(3, b, 4, 8), w.Step(4, a, 5, 9)}},
	}
}

var RunN atomic.Int64

// child runs c06child on a script; wrap prefixes the command (strace).
func (w *World) Child(dir string, db string, ups []Upd, killAt int, phase string, opsLog bool, wrap []string) (ackPath string, opsPath string, err error, out []byte) {
	n := RunN.Add(1)
	ackPath = filepath.Join(dir, fmt.Sprintf("ack-%d", n))
	sp := filepath.Join(dir, fmt.Sprintf("script-%d.json", n))
	cfg := map[string]any{"DB": db, "Ack": ackPath, "Logs": w.cfg["Logs"], "Skeys": w.cfg["Skeys"], "KillAt": killAt, "KillPhase": phase}
	if opsLog {
		opsPath = filepath.Join(dir, fmt.Sprintf("ops-%d.json", n))
		cfg["OpsLog"] = opsPath
	}
	var us []map[string]any
	for _, u := range ups {
		us = append(us, map[string]any{"ID": u.ID, "LogID": u.LogID, "Old": u.Old, "CP": u.CP, "Proof": u.Proof})
	}
	cfg["Updates"] = us
	b, _ := json.Marshal(cfg)
	_ = os.WriteFile(sp, b, 0o644)
	args := append(append([]string{}, wrap...), os.Getenv("VERIF_BIN_C06CHILD"), sp)
	lim := w.ChildTimeout
	if lim == 0 {
		lim = 60 * time.Second
	}
	ctx, cancel := context.WithTimeout(context.Background(), lim)
	defer cancel()
	cmd := exec.CommandContext(ctx, args[0], args[1:]...)
	cmd.Env = append(os.Environ(), "VERIF_KILL_AT=")
	// the child may sit under strace: on timeout kill the whole process group, and do not wait for inherited pipes
	cmd.SysProcAttr = &syscall.SysProcAttr{Setpgid: true}
	cmd.Cancel = func() error { return syscall.Kill(-cmd.Process.Pid, syscall.SIGKILL) }
	cmd.WaitDelay = 2 * time.Second
	out, err = cmd.CombinedOutput()
	if ctx.Err() != nil {
		err = fmt.Errorf("watchdog")
	}
	return
}

type Acks struct {
	Ready, Done bool
	Ack         map[int]string // id -> sha256 hex of returned bytes
	Nak         map[int]string
	Order       []int
}

func ReadAcks(p string) Acks {
	a := Acks{Ack: map[int]string{}, Nak: map[int]string{}}
	f, err := os.Open(p)
	if err != nil {
		return a
	}
	defer f.Close()
	sc := bufio.NewScanner(f)
	for sc.Scan() {
		ln := sc.Text()
		var id int
		var h string
		switch {
		case ln == "READY":
			a.Ready = true
		case ln == "DONE":
			a.Done = true
		case strings.HasPrefix(ln, "ACK "):
			fmt.Sscanf(ln, "ACK %d %s", &id, &h)
			a.Ack[id] = h
			a.Order = append(a.Order, id)
		case strings.HasPrefix(ln, "NAK "):
			fmt.Sscanf(ln, "NAK %d", &id)
			a.Nak[id] = ln
		}
	}
	return a
}

func (w *World) Complete(l *gen.Log, raw []byte) bool {
	n, err := refnote.Parse(raw)
	if err != nil {
		return false
	}
	if a, _ := l.Judge(raw); !a {
		return false
	}
	for _, k := range w.Keys.Keys {
		v, _, lines := k.ValidSigs(n)
		if len(v) != 1 || lines != 1 {
			return false
		}
	}
	return true
}

func (w *World) CosignedFormOf(l *gen.Log, stored, submitted []byte) bool {
	a, b := refnoteText(stored), refnoteText(submitted)
	return a != "" && a == b && w.Complete(l, stored)
}

func refnoteText(raw []byte) string {
	n, err := refnote.Parse(raw)
	if err != nil {
		return ""
	}
	return n.Text
}

// Config returns the child configuration (without updates) for a database and acknowledgement file.
func (w *World) Config(db, ack string) map[string]any {
	return map[string]any{"DB": db, "Ack": ack, "Logs": w.cfg["Logs"], "Skeys": w.cfg["Skeys"], "KillAt": -1}
}
