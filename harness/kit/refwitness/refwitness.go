// Package refwitness is the executable reference model of the witness update
// protocol, written from the rule list in the property statements
// (c2sp.org/tlog-witness) and using reftree for the proof verdict. It imports
// nothing from the witness module.
package refwitness

import (
	"bytes"

	"github.com/transparency-dev/witness/internal/verif/kit/reftree"
)

// Class is the verdict class of one update request.
type Class int

const (
	UnknownLog   Class = iota // log ID not configured
	BadSignature              // no valid log signature / wrong origin / unparsable
	AcceptFirst               // nothing stored yet: accepted
	OldTooLarge               // old size > checkpoint size
	Stale                     // old size != stored size
	RootMismatch              // same size, different root
	BadProof                  // consistency proof invalid
	Accept                    // accepted (growth or refresh)
)

var classNames = [...]string{"unknown_log", "bad_signature", "accept_first", "old_too_large", "stale", "root_mismatch", "bad_proof", "accept"}

func (c Class) String() string { return classNames[c] }

// Accepted reports whether the class is one of the two accepting ones.
func (c Class) Accepted() bool { return c == AcceptFirst || c == Accept }

// ReturnsStored reports whether a refusal of this class carries the stored checkpoint.
func (c Class) ReturnsStored() bool {
	return c == OldTooLarge || c == Stale || c == RootMismatch || c == BadProof
}

// LogState is what the model remembers per log.
type LogState struct {
	Has  bool
	Size uint64
	Root []byte
}

// Req is the abstract content of a request; authenticity and parsing are
// decided by the caller with refnote.
type Req struct {
	Known     bool // log ID configured
	Authentic bool // valid log signature over a well-formed checkpoint with the configured origin
	Size      uint64
	Root      []byte
	OldSize   uint64
	Proof     [][]byte
}

// Step returns the class of the first matching rule and the successor state.
func Step(st LogState, r Req) (Class, LogState) {
	switch {
	case !r.Known:
		return UnknownLog, st
	case !r.Authentic:
		return BadSignature, st
	case !st.Has:
		return AcceptFirst, LogState{Has: true, Size: r.Size, Root: r.Root}
	case r.OldSize > r.Size:
		return OldTooLarge, st
	case r.OldSize != st.Size:
		return Stale, st
	case r.Size == st.Size && !bytes.Equal(r.Root, st.Root):
		return RootMismatch, st
	case !reftree.VerifyConsistency(st.Size, r.Size, st.Root, r.Root, r.Proof):
		return BadProof, st
	}
	return Accept, LogState{Has: true, Size: r.Size, Root: r.Root}
}

// OutOfClaim reports the two cells C09 excludes: first use with a non-zero old
// size or non-empty proof, and stored size 0 below the submitted size.
func OutOfClaim(st LogState, r Req) bool {
	if !r.Known || !r.Authentic {
		return false
	}
	if !st.Has {
		return r.OldSize != 0 || len(r.Proof) != 0
	}
	return st.Size == 0 && r.Size > 0
}
