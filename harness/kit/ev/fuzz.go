package ev

import (
	"context"
	"fmt"
	"os"
	"os/exec"
	"path/filepath"
	"regexp"
	"strconv"
	"strings"
	"time"
)

var fuzzExecs = regexp.MustCompile(`execs: (\d+)`)
var fuzzInteresting = regexp.MustCompile(`new interesting: (\d+) \(total: (\d+)\)`)

// Fuzz runs one native fuzz target of the compiled fuzz test binary ($VERIF_BIN_FUZZ)
// for a fixed number of executions from a scratch directory and records the outcome.
func (r *Run) Fuzz(target string, execs int, limit time.Duration) {
	bin := os.Getenv("VERIF_BIN_FUZZ")
	if bin == "" {
		r.Inconclusive("fuzz test binary not provided")
		return
	}
	dir := filepath.Join(r.Scratch(), "fuzz-"+target)
	_ = os.MkdirAll(dir, 0o755)
	ctx, cancel := context.WithTimeout(context.Background(), limit)
	defer cancel()
	cmd := exec.CommandContext(ctx, bin, "-test.run=^$", "-test.fuzz=^"+target+"$", fmt.Sprintf("-test.fuzztime=%dx", execs), "-test.fuzzcachedir="+filepath.Join(dir, "cache"), "-test.v")
	cmd.Dir = dir
	out, err := cmd.CombinedOutput()
	o := string(out)
	if ctx.Err() != nil {
		r.Inconclusive("watchdog: fuzz target " + target + " did not finish")
		return
	}
	n := 0
	if m := fuzzExecs.FindAllStringSubmatch(o, -1); len(m) > 0 {
		n, _ = strconv.Atoi(m[len(m)-1][1])
	}
	total := 0
	if m := fuzzInteresting.FindAllStringSubmatch(o, -1); len(m) > 0 {
		total, _ = strconv.Atoi(m[len(m)-1][2])
	}
	r.Add("fuzz_execs:"+target, int64(n))
	r.Add("evaluations", int64(n))
	r.Extra("fuzz_corpus:"+target, total)
	for i := 0; i < total && i < 64; i++ {
		r.Distinct("nontrivial", fmt.Sprintf("fuzz/%s/interesting-%d", target, i))
	}
	if err != nil {
		// keep the failing input
		keep := ""
		if ms, _ := filepath.Glob(filepath.Join(dir, "testdata", "fuzz", target, "*")); len(ms) > 0 {
			b, _ := os.ReadFile(ms[0])
			keep = string(b)
		}
		tail := o
		if len(tail) > 3000 {
			tail = tail[len(tail)-3000:]
		}
		first := ""
		for _, ln := range strings.Split(o, "\n") {
			if strings.Contains(ln, "fuzz_test.go") {
				first = strings.TrimSpace(ln)
				break
			}
		}
		if len(first) > 100 {
			first = first[:100]
		}
		r.Violate("fuzz;"+target, "native fuzzing of "+target+" found a failing input: "+first, -1, map[string]any{"failing_input_file": keep, "output": tail})
		return
	}
	if n < execs/2 {
		r.Inconclusive(fmt.Sprintf("fuzz target %s ran only %d of %d executions", target, n, execs))
	}
}
