// Package ev collects what a check run observed and writes the evidence and
// result files the driver script turns into exit codes and VIOLATION lines.
package ev

import (
	"encoding/json"
	"fmt"
	"os"
	"path/filepath"
	"sort"
	"strconv"
	"sync"
	"sync/atomic"
	"time"
)

// Violation is one distinct finding.
type Violation struct {
	Key    string `json:"key"`
	What   string `json:"what"`
	Replay string `json:"replay"`
	Count  int    `json:"count"`
}

// Run is the per-process collector. All methods are safe for concurrent use.
type Run struct {
	aborted  atomic.Bool
	Property string
	Level    string
	Tier     string
	Seed     int64
	Only     int64 // >= 0: replay only this unit
	start    time.Time

	mu          sync.Mutex
	counts      map[string]int64
	sets        map[string]map[string]struct{}
	samples     []any
	maxSamples  int
	viol        map[string]*Violation
	floors      map[string]int64
	rule        string
	assumptions []string
	extra       map[string]any
	inconcl     string
	exhaustive  bool
	nsamples    atomic.Int64
}

// Start reads VERIF_SEED / VERIF_TIER / VERIF_UNIT and returns a collector.
// current is the run started by this process (one per harness binary).
var current *Run

// Current returns the run started by Start (nil before).
func Current() *Run { return current }

// Abort stops Units from dispatching further units (those already running finish). Used when the system
// under test is in a state where every further unit would only repeat a long wait.
func (r *Run) Abort() { r.aborted.Store(true) }

// Aborted reports whether Abort was called (long units poll it between their own steps).
func (r *Run) Aborted() bool { return r.aborted.Load() }

func Start(property, level string) *Run {
	r := &Run{Property: property, Level: level, Tier: "quick", Seed: 1, Only: -1, start: time.Now(),
		counts: map[string]int64{}, sets: map[string]map[string]struct{}{}, viol: map[string]*Violation{},
		floors: map[string]int64{}, extra: map[string]any{}, maxSamples: 6}
	if t := os.Getenv("VERIF_TIER"); t == "thorough" {
		r.Tier = t
	}
	if s := os.Getenv("VERIF_SEED"); s != "" {
		if v, err := strconv.ParseInt(s, 10, 64); err == nil {
			r.Seed = v
		}
	}
	if s := os.Getenv("VERIF_UNIT"); s != "" {
		if v, err := strconv.ParseInt(s, 10, 64); err == nil {
			r.Only = v
		}
	}
	current = r
	return r
}

// Thorough reports whether the thorough tier was requested.
func (r *Run) Thorough() bool { return r.Tier == "thorough" }

// Pick returns q for the quick tier and t for the thorough tier.
func (r *Run) Pick(q, t int) int {
	if r.Thorough() {
		return t
	}
	return q
}

// Scratch returns a scratch directory private to this run (removed by the driver).
func (r *Run) Scratch() string {
	d := os.Getenv("VERIF_SCRATCH")
	if d == "" {
		d, _ = os.MkdirTemp("", "verif-scratch-")
	}
	return d
}

func (r *Run) Count(name string) { r.Add(name, 1) }

func (r *Run) Add(name string, n int64) {
	r.mu.Lock()
	r.counts[name] += n
	r.mu.Unlock()
}

func (r *Run) Get(name string) int64 {
	r.mu.Lock()
	defer r.mu.Unlock()
	return r.counts[name]
}

// Distinct records key in the named set.
func (r *Run) Distinct(set, key string) {
	r.mu.Lock()
	m := r.sets[set]
	if m == nil {
		m = map[string]struct{}{}
		r.sets[set] = m
	}
	m[key] = struct{}{}
	r.mu.Unlock()
}

func (r *Run) DistinctN(set string) int {
	r.mu.Lock()
	defer r.mu.Unlock()
	return len(r.sets[set])
}

// Sample keeps the first few cases written out.
func (r *Run) Sample(x any) {
	if r.nsamples.Load() >= int64(r.maxSamples) {
		return
	}
	r.nsamples.Add(1)
	r.mu.Lock()
	if len(r.samples) < r.maxSamples {
		r.samples = append(r.samples, x)
	}
	r.mu.Unlock()
}

// Floor declares that counter (or distinct set) name must reach min, else the run is inconclusive.
func (r *Run) Floor(name string, min int64) {
	r.mu.Lock()
	r.floors[name] = min
	r.mu.Unlock()
}

func (r *Run) Rule(s string)         { r.rule = s }
func (r *Run) Assume(s ...string)    { r.assumptions = append(r.assumptions, s...) }
func (r *Run) Exhaustive(b bool)     { r.exhaustive = b }
func (r *Run) Extra(k string, v any) { r.mu.Lock(); r.extra[k] = v; r.mu.Unlock() }
func (r *Run) Inconclusive(s string) { r.mu.Lock(); r.inconcl = s; r.mu.Unlock() }
func (r *Run) IsInconclusive() bool  { r.mu.Lock(); defer r.mu.Unlock(); return r.inconcl != "" }
func (r *Run) ViolationCount() int   { r.mu.Lock(); defer r.mu.Unlock(); return len(r.viol) }

// Violate records a finding under a structural key. detail is written to the
// replay file of the first occurrence of each key.
func (r *Run) Violate(key, what string, unit int64, detail any) {
	r.mu.Lock()
	defer r.mu.Unlock()
	if v, ok := r.viol[key]; ok {
		v.Count++
		return
	}
	dir := os.Getenv("VERIF_REPLAY_DIR")
	if dir == "" {
		dir = "."
	}
	_ = os.MkdirAll(dir, 0o755)
	name := filepath.Join(dir, fmt.Sprintf("%s-%s-%d-%s%d.json", r.Property, r.Tier, r.Seed, os.Getenv("VERIF_WORKER_TAG"), len(r.viol)))
	b, _ := json.MarshalIndent(map[string]any{
		"property": r.Property, "tier": r.Tier, "seed": r.Seed, "unit": unit, "key": key, "what": what, "detail": detail,
	}, "", " ")
	_ = os.WriteFile(name, b, 0o644)
	r.viol[key] = &Violation{Key: key, What: what, Replay: name, Count: 1}
}

// exported is the wire form of a worker process's observations.
type exported struct {
	Counts  map[string]int64
	Sets    map[string][]string
	Samples []any
	Viol    []*Violation
	Inconcl string
}

// Merge folds a worker's export file into this run.
func (r *Run) Merge(path string) error {
	b, err := os.ReadFile(path)
	if err != nil {
		return err
	}
	var e exported
	if err := json.Unmarshal(b, &e); err != nil {
		return err
	}
	r.mu.Lock()
	defer r.mu.Unlock()
	for k, v := range e.Counts {
		r.counts[k] += v
	}
	for k, vs := range e.Sets {
		m := r.sets[k]
		if m == nil {
			m = map[string]struct{}{}
			r.sets[k] = m
		}
		for _, v := range vs {
			m[v] = struct{}{}
		}
	}
	for _, s := range e.Samples {
		if len(r.samples) < r.maxSamples {
			r.samples = append(r.samples, s)
		}
	}
	for _, v := range e.Viol {
		if have, ok := r.viol[v.Key]; ok {
			have.Count += v.Count
		} else {
			r.viol[v.Key] = v
		}
	}
	if e.Inconcl != "" && r.inconcl == "" {
		r.inconcl = e.Inconcl
	}
	return nil
}

// Finish writes the evidence and result files. The process should exit 0
// afterwards; the driver decides the exit code from the result file.
func (r *Run) Finish() {
	r.mu.Lock()
	defer r.mu.Unlock()
	if p := os.Getenv("VERIF_EXPORT"); p != "" {
		e := exported{Counts: r.counts, Sets: map[string][]string{}, Samples: r.samples, Inconcl: r.inconcl}
		for k, m := range r.sets {
			for v := range m {
				e.Sets[k] = append(e.Sets[k], v)
			}
		}
		for _, v := range r.viol {
			e.Viol = append(e.Viol, v)
		}
		b, _ := json.Marshal(e)
		_ = os.WriteFile(p, b, 0o644)
		return
	}
	cov := map[string]any{}
	for k, v := range r.extra {
		cov[k] = v
	}
	counts := map[string]int64{}
	for k, v := range r.counts {
		counts[k] = v
	}
	distinct := map[string]int{}
	for k, v := range r.sets {
		distinct[k] = len(v)
	}
	cov["counts"] = counts
	cov["distinct"] = distinct
	// small sets are written out (which scenarios, stores, variants were actually seen)
	small := map[string][]string{}
	for k, v := range r.sets {
		if len(v) <= 48 && k != "nontrivial" {
			for m := range v {
				small[k] = append(small[k], m)
			}
			sort.Strings(small[k])
		}
	}
	if len(small) > 0 {
		cov["observed_sets"] = small
	}
	cov["evaluations"] = r.counts["evaluations"]
	cov["distinct_nontrivial"] = len(r.sets["nontrivial"])
	cov["rule"] = r.rule
	cov["samples"] = r.samples
	cov["exhaustive"] = r.exhaustive
	floors := map[string]any{}
	var missed []string
	for k, min := range r.floors {
		got := r.counts[k]
		if s, ok := r.sets[k]; ok {
			got = int64(len(s))
		}
		floors[k] = map[string]int64{"min": min, "got": got}
		if got < min && r.Only < 0 {
			missed = append(missed, fmt.Sprintf("%s=%d<%d", k, got, min))
		}
	}
	sort.Strings(missed)
	cov["floors"] = floors
	inconcl := r.inconcl
	if len(r.samples) == 0 {
		cov["samples"] = []any{}
		if inconcl == "" && r.Only < 0 {
			inconcl = "no sample case recorded"
		}
	}
	if inconcl == "" && len(missed) > 0 {
		inconcl = "coverage floor missed: " + fmt.Sprint(missed)
	}
	vl := []*Violation{}
	for _, v := range r.viol {
		vl = append(vl, v)
	}
	sort.Slice(vl, func(i, j int) bool { return vl[i].Key < vl[j].Key })
	cov["violations_found"] = vl
	evd := map[string]any{
		"property_id": r.Property, "tier": r.Tier, "seed": r.Seed, "level": r.Level,
		"coverage": cov, "assumptions": r.assumptions, "wall_s": time.Since(r.start).Seconds(),
		"violations": len(vl),
	}
	if p := os.Getenv("VERIF_EVIDENCE"); p != "" && r.Only < 0 {
		b, _ := json.MarshalIndent(evd, "", " ")
		_ = os.MkdirAll(filepath.Dir(p), 0o755)
		_ = os.WriteFile(p, b, 0o644)
	}
	res := map[string]any{"violations": vl, "inconclusive": inconcl}
	b, _ := json.MarshalIndent(res, "", " ")
	if p := os.Getenv("VERIF_RESULT"); p != "" {
		_ = os.WriteFile(p, b, 0o644)
	} else {
		fmt.Println(string(b))
	}
	fmt.Printf("%s %s seed=%d: evaluations=%d nontrivial=%d violations=%d inconclusive=%q wall=%.1fs\n",
		r.Property, r.Tier, r.Seed, r.counts["evaluations"], len(r.sets["nontrivial"]), len(vl), inconcl, time.Since(r.start).Seconds())
}
