package ev

import (
	"fmt"
	"hash/fnv"
	"math/rand/v2"
	"runtime"
	"runtime/debug"
	"sync"
)

// Rand returns the PRNG of one unit of work: a PCG stream determined by the
// run seed, the property id, a stream label and the unit index only.
func (r *Run) Rand(label string, unit int64) *rand.Rand {
	h := fnv.New64a()
	h.Write([]byte(r.Property))
	h.Write([]byte{0})
	h.Write([]byte(label))
	return rand.New(rand.NewPCG(uint64(r.Seed)*0x9E3779B97F4A7C15+uint64(unit), h.Sum64()^uint64(unit)*0xD1342543DE82EF95))
}

// Units runs f for unit = 0..n-1 on all cores (or only the replayed unit).
// A panic inside f is recorded as a violation with the stack.
func (r *Run) Units(label string, n int, workers int, f func(unit int64, rng *rand.Rand)) {
	if workers <= 0 {
		workers = runtime.NumCPU()
	}
	ch := make(chan int64)
	var wg sync.WaitGroup
	for w := 0; w < workers; w++ {
		wg.Add(1)
		go func() {
			defer wg.Done()
			for u := range ch {
				func() {
					defer func() {
						if p := recover(); p != nil {
							r.Violate("panic:"+label, fmt.Sprintf("panic in unit %d: %v\n%s", u, p, debug.Stack()), u, nil)
						}
					}()
					f(u, r.Rand(label, u))
				}()
			}
		}()
	}
	for u := int64(0); u < int64(n); u++ {
		if r.Only >= 0 && u != r.Only {
			continue
		}
		if r.aborted.Load() {
			r.Count("units_not_run_after_abort")
			continue
		}
		ch <- u
	}
	close(ch)
	wg.Wait()
}
