// Package refbody is the reference reader of the add-checkpoint request body,
// written from the tlog-witness text: "old N" line, base64 proof lines, blank
// line, checkpoint. Its verdict is three-valued: variants the format texts
// leave Open are reported as Open and only judged by the weak oracle.
package refbody

import (
	"bytes"
	"encoding/base64"
	"strconv"
	"strings"
)

// Verdict of the reference reader.
type Verdict int

const (
	Accept Verdict = iota
	Refuse
	Open // the format texts leave it Open; only the weak oracle applies
)

// Parse is the reference reader of the add-checkpoint body, written from the
// tlog-witness text: "old N" line, base64 proof lines, blank line, checkpoint.
func Parse(b []byte) (Verdict, uint64, [][]byte, []byte) {
	i := bytes.IndexByte(b, '\n')
	if i < 0 {
		return Refuse, 0, nil, nil // ends before the blank separator
	}
	line := string(b[:i])
	rest := b[i+1:]
	v := Accept
	if len(line) > 4000 {
		v = Open
	}
	var size uint64
	if !strings.HasPrefix(line, "old ") {
		if strings.HasPrefix(line, "old\t") {
			v = Open
		} else {
			return Refuse, 0, nil, nil
		}
	}
	num := ""
	if len(line) >= 4 {
		num = line[4:]
	}
	if strings.HasSuffix(num, "\r") || strings.HasPrefix(num, " ") || strings.HasPrefix(num, "\t") {
		v = Open
		num = strings.TrimLeft(strings.TrimSuffix(num, "\r"), " \t")
	}
	if num == "" {
		return Refuse, 0, nil, nil
	}
	for _, c := range num {
		if c < '0' || c > '9' {
			return Refuse, 0, nil, nil
		}
	}
	if len(num) > 1 && num[0] == '0' {
		v = Open
	}
	n, err := strconv.ParseUint(num, 10, 64)
	if err != nil {
		if strings.TrimLeft(num, "0") != num {
			return Open, 0, nil, nil
		}
		return Refuse, 0, nil, nil // overflow
	}
	size = n
	var hashes [][]byte
	for {
		j := bytes.IndexByte(rest, '\n')
		if j < 0 {
			return Refuse, 0, nil, nil // no blank separator before the end
		}
		l := string(rest[:j])
		rest = rest[j+1:]
		if l == "" {
			break
		}
		if l == "\r" {
			return Open, 0, nil, nil
		}
		if len(l) > 4000 {
			return Open, 0, nil, nil
		}
		ok := len(l)%4 == 0
		pad := 0
		for k, c := range l {
			switch {
			case c >= 'A' && c <= 'Z', c >= 'a' && c <= 'z', c >= '0' && c <= '9', c == '+', c == '/':
				if pad > 0 {
					ok = false
				}
			case c == '=':
				pad++
				if k < len(l)-2 {
					ok = false
				}
			case c == '\r':
				return Open, 0, nil, nil
			default:
				ok = false
			}
		}
		if !ok || pad > 2 {
			return Refuse, 0, nil, nil
		}
		h, err := base64.StdEncoding.DecodeString(l)
		if err != nil {
			return Refuse, 0, nil, nil
		}
		hashes = append(hashes, h)
	}
	return v, size, hashes, rest
}
