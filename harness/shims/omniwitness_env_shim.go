//go:build verif

package omniwitness

import "os"

// With the verif build tag the configuration embedded in the binaries can be replaced from a file,
// so that the real cmd/omniwitness binary can be run against logs the verification harness controls.
func init() {
	if p := os.Getenv("VERIF_LOGS_YAML"); p != "" {
		if b, err := os.ReadFile(p); err == nil {
			ConfigLogs = b
		}
	}
}
