//go:build verif

package main

import (
	"context"
	"encoding/json"
	"io"
	"net/http"
	"net/http/httptest"
	"os"
	"testing"
)

// TestVerifCaptureBodies drives the repository's own writer of the add-checkpoint
// body format (bastionClient.Update) against a capture server and writes what
// it posted, together with what it was asked to send, to $VERIF_CAPTURE.
func TestVerifCaptureBodies(t *testing.T) {
	in := os.Getenv("VERIF_CAPTURE_IN")
	out := os.Getenv("VERIF_CAPTURE")
	if in == "" || out == "" {
		t.Skip("not run by the verification harness")
	}
	var cases []struct {
		CP    []byte
		Proof [][]byte
	}
	b, err := os.ReadFile(in)
	if err != nil {
		t.Fatal(err)
	}
	if err := json.Unmarshal(b, &cases); err != nil {
		t.Fatal(err)
	}
	var got [][]byte
	srv := httptest.NewServer(http.HandlerFunc(func(w http.ResponseWriter, r *http.Request) {
		body, _ := io.ReadAll(r.Body)
		got = append(got, body)
	}))
	defer srv.Close()
	bc := &bastionClient{httpClient: srv.Client(), url: srv.URL, originByLogID: map[string]string{}}
	for _, c := range cases {
		if _, err := bc.Update(context.Background(), "id", 0, c.CP, c.Proof); err != nil {
			t.Fatal(err)
		}
	}
	o, _ := json.Marshal(got)
	if err := os.WriteFile(out, o, 0o644); err != nil {
		t.Fatal(err)
	}
}
