//go:build verif

package main

import (
	"context"
	"encoding/json"
	"io"
	"net/http"
	"net/http/httptest"
	"os"
	"sync"
	"testing"
	"time"
)

// TestVerifCaptureBodies drives the repository's own writer of the add-checkpoint
// body format (bastionClient.Update) against a capture server and writes what
// it posted, together with what it was asked to send, to $VERIF_CAPTURE.
func TestVerifCaptureBodies(t *testing.T) {
	in := os.Getenv("VERIF_CAPTURE_IN")
	out := os.Getenv("VERIF_CAPTURE")
	if in == "" || out == "" {
		t.Skip("not run by the verification harness")
	}
	var cases []struct {
		CP    []byte
		Proof [][]byte
	}
	b, err := os.ReadFile(in)
	if err != nil {
		t.Fatal(err)
	}
	if err := json.Unmarshal(b, &cases); err != nil {
		t.Fatal(err)
	}
	var got [][]byte
	srv := httptest.NewServer(http.HandlerFunc(func(w http.ResponseWriter, r *http.Request) {
		body, _ := io.ReadAll(r.Body)
		got = append(got, body)
	}))
	defer srv.Close()
	bc := &bastionClient{httpClient: srv.Client(), url: srv.URL, originByLogID: map[string]string{}}
	for _, c := range cases {
		if _, err := bc.Update(context.Background(), "id", 0, c.CP, c.Proof); err != nil {
			t.Fatal(err)
		}
	}
	o, _ := json.Marshal(got)
	if err := os.WriteFile(out, o, 0o644); err != nil {
		t.Fatal(err)
	}
	// Second pass: the same client value is shared by every feeder goroutine of cmd/feedbastion, so several
	// Update calls are in flight at once. The server is slow to read, as a real bastion across a network is.
	if cout := os.Getenv("VERIF_CAPTURE_CONCURRENT"); cout != "" {
		var mu sync.Mutex
		var got2 [][]byte
		slow := httptest.NewServer(http.HandlerFunc(func(w http.ResponseWriter, r *http.Request) {
			time.Sleep(2 * time.Millisecond)
			body, _ := io.ReadAll(r.Body)
			mu.Lock()
			got2 = append(got2, body)
			mu.Unlock()
		}))
		defer slow.Close()
		bc2 := &bastionClient{httpClient: slow.Client(), url: slow.URL, originByLogID: map[string]string{}}
		var wg sync.WaitGroup
		const G = 8
		for g := 0; g < G; g++ {
			wg.Add(1)
			go func(g int) {
				defer wg.Done()
				for i := g; i < len(cases); i += G {
					_, _ = bc2.Update(context.Background(), "id", 0, cases[i].CP, cases[i].Proof)
				}
			}(g)
		}
		wg.Wait()
		o2, _ := json.Marshal(got2)
		if err := os.WriteFile(cout, o2, 0o644); err != nil {
			t.Fatal(err)
		}
	}
}
