//go:build verif

package bastion

import (
	"net/http"

	"github.com/transparency-dev/witness/internal/config"
	"github.com/transparency-dev/witness/internal/feeder"
	"golang.org/x/mod/sumdb/note"
	"golang.org/x/time/rate"
)

// VerifParseBody exposes the unexported request-body parser to the verification harness.
var VerifParseBody = parseBody

// VerifNewHandler builds the unexported add-checkpoint handler exactly as FeedBastion does.
func VerifNewHandler(w feeder.Witness, logs []config.Log, witV note.Verifier, limit rate.Limit) http.Handler {
	initMetrics()
	h := &addHandler{
		w:           w,
		logs:        make(map[string]config.Log),
		witVerifier: witV,
		limiter:     rate.NewLimiter(limit, int(limit)),
	}
	for _, l := range logs {
		h.logs[l.ID] = l
	}
	return h
}
