//go:build verif

package omniwitness

import (
	"reflect"
	"unsafe"

	"github.com/transparency-dev/witness/internal/feeder"
	"github.com/transparency-dev/witness/internal/witness"
)

// VerifWitnessAdapter exposes the unexported adapter Main puts between the
// witness and the feeders / bastion handler / distributor.
//
// Main is the only place that builds the adapter, so a change that gives it further fields (a cache, a
// coalescing group) initialises them there. Built here by literal those fields would be nil and the first
// call would panic in the harness, not in the service: every nil pointer or map field other than the
// witness is therefore given an empty value of its type. The assembled checks (kit/asm) use the adapter
// Main itself builds.
func VerifWitnessAdapter(w *witness.Witness) feeder.Witness {
	a := witnessAdapter{w: w}
	v := reflect.ValueOf(&a).Elem()
	for i := 0; i < v.NumField(); i++ {
		f := v.Field(i)
		if !f.CanAddr() {
			continue
		}
		s := reflect.NewAt(f.Type(), unsafe.Pointer(f.UnsafeAddr())).Elem()
		switch f.Kind() {
		case reflect.Pointer:
			if f.IsNil() {
				s.Set(reflect.New(f.Type().Elem()))
			}
		case reflect.Map:
			if f.IsNil() {
				s.Set(reflect.MakeMap(f.Type()))
			}
		}
	}
	return a
}
