//go:build verif

package omniwitness

import (
	"context"
	"os"
	"reflect"
	"sync/atomic"
	"unsafe"

	"github.com/transparency-dev/witness/internal/feeder"
	"github.com/transparency-dev/witness/internal/witness"
	"google.golang.org/grpc/codes"
	"google.golang.org/grpc/status"
)

// VerifWitnessAdapter exposes the unexported adapter Main puts between the
// witness and the feeders / bastion handler / distributor.
//
// Main is the only place that builds the adapter, so a change that gives it further fields (a cache, a
// coalescing group) initialises them there. Built here by literal those fields would be nil and the first
// call would panic in the harness, not in the service: every nil pointer or map field other than the
// witness is therefore given an empty value of its type. The assembled checks (kit/asm) use the adapter
// Main itself builds.
func VerifWitnessAdapter(w *witness.Witness) feeder.Witness {
	a := witnessAdapter{w: w}
	v := reflect.ValueOf(&a).Elem()
	for i := 0; i < v.NumField(); i++ {
		f := v.Field(i)
		if !f.CanAddr() {
			continue
		}
		s := reflect.NewAt(f.Type(), unsafe.Pointer(f.UnsafeAddr())).Elem()
		switch f.Kind() {
		case reflect.Pointer:
			if f.IsNil() {
				s.Set(reflect.New(f.Type().Elem()))
			}
		case reflect.Map:
			if f.IsNil() {
				s.Set(reflect.MakeMap(f.Type()))
			}
		case reflect.Interface, reflect.Func, reflect.Chan:
			if f.IsNil() {
				// a field only Main can initialise: a copy built here would fail in the harness, not in the
				// service. Fall back to the adapter's contract written out (the assembled checks keep
				// observing the real one).
				VerifAdapterFallbacks.Add(1)
				return plainAdapter{w}
			}
		}
	}
	return a
}

// VerifAdapterFallbacks counts how often the harness could not build the service's own adapter.
var VerifAdapterFallbacks atomic.Int64

type plainAdapter struct{ w *witness.Witness }

func (p plainAdapter) GetLatestCheckpoint(ctx context.Context, logID string) ([]byte, error) {
	cp, err := p.w.GetCheckpoint(logID)
	if err != nil && status.Code(err) == codes.NotFound {
		return nil, os.ErrNotExist
	}
	return cp, err
}

func (p plainAdapter) Update(ctx context.Context, logID string, oldSize uint64, newCP []byte, proof [][]byte) ([]byte, error) {
	return p.w.Update(ctx, logID, oldSize, newCP, proof)
}
