// Package fuzz holds the native (coverage-guided) fuzz targets used by the
// thorough tiers of C11 and C19. It is compiled with `go test -c` through the
// overlay and run from a scratch directory with an execution-count bound.
package fuzz

import (
	"bytes"
	"context"
	"encoding/base64"
	"io"
	"math/rand/v2"
	"net/http"
	"net/http/httptest"
	"strconv"
	"strings"
	"testing"
	"time"

	"github.com/transparency-dev/witness/internal/config"
	"github.com/transparency-dev/witness/internal/feeder/bastion"
	"github.com/transparency-dev/witness/internal/feeder/rekor"
	"github.com/transparency-dev/witness/internal/verif/kit/gen"
	"github.com/transparency-dev/witness/internal/verif/kit/refbody"
	"github.com/transparency-dev/witness/internal/verif/kit/refnote"
	"github.com/transparency-dev/witness/internal/verif/kit/wit"
	"github.com/transparency-dev/witness/internal/witness"
	"github.com/transparency-dev/witness/omniwitness"
	"golang.org/x/mod/sumdb/note"
)

func eq(a, b [][]byte) bool {
	if len(a) != len(b) {
		return false
	}
	for i := range a {
		if !bytes.Equal(a[i], b[i]) {
			return false
		}
	}
	return true
}

// FuzzParseBody: differential against the reference reader where its verdict is definite (C11).
func FuzzParseBody(f *testing.F) {
	wit.Quiet()
	cp := "example.com/log\n1\nAAAA\n\n— k AAAAAAAA\n"
	for _, s := range []string{"old 0\n\n" + cp, "old 5\nAAAA\nBBBB\n\n" + cp, "old 18446744073709551615\n\n", "old 5abc\n\n" + cp, "old 5\n!!\n\n" + cp, "old 5\nAAAA\n", "", "old 007\n\n" + cp, "old  5\n\n" + cp, "old 5\r\n\r\n" + cp} {
		f.Add([]byte(s))
	}
	f.Fuzz(func(t *testing.T, b []byte) {
		rv, rs, rh, rc := refbody.Parse(b)
		gs, gh, gc, err := bastion.VerifParseBody(bytes.NewReader(b))
		switch rv {
		case refbody.Accept:
			if err != nil || gs != rs || !eq(gh, rh) || !bytes.Equal(gc, rc) {
				t.Fatalf("well-formed body misparsed: reference old=%d %d hashes %d bytes; parser err=%v old=%d %d hashes %d bytes", rs, len(rh), len(rc), err, gs, len(gh), len(gc))
			}
		case refbody.Refuse:
			if err == nil {
				t.Fatalf("malformed body accepted as old=%d with %d hashes", gs, len(gh))
			}
		}
	})
}

// FuzzProofUnmarshal: whatever Unmarshal accepts must marshal back to a text that reads as the same list (C11), no panic (C19).
func FuzzProofUnmarshal(f *testing.F) {
	for _, s := range []string{"", "AAAA\n", "AAAA\nBBBB\n", "AAAA", "\n", "!!!!\n", "AA==\n"} {
		f.Add([]byte(s))
	}
	f.Fuzz(func(t *testing.T, b []byte) {
		var p witness.Proof
		if err := p.Unmarshal(b); err != nil {
			return
		}
		var q witness.Proof
		if err := q.Unmarshal([]byte(p.Marshal())); err != nil || !eq(p, q) {
			t.Fatalf("Marshal of an accepted proof does not read back: err=%v %d vs %d hashes", err, len(p), len(q))
		}
	})
}

type handlerEnv struct {
	u     *gen.Universe
	keys  *wit.WitKeys
	logs  []config.Log
	seeds [][]byte
}

func newHandlerEnv() *handlerEnv {
	r := rand.New(rand.NewPCG(11, 19))
	e := &handlerEnv{}
	e.u = gen.NewUniverse(r, gen.Opts{NLogs: 2, MaxSize: 20, Branches: 2, ShareKeys: true})
	e.keys, _ = wit.NewWitKeys(r, []bool{false, true}, true)
	for _, l := range e.u.Logs {
		cl, _ := config.NewLog(l.Origin, l.Key.Vkey(), "http://x.invalid/")
		e.logs = append(e.logs, cl)
	}
	l := e.u.Logs[0]
	body := func(old uint64, cp []byte, proof [][]byte) []byte {
		var b bytes.Buffer
		b.WriteString("old " + strconv.FormatUint(old, 10) + "\n")
		for _, p := range proof {
			b.WriteString(base64.StdEncoding.EncodeToString(p) + "\n")
		}
		b.WriteString("\n")
		b.Write(cp)
		return b.Bytes()
	}
	t0 := l.Branches[0]
	// one seed per verdict class, from the state "holds size 5"
	e.seeds = [][]byte{
		body(5, l.Honest(0, 9), t0.Consistency(5, 9)), // accept
		body(5, l.Honest(0, 5), nil),                  // refresh
		body(3, l.Honest(0, 9), t0.Consistency(3, 9)), // stale
		body(12, l.Honest(0, 9), nil),                 // old too large
		body(5, l.Honest(1, 5), nil),                  // maybe root mismatch
		body(5, l.Honest(0, 9), t0.Consistency(4, 9)), // bad proof
		body(5, refnote.Assemble(refnote.Body(l.Origin, 9, l.Root(0, 9)), e.u.Foreign[0].SigLine(refnote.Body(l.Origin, 9, l.Root(0, 9)))), nil),        // bad signature
		body(0, refnote.Assemble(refnote.Body("unknown origin", 9, l.Root(0, 9)), l.Key.SigLine(refnote.Body("unknown origin", 9, l.Root(0, 9)))), nil), // unknown origin
		body(0, e.u.Logs[1].Honest(0, 3), nil), // first use of the other log
		[]byte("old x\n\n"), []byte("old 1\n"), {},
	}
	return e
}

// FuzzHandler: arbitrary bytes to the add-checkpoint endpoint never panic and always get a documented status (C19).
func FuzzHandler(f *testing.F) {
	wit.Quiet()
	wit.ProdMetrics() // as the shipped binary runs by default
	e := newHandlerEnv()
	for _, s := range e.seeds {
		f.Add(s)
	}
	f.Fuzz(func(t *testing.T, b []byte) {
		st, _ := wit.NewStore("mem", "")
		rn, err := wit.NewRunner(e.u, e.keys, st, nil)
		if err != nil {
			t.Skip()
		}
		l := e.u.Logs[0]
		if _, err := rn.W.Update(context.Background(), l.ID, 0, l.Honest(0, 5), nil); err != nil {
			t.Skip()
		}
		h := http.MaxBytesHandler(bastion.VerifNewHandler(omniwitness.VerifWitnessAdapter(rn.W), e.logs, e.keys.Signers[1].(interface{ Verifier() note.Verifier }).Verifier(), 1e12), 16*1024)
		before := rn.Snap()
		rec := httptest.NewRecorder()
		h.ServeHTTP(rec, httptest.NewRequest(http.MethodPost, "/", bytes.NewReader(b)))
		switch rec.Code {
		case 200, 400, 403, 404, 409, 422, 429, 500:
		default:
			t.Fatalf("undocumented status %d", rec.Code)
		}
		if rec.Code != 200 && !rn.Snap().Equal(before) {
			t.Fatalf("status %d but the witness state changed", rec.Code)
		}
	})
}

type jsonServer struct{ body []byte }

func (s jsonServer) RoundTrip(q *http.Request) (*http.Response, error) {
	if strings.HasSuffix(q.URL.Path, "api/v1/log") {
		return &http.Response{StatusCode: 200, Body: io.NopCloser(bytes.NewReader(s.body)), Header: http.Header{}, ContentLength: int64(len(s.body)), Request: q}, nil
	}
	return &http.Response{StatusCode: 404, Body: io.NopCloser(strings.NewReader("")), Header: http.Header{}, Request: q}, nil
}

type nullWitness struct{}

func (nullWitness) GetLatestCheckpoint(context.Context, string) ([]byte, error) { return nil, io.EOF }
func (nullWitness) Update(context.Context, string, uint64, []byte, [][]byte) ([]byte, error) {
	return nil, io.EOF
}

// FuzzRekorJSON: arbitrary log-info JSON from a Rekor server never panics and the cycle ends (C19).
func FuzzRekorJSON(f *testing.F) {
	wit.Quiet()
	key := refnote.NewSignKey("rekor.example", [32]byte{4, 2})
	text := refnote.Body("rekor.example - 777", 9, make([]byte, 32))
	cp := string(refnote.Assemble(text, key.SigLine(text)))
	for _, s := range []string{`{"signedTreeHead":` + strconv.Quote(cp) + `,"treeID":"777","treeSize":9}`, `{"treeID":"1","inactiveShards":[{"treeID":"777","signedTreeHead":"x"}]}`, `{}`, `[`, `{"inactiveShards":null}`, `{"treeSize":1e99}`} {
		f.Add([]byte(s))
	}
	cl, _ := config.NewLog("rekor.example - 777", key.Vkey(), "http://rekor.stub/?treeID=777")
	f.Fuzz(func(t *testing.T, b []byte) {
		ctx, cancel := context.WithTimeout(context.Background(), 30*time.Millisecond)
		defer cancel()
		done := make(chan struct{})
		go func() {
			defer close(done)
			_ = rekor.FeedLog(ctx, cl, nullWitness{}, &http.Client{Transport: jsonServer{b}}, 0)
		}()
		select {
		case <-done:
		case <-time.After(20 * time.Second):
			t.Fatalf("the Rekor feed cycle did not end 20 s after its 30 ms deadline")
		}
	})
}
