#!/bin/sh
# selftest/recheck.sh <seed-id> <check> [check...]
# Applies /verif/seeded/<seed-id>/patch.diff to a fresh scratch worktree of /repo HEAD and runs the given checks
# against it (tier from $TIER, default quick); appends the outcome to the seed's confirm.log.
set -u
ID=$1; shift
export GOFLAGS=-mod=mod GOPROXY=off GOSUMDB=off GOTOOLCHAIN=local
V=$(cd "$(dirname "$0")/.." && pwd)
DST=$V/seeded/$ID
[ -f "$DST/patch.diff" ] || { echo "no $DST/patch.diff"; exit 2; }
W=$(mktemp -d /tmp/recheck-XXXXXX); rmdir "$W"
git -C /repo worktree add -q --detach "$W" HEAD || exit 3
trap 'git -C /repo worktree remove --force "$W" 2>/dev/null; rm -rf "$W" "$W.out" "$W.log"' EXIT
(cd "$W" && git apply "$DST/patch.diff") || { echo "patch does not apply"; exit 4; }
cd "$V"
for P in "$@"; do
  VERIF_REPO="$W" VERIF_EVIDENCE_DIR="$W.out" VERIF_REPLAY_DIR="$W.out" ./check "$P" ${TIER:-quick} > "$W.log" 2>&1
  rc=$?
  if [ $rc -eq 1 ]; then echo "check $P: DETECTED $(grep -m1 '^  key=' "$W.log" | cut -c1-220)" | tee -a "$DST/confirm.log" | sed "s/^/$ID /"
  else echo "check $P: not detected (rc=$rc) $(grep -m1 INCONCLUSIVE "$W.log" | cut -c1-200)" | tee -a "$DST/confirm.log" | sed "s/^/$ID /"; fi
done
