#!/bin/sh
# selftest/benign.sh <patch> [tier] [props...]
# Soundness test: applies a property-PRESERVING change (written independently, see selftest/benign-prompt.txt)
# to a scratch worktree of /repo and runs the checks against it. Every check must stay silent (rc 0).
set -u
PATCH=$(readlink -f "$1"); TIER=${2:-quick}; shift; [ $# -gt 0 ] && shift
[ $# -eq 0 ] && set -- C01 C02 C03 C04 C05 C06 C07 C08 C09 C10 C11 C12 C13 C14 C15 C16 C17 C18 C19 C20
export GOFLAGS=-mod=mod GOPROXY=off GOSUMDB=off GOTOOLCHAIN=local
W=$(mktemp -d /tmp/ben-XXXXXX); rmdir "$W"
git -C /repo worktree add -q --detach "$W" HEAD || exit 3
cleanup() { git -C /repo worktree remove --force "$W" 2>/dev/null; rm -rf "$W" "$W.out"; }
trap cleanup EXIT
(cd "$W" && git apply "$PATCH") || { echo "BENIGN $(basename $(dirname $PATCH)): patch does not apply"; exit 3; }
(cd "$W" && go build ./... && go test -vet=off -count=1 ./... >/dev/null 2>&1) || { echo "BENIGN: suite fails with the change"; exit 4; }
mkdir -p "$W.out"
cd "$(dirname "$0")/.." || exit 3
bad=0
for P in "$@"; do
  VERIF_REPO="$W" VERIF_EVIDENCE_DIR="$W.out" VERIF_REPLAY_DIR="$W.out" ./check "$P" "$TIER" > "$W.out/$P.log" 2>&1
  rc=$?
  if [ $rc -ne 0 ]; then bad=1; echo "  $P rc=$rc: $(grep -m1 -E '^  key=|INCONCLUSIVE|Error|error' "$W.out/$P.log" | cut -c1-300)"; else echo "  $P ok"; fi
done
exit $bad
