#!/usr/bin/env python3
"""selftest/mkmeta.py <seed-id> : writes seeded/<id>/meta.json from the agent's meta and confirm.log."""
import json, os, sys, re
V = os.path.dirname(os.path.dirname(os.path.abspath(__file__)))
sid = sys.argv[1]
d = os.path.join(V, "seeded", sid)
am = {}
try:
    am = json.load(open(os.path.join(d, "agent-meta.json")))
except Exception:
    pass
log = open(os.path.join(d, "confirm.log")).read()
lines = [l for l in log.splitlines() if re.match(r"^(build|suite|demo|check) ", l)]
caught = [l.split(":")[0].replace("check ", "") for l in lines if l.startswith("check ") and "DETECTED" in l]
missed = [l.split(":")[0].replace("check ", "") for l in lines if l.startswith("check ") and "not detected" in l]
caught = sorted(set(caught))
first_missed = sorted(set(m for m in missed if m in caught))
missed = sorted(set(m for m in missed if m not in caught))
meta = {
    "seed_id": sid,
    "breaks_property": am.get("property", sid[:3]),
    "written_by": "independent sub-agent given only the property record and a scratch worktree",
    "summary": am.get("summary", ""),
    "needs_to_manifest": am.get("needs_to_manifest", ""),
    "files_changed": am.get("files_changed", []),
    "demonstration": {"files": open(os.path.join(d, "demo", "FILES.txt")).read().split(), "command": am.get("demo_command", "")},
    "confirmed_in_fresh_worktree": [l for l in lines if not l.startswith("check ")],
    "checks_run": [l for l in lines if l.startswith("check ")],
    "caught_by": caught,
    "not_caught_by": missed,
    "missed_on_an_earlier_run_caught_after_strengthening": first_missed,
    "notes": sys.argv[2] if len(sys.argv) > 2 else "",
}
json.dump(meta, open(os.path.join(d, "meta.json"), "w"), indent=1)
print(sid, "caught_by", caught, "missed", missed)
