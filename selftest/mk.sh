#!/bin/sh
# selftest/mk.sh <name> : reads a python snippet on stdin that edits files under the scratch worktree (cwd), saves git diff as mutants/<name>.diff
NAME=$1
W=$(mktemp -d /tmp/mk-XXXXXX); rmdir $W
git -C /repo worktree add -q --detach $W HEAD || exit 1
(cd $W && python3 - && gofmt -l . >/dev/null && git diff > /verif/selftest/mutants/$NAME.diff)
git -C /repo worktree remove --force $W
wc -l /verif/selftest/mutants/$NAME.diff
