#!/usr/bin/env python3
"""selftest/mkprompt.py <PROP> <DIR> : the seeding prompt for one property, listing (in brief) the independent
changes already collected for it so that the next one differs in mechanism, site and condition."""
import json, glob, os, sys
V = os.path.dirname(os.path.dirname(os.path.abspath(__file__)))
prop, d = sys.argv[1], sys.argv[2]
rec = [json.loads(l) for l in open(os.path.join(V, "properties.jsonl")) if json.loads(l)["id"] == prop][0]
t = open(os.path.join(V, "selftest", "seed-prompt.txt")).read().replace("DIR", d).replace("PROPERTY_JSON", json.dumps(rec, indent=1))
prev = []
for f in sorted(glob.glob(os.path.join(V, "seeded", prop + "*", "agent-meta.json"))):
    try:
        m = json.load(open(f))
    except Exception:
        continue
    prev.append("- files %s: %s || needs: %s" % (m.get("files_changed", []), m.get("summary", "")[:500], m.get("needs_to_manifest", "")[:250]))
if prev:
    t += ("\n\nOther people have already produced the following breaking changes for this property (PREVIOUS). Yours must differ from ALL of them "
          "in mechanism, in code site (prefer a file none of them touched if the property's anchors allow it - including cmd/, configuration handling, "
          "shutdown/start-up paths, error mapping, goroutine structure, use of a dependency's API) and in the condition needed to manifest:\n" + "\n".join(prev) + "\n")
extra = os.environ.get("SEED_EXTRA_RULE", "")
if extra:
    t += "\n\nAdditional requirement for this round: " + extra + "\n"
print(t)
