#!/bin/sh
# selftest/confirm_batch.sh <worktree prefix e.g. /tmp/seed5-> <id suffix e.g. e> [props...]
PFX=$1; SUF=$2; shift 2
cd "$(dirname "$0")/.." || exit 1
[ $# -eq 0 ] && set -- C01 C02 C03 C04 C05 C06 C07 C08 C09 C10 C11 C12 C13 C14 C15 C16 C17 C18 C19 C20
for p in "$@"; do
  [ -f "$PFX$p/SEED/patch.diff" ] || { echo "== $p: no patch yet"; continue; }
  echo "== $p$SUF"
  selftest/confirm.sh $p $PFX$p $p$SUF 2>&1 | grep -E "^(build|suite|demo|check)" | sed 's/^/   /' | cut -c1-230
done
