#!/bin/sh
# selftest/confirm.sh <PROP> <agent worktree> [seed-id]
# Confirms an independently written breaking change: applies its patch to a FRESH worktree of /repo HEAD,
# checks it builds and the repository suite passes, that the demonstration fails with it and passes without it,
# then stores it under /verif/seeded/<seed-id>/ and runs the property's quick check (and optional extra checks) against it.
set -u
PROP=$1; SRC=$2; ID=${3:-$PROP}
export GOFLAGS=-mod=mod GOPROXY=off GOSUMDB=off GOTOOLCHAIN=local
V=$(cd "$(dirname "$0")/.." && pwd)
[ -f "$SRC/SEED/patch.diff" ] || { echo "no SEED/patch.diff in $SRC"; exit 2; }
DST=$V/seeded/$ID
mkdir -p "$DST/demo"
cp "$SRC/SEED/patch.diff" "$DST/patch.diff"
cp "$SRC/SEED/meta.json" "$DST/agent-meta.json" 2>/dev/null
# demonstration files = untracked files of the agent's worktree outside SEED/
# (files the patch itself creates are part of the change, not of the demonstration)
(cd "$SRC" && git status --porcelain --untracked-files=all | grep '^??' | cut -c4- | grep -v '^SEED/' ) | while read -r f; do grep -q "^+++ b/$f\$" "$DST/patch.diff" || echo "$f"; done > "$DST/demo/FILES.txt"
while read -r f; do mkdir -p "$DST/demo/$(dirname "$f")"; cp "$SRC/$f" "$DST/demo/$f"; done < "$DST/demo/FILES.txt"
W=$(mktemp -d /tmp/confirm-XXXXXX); rmdir "$W"
git -C /repo worktree add -q --detach "$W" HEAD || exit 3
trap 'git -C /repo worktree remove --force "$W" 2>/dev/null; rm -rf "$W"' EXIT
R="$DST/confirm.log"; : > "$R"
(cd "$W" && git apply "$DST/patch.diff") || { echo "patch does not apply" | tee -a "$R"; exit 4; }
(cd "$W" && go build ./... ) >>"$R" 2>&1 && echo "build: ok" | tee -a "$R" || { echo "build: FAILS" | tee -a "$R"; exit 4; }
(cd "$W" && go test -vet=off -count=1 ./... ) >>"$R" 2>&1 && echo "suite with change: passes" | tee -a "$R" || echo "suite with change: FAILS" | tee -a "$R"
while read -r f; do mkdir -p "$W/$(dirname "$f")"; cp "$DST/demo/$f" "$W/$f"; done < "$DST/demo/FILES.txt"
PKGS=$(sed 's|/[^/]*$||' "$DST/demo/FILES.txt" | sort -u | sed 's|^|./|' | tr '\n' ' ')
# the tests to run are the ones the demonstration files define
RUNPAT=$(while read -r f; do grep -ho '^func Test[A-Za-z0-9_]*' "$DST/demo/$f" 2>/dev/null | sed 's/^func //'; done < "$DST/demo/FILES.txt" | sort -u | tr '\n' '|' | sed 's/|$//')
[ -n "$RUNPAT" ] || RUNPAT='Seed|seed|Demo|demo'
RUNPAT="^($RUNPAT)\$"
(cd "$W" && go test -vet=off -count=1 -run "$RUNPAT" $PKGS ) >>"$R" 2>&1 && echo "demo with change: PASSES (unexpected)" | tee -a "$R" || echo "demo with change: fails (expected)" | tee -a "$R"
(cd "$W" && git apply -R "$DST/patch.diff" && go test -vet=off -count=1 -run "$RUNPAT" $PKGS ) >>"$R" 2>&1 && echo "demo without change: passes (expected)" | tee -a "$R" || echo "demo without change: FAILS (unexpected)" | tee -a "$R"
(cd "$W" && git apply "$DST/patch.diff")
while read -r f; do rm -f "$W/$f"; done < "$DST/demo/FILES.txt"
cd "$V"
for P in $PROP ${EXTRA_CHECKS:-}; do
  VERIF_REPO="$W" VERIF_EVIDENCE_DIR="$W.out" VERIF_REPLAY_DIR="$W.out" ./check "$P" ${TIER:-quick} > "$W.log" 2>&1
  rc=$?
  if [ $rc -eq 1 ]; then echo "check $P: DETECTED $(grep -m1 '^  key=' "$W.log" | cut -c1-220)" | tee -a "$R"
  else echo "check $P: not detected (rc=$rc) $(grep -m1 INCONCLUSIVE "$W.log" | cut -c1-200)" | tee -a "$R"; fi
done
rm -rf "$W.out" "$W.log"
