#!/bin/sh
# selftest/run.sh <patch> <property> [tier] [--suite]
# Applies a patch to a scratch worktree of /repo, optionally confirms the repository's own
# suite still passes, runs the property's check against the scratch tree and reports
# whether it fired. Evidence/replays of these runs go to a scratch dir, never to /verif/evidence.
set -u
PATCH=$(readlink -f "$1"); PROP=$2; TIER=${3:-quick}; SUITE=${4:-}
export GOFLAGS=-mod=mod GOPROXY=off GOSUMDB=off GOTOOLCHAIN=local
W=$(mktemp -d /tmp/mut-XXXXXX)
rmdir "$W"
git -C /repo worktree add -q --detach "$W" HEAD || exit 3
# carry uncommitted changes of /repo too (the check is defined on the working tree)
git -C /repo diff HEAD | (cd "$W" && git apply --allow-empty 2>/dev/null)
cleanup() { git -C /repo worktree remove --force "$W" 2>/dev/null; rm -rf "$W" "$W.out"; }
trap cleanup EXIT
(cd "$W" && git apply "$PATCH") || { echo "SELFTEST $PROP $(basename $PATCH): patch does not apply"; exit 3; }
if [ "$SUITE" = "--suite" ]; then
  (cd "$W" && go build ./... && go test -vet=off -count=1 ./... >/dev/null 2>&1) || { echo "SELFTEST $PROP $(basename $PATCH): SUITE FAILS (mutant not of the interesting kind)"; exit 4; }
fi
mkdir -p "$W.out"
cd "$(dirname "$0")/.." || exit 3
VERIF_REPO="$W" VERIF_EVIDENCE_DIR="$W.out" VERIF_REPLAY_DIR="$W.out" ./check "$PROP" "$TIER" > "$W.out/log" 2>&1
rc=$?
if [ $rc -eq 1 ] && grep -q "^VIOLATION property=$PROP" "$W.out/log"; then
  echo "SELFTEST $PROP $(basename $PATCH): DETECTED  $(grep -m1 '^  key=' "$W.out/log" | cut -c1-200)"
  exit 0
fi
echo "SELFTEST $PROP $(basename $PATCH): MISSED rc=$rc"; tail -5 "$W.out/log"
exit 1
