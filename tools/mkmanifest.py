#!/usr/bin/env python3
"""Regenerates /verif/MANIFEST.json from the table below (run after adding a check)."""
import json, os
V = os.path.dirname(os.path.dirname(os.path.abspath(__file__)))

CHECKS = {
 "C01": dict(cat="exploration", sec="4 C01", tech="reference-model monitor on leaves over generated hostile histories (runtime monitoring)",
   text="Real Witness.Update is driven with generated hostile histories (forked log-signed checkpoints, wrong old sizes, forged/truncated/padded/replayed proofs) on all three storages; after every request the stored checkpoint is read back and the per-log list of cosigned checkpoints is judged on the leaves of the harness's own RFC 6962 trees. Held on the executions listed in the evidence, with floors on accepted growth steps and on refused forks that carried an internally valid proof.",
   note="Assumes SHA-256/Ed25519; ground truth is kit/reftree (written from the RFC, cross-checked against x/mod tlog at start-up); only generated histories are covered."),
 "C02": dict(cat="exploration", sec="4 C02", tech="authenticity monitor (refnote) over exhaustive single-fixture mutation sweeps and cross-log replays (runtime monitoring)",
   text="For drawn configurations of 1-6 logs (shared keys under different origins, hand-made and derived IDs) every valid fixture is put through every single-bit flip, every truncation, every line drop/duplication/swap, signature-block edits, cross-log/cross-origin replays and unknown IDs, in the first-use and a populated state, with the old size and proof that would make an authentic checkpoint acceptable. Any accept or state change for bytes that kit/refnote does not judge authentic for that ID is a violation.",
   note="Authentic := text signed by the harness with the log's key + origin match + verifying signature line (kit/refnote). One-directional: authentic => accepted is C08/C09."),
 "C03": dict(cat="exploration", sec="4 C03", tech="before/after state snapshot comparator around every refused Update, incl. injected storage faults (runtime monitoring)",
   text="Around every Update of generated hostile histories (with storage faults injected at open-for-write/read/write in ~8% of requests) the full observable state (log list, every configured and three unconfigured IDs, raw SQLite rows) is snapshotted; a refusal must leave it byte-identical and return nothing or exactly the previously stored checkpoint. Every refusal is classified by the reference model; each of the 11 reachable class x stored cells has a floor of 200 observations.",
   note="Observable state = GetLogs/GetCheckpoint/raw table; injected write faults do not perform the write."),
 "C04": dict(cat="exploration", sec="4 C04", tech="output monitor decoding every returned/read checkpoint with an independent note reader; wall-clock window inequality for timestamps (runtime monitoring)",
   text="Every accepted update and every stored checkpoint read back (in-process and through the real internal/http router) is decoded with kit/refnote: text identical to the submitted text, valid log signature, exactly one valid line per configured witness key (1-4 keys, legacy and cosignature/v1, production pair), cosignature time inside [clock before call, clock after call], read-after-accept identical. >=64 discriminating refreshes are issued after the clock passed the previous signature's second.",
   note="Assumes the system clock is not stepped backwards; inequality between clock readings, not a deadline."),
 "C08": dict(cat="exploration", sec="4 C08", tech="honest-probe monitor after generated prior histories, proofs from an independent RFC 6962 implementation (runtime monitoring)",
   text="After every generated prior history (hostile requests of every kind, checkpoints with 90-99 extra signature lines, extension lines, a size-0 first checkpoint; explicit trees to 2^16 and region trees to 2^40) an honest probe - clean log-signed checkpoint, old size = witness size, reference consistency proof accepted by both kit verifiers - is submitted for every log, twice in a row (growth and refresh), and must be accepted with a checkpoint of the submitted size. Floors: 300 probes after padded checkpoints, 300 after a size-0 first checkpoint, 300 at sizes above 2^32. One known finding (F2, stored size 0) is listed in KNOWN_FINDINGS.json.",
   note="Probes are skipped for logs whose stored checkpoint is a log-signed root that is no tree (a misbehaving log cannot be honest afterwards)."),
 "C09": dict(cat="exploration", sec="4 C09", tech="differential monitor against an executable reference model over an exhaustively enumerated decision table + random huge sizes (runtime monitoring)",
   text="Every cell of (stored in {nothing,0..N}) x (submitted 0..N) x (old 0..N, 2^63, 2^64-1) x {same branch, fork below stored, fork at stored} x 10 proof variants (+ unknown ID / wrong key / wrong origin) is executed on a fresh real witness (N=12 quick, 17 thorough, both storages in thorough) and compared with kit/refwitness on accept/refuse, sentinel identity (errors.Is) and returned bytes; plus random histories on region trees with sizes to 2^63 and old sizes to 2^64-1. exhaustive=true refers to the small scope.",
   note="Rule order as in the statement; proof verdict from kit/reftree cross-checked with x/mod tlog at start-up; the two excluded cells are executed, not judged."),
 "C20": dict(cat="exploration", sec="4 C20", tech="counter-delta monitor through a recording MetricFactory compared with the reference model's verdict (runtime monitoring)",
   text="A recording metric factory is installed before the first witness exists; around every Update of generated histories (all stores, storage faults in ~6% of requests) the delta of all four counters for all labels of the unit is compared with the reference model: attempt iff known log, success iff accepted, invalid-consistency iff bad proof, inconsistent iff same-size different root, nothing else; totals are cross-checked per history. Floors of 200 per verdict class incl. storage failure.",
   note="IDs are unique per unit so process-wide counters are attributable under parallel units; ambiguous/out-of-claim requests judged on attempt+success only."),
 "C10": dict(cat="exploration", sec="4 C10", tech="HTTP response monitor against the reference model, requests through the real handler + real adapter + real witness (runtime monitoring)",
   text="The real add-checkpoint handler (built as FeedBastion builds it, via a verif-tagged shim) over the real witness through the real witnessAdapter is driven by sequences of 10-40 generated requests per witness (every verdict class, plus malformed bodies); status, Content-Type, body and witness state after each request are judged against kit/refwitness: 200 => every body line verifies under the witness's published key over the submitted text and the witness holds the checkpoint; 409-stale => text/x.tlog.size + true size; non-200 => state unchanged; 429 => Update not invoked (counting wrapper). Rate limiter judged at 0, 1e9 and by inequalities on measured time at 2/s and 5/s.",
   note="In-process ServeHTTP only: the TLS 1.3 + HTTP/2 reverse connection and the 16 KiB cap are not covered by this check (see DESIGN.md limits). Fractional rate limits not judged."),
 "C11": dict(cat="exploration", sec="4 C11", tech="round-trip and differential monitor of the real parsers against an independent writer/reader (runtime monitoring)",
   text="Bodies from an independent writer (old sizes incl. 0, 2^k+-1, 2^64-1; 0-64 hashes of 1-64 bytes; checkpoint bytes incl. blank lines, CR, non-UTF-8, none) must parse to exactly what was written; bodies of the three unambiguous malformed classes must be refused; Proof.Marshal/Unmarshal round-trips every generated list incl. empty; bodies posted by the repository's own writer (cmd/feedbastion, captured through an overlaid in-package test) parse back; a differential sweep of mutated bodies is judged against a reference reader where its verdict is definite.",
   note="Open variants (leading zeros, several spaces/tab, CRLF, >4 KiB lines) are only judged by the weak oracle."),
 "C12": dict(cat="exploration", sec="4 C12", tech="alone-vs-interleaved differential replay of recorded histories; ID observation at every interface (runtime monitoring)",
   text="Isolation: per-log hostile histories recorded while each log runs alone are replayed in PRNG interleavings on one shared real witness (2-5 logs, shared keys, all stores); verdict sequences and final stored bytes must be identical and no ID may hold a checkpoint of another origin after any step. Identity: for generated origins (1-200 bytes, spaces, slashes, unicode, trailing spaces) the ID is observed at AsLogMap, config.NewLog, the bastion handler (recording witness), the distributor PUT path, the HTTP read API and a feeder's witness calls and must equal hex(SHA-256('o:'+origin)); configurations with a duplicated origin must make omniwitness.Main return an error with zero Accept calls on its listener.",
   note="Legacy witness signatures are deterministic; cosignature/v1 runs compare after removing timestamped lines."),
 "C15": dict(cat="exploration", sec="4 C15", tech="request monitor at a stub distributor + stub witness, exhaustive answer-pair enumeration (runtime monitoring / fault enumeration)",
   text="The real DistributeOnce runs against a stub witness and a stub distributor: all 10 x 8 (witness answer, distributor answer) pairs for single logs and PRNG-drawn sets of 1-6 logs. Every request reaching the stub is judged: PUT, path names hex(SHA-256('o:'+origin)) and the escaped witness key name, body byte-identical to the witness's answer and verifying under log key/origin and witness key by kit/refnote; logs whose answer is not valid produce no request; every log is still looked up; the overall error is non-nil iff at least one log failed.",
   note="307->200 is executed, not judged. Checkpoints are cosigned by the harness's own signer."),
 "C16": dict(cat="exploration", sec="4 C16", tech="read-API monitor comparing HTTP responses and the bundled client with the in-process state after every step (runtime monitoring)",
   text="After every request of generated histories over 1-4 logs (all stores) every configured ID is fetched through the real gorilla router and through the bundled client/http: 200 + exact stored bytes or 404 / os.ErrNotExist; the decoded log list must equal the set of IDs with an accepted update (a refused first submission creates no entry); unknown hex IDs and syntactically odd IDs must give 404 and never a stored checkpoint.",
   note="In-memory round-tripper instead of a socket."),
 "C13": dict(cat="fault_enumeration", sec="4 C13", tech="call-sequence monitor at a scripted recording witness stub; exhaustive transient-failure patterns with real back-off; race detector on (runtime monitoring)",
   text="The real feeder.FeedOnce runs against a recording witness stub (whose latest checkpoint may move between attempts) and instrumented FetchCheckpoint/FetchProof closures. All 121 sequences of 0-4 failing attempts (each at get-latest, fetch-proof or update) x {first use, growth, equality} are enumerated with real back-off sleeps; all (witness size, log size) pairs in 0..K squared x {honest, forked} run against the stub and against the real witness through the real adapter; cancellation while the witness fails persistently is judged on attempts started after the cancel. Per attempt: submitted bytes verify (refnote), old size = size reported in that attempt, proof requested from exactly that checkpoint to the submitted one, no Update while the witness is ahead (permanent error after one attempt), success returns the witness's bytes. Built with -race.",
   note="K=14 quick, 40 thorough. Size-0 first checkpoints are not used with the real witness (known finding F2)."),
 "C17": dict(cat="exploration", sec="4 C17", tech="start-up path executed on the shipped files under a recording, refusing transport; exhaustive over entries (runtime monitoring)",
   text="Every entry of omniwitness/logs.yaml and logs_test.yaml as found in the working tree is run through the functions Main uses (YAML decode, config.NewLog, AsLogMap, feeder lookup); every entry with a feeder has its real feed function started once against a transport that records and refuses requests (must issue a well-formed request to the configured host and fail with the transport error; panics are caught); the witness map and the feeder list must name the same IDs; finally omniwitness.Main itself is started on the shipped configuration with polling on and must serve its API.",
   note="exhaustive=true: all entries in the tree. Network replaced by a refusing transport, so only start-up and each feeder's first request are exercised."),
 "C18": dict(cat="exploration", sec="4 C18", tech="request-path monitor against tlog.Tile.Path and proof monitor with three independent verifiers over all size pairs (runtime monitoring)",
   text="Paths: the exported SumDB client is called for levels 0-7, widths 1-256 and ~15k indices incl. every carry boundary of the x%03d encoding up to 10^9; the requested path must equal tlog.Tile.Path. Proofs: for every pair 1 <= from < to <= N (N=300 quick, 1200 thorough) plus sampled pairs up to 2^33 on region trees (full tiles at levels 1-3) the real sumdb.FeedLog runs against a stub SumDB serving exactly the size-`to` prefix (anything beyond is 404) and a recording witness; the proof passed to Update must be accepted by kit/reftree, tlog.CheckTree and a real Witness holding `from`.",
   note="Stub tiles come from x/mod tlog.ReadTileData over the harness tree."),
 "C05": dict(cat="exploration", sec="4 C05", tech="controlled scheduler enumerating storage-operation interleavings of the real code + porcupine linearizability check per execution + race detector stress (runtime monitoring)",
   text="The real Witness runs over a yielding persistence wrapper under a controlled scheduler: every storage operation and every request invocation is a yield point and a single scheduler goroutine releases one parked task at a time (enabledness on SQLite observed via db.Stats of the real single-connection pool). Every schedule of 18 scenarios (conflicting first use, forks from the same old size onto a fork consistent with the stored checkpoint, growth vs refresh, growth chain, stale/bad proof, different logs, a reader reading three times; 2-4 tasks) is executed - exhaustively for 2 tasks and 2 updaters + reader, preemption-bounded for 3 updaters/4 tasks in quick, exhaustive in thorough - and each history (logical clock = scheduler step, plus final reads) is checked with porcupine against kit/refwitness; storage errors are legal only for updates overlapping another update of the same log; reader sizes never decrease; a proven self-deadlock is a violation. Then randomised 8-64 goroutine stress runs under -race with the same oracle; any race report with a witness-module frame is a violation.",
   note="Granularity = storage operations; finer interleavings only via the -race stress. The search is split over GOMAXPROCS=1 worker processes (hand-offs stay in user space). quick ~70 s."),
 "C07": dict(cat="fault_enumeration", sec="4 C07", tech="fault injection at the persistence interface and at a wrapping database/sql driver, exhaustive single-fault positions + PRNG multi-fault histories, structural quiescence invariant (runtime monitoring)",
   text="For six scenarios (first use, growth, refresh, refused-stale, refused-bad-proof, first-use-shaped fork on a populated log) every storage call position (learned from a fault-free dry run) x every fault kind is injected singly at the LogStatePersistence interface (over in-memory and SQLite) and at the SQL driver (begin/query/exec/commit/rollback, failed-before and reported-failed-after; :memory: and file), followed by PRNG multi-fault histories. After each faulted request: pool/handle quiescence (db.Stats().InUse==0, no open write handle), fault-free read-back, nil error => read returns exactly the returned bytes, refusable requests stay refused with the old checkpoint in place, then an honest next step from the committed state must be accepted; a call that never returns with the pool exhausted and nothing else running is a wedge.",
   note="Faults stay inside the contract of the layer they impersonate (failed Commit really rolls back); ErrBadConn not injected; kernel-level ENOSPC/EIO not part of this tier."),
 "C06": dict(cat="fault_enumeration", sec="4 C06", tech="process kill at every driver-operation boundary (self-kill inside a wrapping SQL driver) and at every storage syscall (strace signal injection), store reopened and judged by an old-or-new monitor (runtime monitoring / crash-point enumeration)",
   text="A child process runs the real Witness on file-backed SQLite (wrapping driver, production pool setting, thread-locked) and acknowledges each outcome with one write(2). It is SIGKILLed (1) at every driver operation (begin/query/exec/commit/rollback, before and after the real call) of five scripts (first use, growth, refresh, growth after a refused update, two logs interleaved) on a fresh and on a populated table, (2) at every storage syscall (pwrite64/fsync/fdatasync/unlink/ftruncate) via strace, (3, thorough) at 3000 random instants. This process then reopens the file with the plain production driver: per log the stored checkpoint must be hash-equal to the last acknowledged one or be the complete, validly cosigned form of the single in-flight request; a fork must then be refused and the honest next step accepted through the real Update.",
   note="Crash = SIGKILL on a live kernel; power loss/torn writes/missing fsync are out of reach. exhaustive=true refers to the enumerated operation and syscall boundaries of these scripts."),
}

NOT_YET = "check not built yet in this session (planned, see DESIGN.md section 4)"

def main():
    props = [json.loads(l)["id"] for l in open(os.path.join(V, "properties.jsonl"))]
    checks, na = [], []
    for p in props:
        c = CHECKS.get(p)
        if not c:
            na.append(dict(property_id=p, reason=NOT_YET))
            continue
        checks.append(dict(
            property_id=p,
            quick_cmd=f"./check {p} quick",
            thorough_cmd=f"./check {p} thorough",
            evidence_file=f"/verif/evidence/{p}.json",
            replay_cmd_template=f"./check {p} --replay {{path}}",
            engine="harness",
            level_claimed=dict(category=c["cat"], text=c["text"], design_ref="DESIGN.md section " + c["sec"]),
            level_note=c["note"],
            technique=c["tech"],
        ))
    m = dict(
        version=1,
        setup_cmd="./setup.sh",
        hooks=dict(
            guard="verif",
            enable="go build -tags verif -overlay <generated> -modfile <copy of /repo/go.mod + porcupine>: harness packages are overlaid under internal/verif/, three //go:build verif shim files are overlaid into existing packages; nothing is committed to /repo",
            baseline_off_cmd="cd /repo && GOFLAGS=-mod=mod GOPROXY=off GOSUMDB=off GOTOOLCHAIN=local go test -mod=mod -json -vet=off -count=1 -timeout 25m ./...",
            source_commits=[],
            add_only=True,
        ),
        engines=[dict(name="harness", path="/verif/check", serves_properties=[c["property_id"] for c in checks],
                      kind_free_text="python driver + Go harness binaries built from /repo's working tree with -overlay; monitors = reference models (kit/reftree, refnote, refwitness), snapshot comparators, porcupine, race detector, fault/kill injection at the persistence and SQL-driver seams")],
        checks=checks,
        notes="Exit codes: 0 held on what was observed, 1 VIOLATION, 2 INCONCLUSIVE (never on the unchanged tree). Known findings: KNOWN_FINDINGS.json.",
        not_applicable=na,
    )
    json.dump(m, open(os.path.join(V, "MANIFEST.json"), "w"), indent=1)
    print("checks:", [c["property_id"] for c in checks], "not_applicable:", len(na))

if __name__ == "__main__":
    main()
