#!/usr/bin/env python3
"""Regenerates /verif/MANIFEST.json from the table below (run after adding a check)."""
import json, os
V = os.path.dirname(os.path.dirname(os.path.abspath(__file__)))

CHECKS = {
 "C01": dict(cat="exploration", sec="4 C01", tech="reference-model monitor on leaves over generated hostile histories (runtime monitoring)",
   text="Real Witness.Update is driven with generated hostile histories (forked log-signed checkpoints, wrong old sizes, forged/truncated/padded/replayed proofs) on all three storages; after every request the stored checkpoint is read back and the per-log list of cosigned checkpoints is judged on the leaves of the harness's own RFC 6962 trees. Held on the executions listed in the evidence, with floors on accepted growth steps and on refused forks that carried an internally valid proof.",
   note="Assumes SHA-256/Ed25519; ground truth is kit/reftree (written from the RFC, cross-checked against x/mod tlog at start-up); only generated histories are covered."),
}

NOT_YET = "check not built yet in this session (planned, see DESIGN.md section 4)"

def main():
    props = [json.loads(l)["id"] for l in open(os.path.join(V, "properties.jsonl"))]
    checks, na = [], []
    for p in props:
        c = CHECKS.get(p)
        if not c:
            na.append(dict(property_id=p, reason=NOT_YET))
            continue
        checks.append(dict(
            property_id=p,
            quick_cmd=f"./check {p} quick",
            thorough_cmd=f"./check {p} thorough",
            evidence_file=f"/verif/evidence/{p}.json",
            replay_cmd_template=f"./check {p} --replay {{path}}",
            engine="harness",
            level_claimed=dict(category=c["cat"], text=c["text"], design_ref="DESIGN.md section " + c["sec"]),
            level_note=c["note"],
            technique=c["tech"],
        ))
    m = dict(
        version=1,
        setup_cmd="./setup.sh",
        hooks=dict(
            guard="verif",
            enable="go build -tags verif -overlay <generated> -modfile <copy of /repo/go.mod + porcupine>: harness packages are overlaid under internal/verif/, three //go:build verif shim files are overlaid into existing packages; nothing is committed to /repo",
            baseline_off_cmd="cd /repo && GOFLAGS=-mod=mod GOPROXY=off GOSUMDB=off GOTOOLCHAIN=local go test -mod=mod -json -vet=off -count=1 -timeout 25m ./...",
            source_commits=[],
            add_only=True,
        ),
        engines=[dict(name="harness", path="/verif/check", serves_properties=[c["property_id"] for c in checks],
                      kind_free_text="python driver + Go harness binaries built from /repo's working tree with -overlay; monitors = reference models (kit/reftree, refnote, refwitness), snapshot comparators, porcupine, race detector, fault/kill injection at the persistence and SQL-driver seams")],
        checks=checks,
        notes="Exit codes: 0 held on what was observed, 1 VIOLATION, 2 INCONCLUSIVE (never on the unchanged tree). Known findings: KNOWN_FINDINGS.json.",
        not_applicable=na,
    )
    json.dump(m, open(os.path.join(V, "MANIFEST.json"), "w"), indent=1)
    print("checks:", [c["property_id"] for c in checks], "not_applicable:", len(na))

if __name__ == "__main__":
    main()
