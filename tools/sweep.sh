#!/bin/sh
# tools/sweep.sh <tier> <seed...> : runs every check at the given seeds; prints one line per run. Evidence of these runs goes to a scratch dir.
TIER=$1; shift
cd "$(dirname "$0")/.." || exit 1
OUT=$(mktemp -d /tmp/sweep-XXXXXX)
for seed in "$@"; do
  for p in C01 C02 C03 C04 C05 C06 C07 C08 C09 C10 C11 C12 C13 C14 C15 C16 C17 C18 C19 C20; do
    t0=$(date +%s)
    VERIF_SEED=$seed VERIF_EVIDENCE_DIR=$OUT VERIF_REPLAY_DIR=$OUT/replays ./check $p $TIER > $OUT/$p-$seed.log 2>&1
    rc=$?
    echo "seed=$seed $p rc=$rc $(( $(date +%s) - t0 ))s $(grep -c '^VIOLATION' $OUT/$p-$seed.log) violations $(grep -m1 -E '^INCONCLUSIVE' $OUT/$p-$seed.log | cut -c1-160)"
  done
done
echo "logs in $OUT"
