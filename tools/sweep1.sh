#!/bin/sh
# tools/sweep1.sh <tier> <seed> <props...>
TIER=$1; SEED=$2; shift 2
cd "$(dirname "$0")/.." || exit 1
OUT=$(mktemp -d /tmp/sweep-XXXXXX)
for p in "$@"; do
  t0=$(date +%s)
  VERIF_SEED=$SEED VERIF_EVIDENCE_DIR=$OUT VERIF_REPLAY_DIR=$OUT/replays ./check $p $TIER > $OUT/$p-$SEED.log 2>&1
  rc=$?
  echo "seed=$SEED $p rc=$rc $(( $(date +%s) - t0 ))s $(grep -c '^VIOLATION' $OUT/$p-$SEED.log) violations $(grep -m1 -E '^INCONCLUSIVE' $OUT/$p-$SEED.log | cut -c1-160)"
done
echo "logs in $OUT"
