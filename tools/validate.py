#!/opt/veriftools/pyvenv/bin/python
import json, sys, glob, jsonschema
jsonschema.validate(json.load(open('/verif/MANIFEST.json')), json.load(open('/root/.vp/MANIFEST.schema.json')))
s = json.load(open('/root/.vp/EVIDENCE.schema.json'))
for f in sorted(glob.glob('/verif/evidence/*.json')):
    jsonschema.validate(json.load(open(f)), s)
    print('valid', f)
print('manifest ok')
