#!/usr/bin/env python3
"""Rewrites DESIGN.md section 0.4 from seeded/*/meta.json."""
import sys, json, glob, os, re
V = os.path.dirname(os.path.dirname(os.path.abspath(__file__)))
rows = []
for p in sorted(glob.glob(os.path.join(V, "seeded", "*", "meta.json"))):
    m = json.load(open(p))
    summ = re.sub(r"\s+", " ", m.get("summary", "")).strip()
    if len(summ) > 260:
        summ = summ[:257] + "..."
    need = re.sub(r"\s+", " ", m.get("needs_to_manifest", "")).strip()
    if len(need) > 200:
        need = need[:197] + "..."
    keys = []
    for l in m.get("checks_run", []):
        mm = re.search(r"check (C\d+): DETECTED\s+key=(\S+)", l)
        if mm:
            keys.append(f"{mm.group(1)} `{mm.group(2)[:70]}`")
    missed = ", ".join(m.get("not_caught_by", []))
    note = m.get("notes", "")
    rows.append(f"| `{m['seed_id']}` | {m.get('breaks_property','')} | {summ} | {need} | {'; '.join(keys) or '-'} | {note or '-'} |")
txt = "### 0.4 Independently written breaking changes (`seeded/`)\n\n" \
      "Each was written by a fresh sub-agent that saw only the property record and a scratch worktree; I then confirmed in a\n" \
      "fresh worktree that it builds, that the unedited repository suite still passes, that its demonstration fails with it and\n" \
      "passes without it (`seeded/<id>/confirm.log`), and ran the checks against it (`selftest/confirm.sh`). 'note' says\n" \
      "where a check missed the change at first and what was strengthened.\n\n" \
      "| seed | property | change | needs | caught by (finding key) | note |\n|---|---|---|---|---|---|\n" + "\n".join(rows) + "\n\n"
d = open(os.path.join(V, "DESIGN.md")).read()
start = d.find("### 0.4 Independently written breaking changes")
ends = [i for i in (d.find("### 0.5 ", max(start, 0)), d.find("-" * 75 + "\n\n## 1. What this family")) if i >= 0]
if not ends:
    sys.exit("seedtable: cannot find the end of section 0.4 in DESIGN.md - nothing written")
end = min(ends)
if start < 0:
    d = d[:end] + txt + d[end:]
else:
    d = d[:start] + txt + d[end:]
open(os.path.join(V, "DESIGN.md"), "w").write(d)
print(len(rows), "seeds")
